import Qhttp.Model.RouteScn
import Qhttp.Props.C01
import Qhttp.Lemmas.RouteSubst
import Qhttp.Lemmas.RouteLemmas
import Qhttp.Lemmas.RouteWire
import Qhttp.Lemmas.RouteSoft
/-
  C05 — routing picks exactly one action, in the documented order.
-/
namespace Qhttp.C05
open Qhttp

def isPr : Obs → Bool | .pr _ _ => true | _ => false
def prs (obs : List Obs) : List (Nat × Bytes) :=
  obs.filterMap fun o => match o with | .pr n p => some (n, p) | _ => none

def terminal : List Act → Option Act
  | [] => none
  | [a] => (match a with | .mw _ _ => none | t => some t)
  | _ :: l => terminal l

def LOCATION : Bytes := lit ['L','o','c','a','t','i','o','n']

def statusOf (wire : Bytes) : Option Nat :=
  match Http.parse wire with
  | some m => (Http.statusLine m.start).map (·.code)
  | none => none

/-! ### the documented behaviour, written independently of `route` -/

def escNums : List ArgTok → List Nat
  | [] => []
  | .lit _ :: l => escNums l
  | .esc n _ :: l => n :: escNums l

def insertNat (x : Nat) : List Nat → List Nat
  | [] => [x]
  | y :: ys => if x < y then x :: y :: ys else if x = y then y :: ys else y :: insertNat x ys

/-- the distinct place-marker numbers of a template, ascending -/
def markers (toks : List ArgTok) : List Nat := (escNums toks).foldr insertNat []

def fillAll (nums : List Nat) (caps : List QStr) : List ArgTok → QStr
  | [] => []
  | .lit c :: l => c :: fillAll nums caps l
  | .esc k raw :: l =>
    (match nums.idxOf? k with
     | some i => (match caps[i]? with | some a => a | none => raw)
     | none => raw) ++ fillAll nums caps l

/-- "the template with captures substituted": capture i replaces every occurrence of the i-th
    lowest place marker of the TEMPLATE, all at once -/
def specSubst (tmpl : QStr) (caps : List QStr) : QStr :=
  let toks := argScan .normal tmpl
  fillAll (markers toks) caps toks

def specRedirect (m : Matcher) (path : QStr) : List (Nat × QStr) → Option QStr
  | [] => none
  | (pat, tmpl) :: rest =>
    match m pat path with
    | some mt => some (specSubst tmpl mt.caps)
    | none => specRedirect m path rest

inductive SubRes
  | found (t : Option Act)
  | nomatch
  | outside              -- a sub-handler pattern matched, but not at the start of the path

mutual
  /-- terminal action for a request all of whose middleware accept: first matching redirect, else
      first sub-handler whose pattern matches the START of the path (that prefix removed), else
      own processing.  `none`: outside the documented domain (a sub-handler pattern that is not
      start-anchored matched further in). -/
  def specRoute (m : Matcher) : Node → QStr → Option Act
    | .mk id _ redirects subs _, path =>
      match specRedirect m path redirects with
      | some loc => some (.redirect id loc)
      | none =>
        match specSubs m subs path with
        | .found t => t
        | .outside => none
        | .nomatch => some (.process id path)
  def specSubs (m : Matcher) : Subs → QStr → SubRes
    | .nil, _ => .nomatch
    | .cons pat child rest, path =>
      match m pat path with
      | some mt => if mt.idx = 0 then .found (specRoute m child (path.drop mt.len)) else .outside
      | none => specSubs m rest path
end

def accepted (env : Env) (sc : RouteScn) : Bool :=
  match C01.headOf sc.stream with
  | some head => (C01.expect env head).isSome
  | none => false

/-- on the observations of one routed request whose middleware all accept: exactly one terminal
    action, the one the documented order selects (`specRoute`); a redirect is a 302 whose only
    header line is the Location with the captures substituted; without root handler: 500 -/
def holds (env : Env) (sc : RouteScn) (obs : List Obs) : Bool :=
  if !accepted env sc then true else        -- a rejected request is never routed: C04
  let wire := Obs.wire obs
  match sc.root, sc.acts with
  | some root, some as =>
    match terminal as with
    | none => true                                   -- a middleware refused: C06's business
    | some _ =>
      match specRoute sc.matcher root (sc.p16.drop 1) with
      | none => true                                 -- outside the documented domain
      | some (.process id path) =>
        prs obs == [(id, be16 path)] && statusOf wire != some 302 && statusOf wire != some 301
      | some (.redirect _ loc) =>
        prs obs == [] &&
        (match Http.parse wire with
         | some m =>
           (Http.statusLine m.start).map (·.code) == some 302 &&
           m.headers == [(LOCATION, encodeLoc loc)] && m.body == []
         | none => false)
      | some (.mw _ _) => true
  | _, _ => prs obs == [] && statusOf wire == some 500

/-! ## Theorems -/

open Qhttp.RouteL

/-! ### `substitute` against the independent `specSubst` -/

theorem mem_insertNat {x y : Nat} {s : List Nat} : y ∈ insertNat x s ↔ y = x ∨ y ∈ s := by
  induction s with
  | nil => simp [insertNat]
  | cons z zs ih =>
    simp only [insertNat]
    split
    · simp
    · split
      · next h => subst h; simp
      · simp [ih]; constructor <;> (intro h; rcases h with h | h | h <;> simp [h])

theorem mem_foldr_insertNat {y : Nat} {l : List Nat} : y ∈ l.foldr insertNat [] ↔ y ∈ l := by
  induction l with
  | nil => simp
  | cons x xs ih => simp [List.foldr, mem_insertNat, ih]

theorem insertNat_of_lt {n : Nat} {s : List Nat} (h : ∀ y ∈ s, n < y) : insertNat n s = n :: s := by
  cases s with
  | nil => rfl
  | cons y ys => simp [insertNat, h y (by simp)]

/-- the ascending list of distinct elements starts with the minimum -/
theorem foldr_insertNat_min {n : Nat} {l : List Nat} (hn : n ∈ l) (hmin : ∀ k ∈ l, n ≤ k) :
    l.foldr insertNat [] = n :: (l.filter (· ≠ n)).foldr insertNat [] := by
  induction l with
  | nil => simp at hn
  | cons x xs ih =>
    have hmin' : ∀ k ∈ xs, n ≤ k := fun k hk => hmin k (by simp [hk])
    by_cases hx : x = n
    · subst hx
      simp only [List.foldr, ne_eq, not_true_eq_false, decide_false, Bool.false_eq_true,
        not_false_eq_true, List.filter_cons_of_neg]
      by_cases hin : x ∈ xs
      · rw [ih hin hmin']; simp [insertNat]
      · have hf : xs.filter (· ≠ x) = xs := by
          apply List.filter_eq_self.2
          intro k hk; simp; intro e; subst e; exact hin hk
        simp only [ne_eq] at hf
        rw [hf]
        apply insertNat_of_lt
        intro y hy
        have hy' := mem_foldr_insertNat.1 hy
        have := hmin' y hy'
        have : y ≠ x := by intro e; subst e; exact hin hy'
        omega
    · have hin : n ∈ xs := by simpa [Ne.symm hx] using hn
      have hlt : n < x := by have := hmin x (by simp); omega
      simp only [List.foldr]
      rw [ih hin hmin']
      have : (x :: xs).filter (· ≠ n) = x :: xs.filter (· ≠ n) := by simp [hx]
      rw [this]
      simp only [List.foldr, insertNat]
      have h1 : ¬ x < n := by omega
      simp [h1, hx]

theorem mem_escNums {k : Nat} {toks : List ArgTok} : k ∈ escNums toks ↔ ∃ raw, ArgTok.esc k raw ∈ toks := by
  induction toks with
  | nil => simp [escNums]
  | cons t l ih =>
    cases t with
    | lit c => simp [escNums, ih]
    | esc j raw =>
      simp only [escNums, List.mem_cons, ih]
      constructor
      · rintro (rfl | ⟨r, hr⟩)
        · exact ⟨raw, by simp⟩
        · exact ⟨r, by simp [hr]⟩
      · rintro ⟨r, hr⟩
        simp at hr
        rcases hr with ⟨rfl, _⟩ | hr
        · simp
        · exact Or.inr ⟨r, hr⟩

theorem escNums_lits (a : QStr) (l : List ArgTok) : escNums (a.map .lit ++ l) = escNums l := by
  induction a with
  | nil => rfl
  | cons c cs ih => simpa [escNums] using ih

theorem escNums_expand (n : Nat) (a : QStr) (toks : List ArgTok) :
    escNums (expand n a toks) = (escNums toks).filter (· ≠ n) := by
  induction toks with
  | nil => rfl
  | cons t l ih =>
    cases t with
    | lit c => simpa [expand, escNums] using ih
    | esc k raw =>
      by_cases h : k = n
      · simp [expand, escNums, h, escNums_lits, ih]
      · simp [expand, escNums, h, ih]

theorem markers_of_minEsc {toks : List ArgTok} {n : Nat} (h : minEsc toks = some n) (a : QStr) :
    markers toks = n :: markers (expand n a toks) := by
  obtain ⟨⟨raw, hr⟩, hmin⟩ := minEsc_some h
  simp only [markers, escNums_expand]
  apply foldr_insertNat_min
  · exact mem_escNums.2 ⟨raw, hr⟩
  · intro k hk
    obtain ⟨r, hk⟩ := mem_escNums.1 hk
    exact hmin k r hk

theorem markers_of_minEsc_none {toks : List ArgTok} (h : minEsc toks = none) : markers toks = [] := by
  have : escNums toks = [] := by
    apply List.eq_nil_iff_forall_not_mem.2
    intro k hk
    obtain ⟨r, hk⟩ := mem_escNums.1 hk
    exact minEsc_none h k r hk
  simp [markers, this]

theorem fillAll_lits (nums : List Nat) (caps : List QStr) (a : QStr) (l : List ArgTok) :
    fillAll nums caps (a.map .lit ++ l) = a ++ fillAll nums caps l := by
  induction a with
  | nil => rfl
  | cons c cs ih => simp [fillAll, ih]

theorem fillAll_nil_nums (caps : List QStr) (toks : List ArgTok) : fillAll [] caps toks = render toks := by
  induction toks with
  | nil => rfl
  | cons t l ih => cases t <;> simp [fillAll, render, ih, List.idxOf?]

theorem fillAll_nil_caps (nums : List Nat) (toks : List ArgTok) : fillAll nums [] toks = render toks := by
  induction toks with
  | nil => rfl
  | cons t l ih =>
    cases t with
    | lit c => simp [fillAll, render, ih]
    | esc k raw => simp only [fillAll, render, ih]; cases nums.idxOf? k <;> simp

/-- simultaneous substitution, one marker at a time -/
theorem fillAll_cons (n : Nat) (rest : List Nat) (a : QStr) (as : List QStr) (toks : List ArgTok) :
    fillAll (n :: rest) (a :: as) toks = fillAll rest as (expand n a toks) := by
  induction toks with
  | nil => rfl
  | cons t l ih =>
    cases t with
    | lit c => simp [fillAll, expand, ih]
    | esc k raw =>
      by_cases h : k = n
      · subst h; simp [fillAll, expand, fillAll_lits, ih, List.idxOf?_cons]
      · have h' : ¬ n = k := fun e => h e.symm
        simp only [fillAll, expand, h, if_false, ih, List.idxOf?_cons, beq_iff_eq, h']
        cases rest.idxOf? k <;> simp

theorem render_expandAll (caps : List QStr) :
    ∀ toks, render (expandAll toks caps) = fillAll (markers toks) caps toks := by
  induction caps with
  | nil => intro toks; simp [expandAll, fillAll_nil_caps]
  | cons a as ih =>
    intro toks
    simp only [expandAll]
    cases hm : minEsc toks with
    | none => simp [markers_of_minEsc_none hm, fillAll_nil_nums]
    | some n => simp only [markers_of_minEsc hm a, fillAll_cons, ih]

/-! the single pass of the repaired `Handler::route` (`substitute`) -/

/-- strictly ascending -/
def Asc : List Nat → Prop
  | [] => True
  | x :: l => (∀ y ∈ l, x < y) ∧ Asc l

theorem asc_insertNat (x : Nat) : ∀ {s : List Nat}, Asc s → Asc (insertNat x s)
  | [], _ => ⟨by simp, trivial⟩
  | y :: ys, h => by
    simp only [insertNat]
    split
    · next hlt =>
      refine ⟨?_, h⟩
      intro z hz
      simp at hz
      rcases hz with rfl | hz
      · exact hlt
      · exact Nat.lt_trans hlt (h.1 z hz)
    · split
      · exact h
      · next h1 h2 =>
        refine ⟨?_, asc_insertNat x h.2⟩
        intro z hz
        rcases mem_insertNat.1 hz with rfl | hz
        · omega
        · exact h.1 z hz

theorem asc_foldr_insertNat (l : List Nat) : Asc (l.foldr insertNat []) := by
  induction l with
  | nil => trivial
  | cons x xs ih => exact asc_insertNat x ih

/-- in a strictly ascending list an element sits at the number of elements below it -/
theorem idxOf_asc {k : Nat} : ∀ {L : List Nat}, Asc L → k ∈ L → L.idxOf? k = some (L.filter (· < k)).length
  | [], _, h => by simp at h
  | y :: ys, ha, h => by
    by_cases hy : y = k
    · subst hy
      have : ys.filter (· < y) = [] := by
        apply List.filter_eq_nil_iff.2
        intro z hz; have := ha.1 z hz; simp; omega
      simp [List.idxOf?_cons, this]
    · have hin : k ∈ ys := by simpa [Ne.symm hy] using h
      have hlt : y < k := ha.1 k hin
      simp [List.idxOf?_cons, hy, idxOf_asc ha.2 hin, hlt]

theorem filter_lt_succ (k : Nat) : ∀ {L : List Nat}, Asc L →
    (L.filter (· < k + 1)).length = (L.filter (· < k)).length + (if k ∈ L then 1 else 0)
  | [], _ => by simp
  | y :: ys, ha => by
    have ih := filter_lt_succ k ha.2
    by_cases h1 : y < k
    · have h2 : y < k + 1 := by omega
      have h3 : k ≠ y := by omega
      simp only [List.filter_cons, h1, h2, decide_true, if_true, List.length_cons, ih, List.mem_cons, h3, false_or]
      omega
    · by_cases h2 : y = k
      · subst h2
        have hnot : y ∉ ys := fun hm => by have := ha.1 y hm; omega
        simp [ih, hnot]
      · have h3 : ¬ y < k + 1 := by omega
        have h4 : k ≠ y := fun e => h2 e.symm
        simp only [List.filter_cons, h1, h3, decide_false, Bool.false_eq_true, if_false, ih, List.mem_cons, h4, false_or]

/-- `rank` (the counting loop of the C++ code) is the position in the ascending list of the
    distinct numbers -/
theorem rank_eq_filter (nums : List Nat) (k : Nat) :
    rank nums k = ((nums.foldr insertNat []).filter (· < k)).length := by
  induction k with
  | zero =>
    have : ∀ L : List Nat, (L.filter (· < 0)).length = 0 := by intro L; induction L <;> simp_all
    rw [rank, this]
  | succ k ih =>
    rw [rank, ih, filter_lt_succ k (asc_foldr_insertNat nums)]
    simp [mem_foldr_insertNat]

theorem idxOf_markers {nums : List Nat} {k : Nat} (h : k ∈ nums) :
    (nums.foldr insertNat []).idxOf? k = some (rank nums k) := by
  rw [rank_eq_filter]
  exact idxOf_asc (asc_foldr_insertNat nums) (mem_foldr_insertNat.2 h)

theorem escNums_eq_tokNums (toks : List ArgTok) : escNums toks = tokNums toks := by
  induction toks with
  | nil => rfl
  | cons t l ih => cases t <;> simp [escNums, tokNums, ih]

theorem fillAll_eq_fillTok (nums : List Nat) (caps : List QStr) (toks : List ArgTok) :
    fillAll nums caps toks = fillTok (fun k => (nums.idxOf? k).bind fun i => caps[i]?) toks := by
  induction toks with
  | nil => rfl
  | cons t l ih =>
    cases t with
    | lit c => simp [fillAll, fillTok, ih]
    | esc k raw =>
      simp only [fillAll, fillTok, ih]
      cases nums.idxOf? k with
      | none => rfl
      | some i => simp only [Option.bind_some]; rfl

/-- **key lemma, unconditional** (this was finding D12): the substitution `Handler::route` performs
    is the documented one — capture i replaces every occurrence of the i-th lowest place marker of
    the TEMPLATE, all at once, whatever the captures contain (`%`, digits, markers, nothing).  For
    every template and every capture list. -/
theorem substitute_eq_specSubst (tmpl : QStr) (caps : List QStr) :
    substitute tmpl caps = specSubst tmpl caps := by
  unfold substitute specSubst
  rw [fillGo_eq, presentGo_eq, tokGo_eq_argScan, fillAll_eq_fillTok]
  apply fillTok_congr
  intro k hk
  simp only [markers, escNums_eq_tokNums]
  rw [idxOf_markers hk]
  rfl

/-- what the code did before the repair (`substituteChained`: one `QString::arg` call per capture)
    equals the documented substitution exactly when each round reads back as it was meant
    (`MarkerFree`, decidable) … -/
theorem substituteChained_eq_specSubst (tmpl : QStr) (caps : List QStr) (h : MarkerFree tmpl caps = true) :
    substituteChained tmpl caps = specSubst tmpl caps := by
  rw [substituteChained_eq_render tmpl caps h, render_expandAll]; rfl

/-- … so the repair changes nothing where the old code was right: -/
theorem substitute_eq_chained (tmpl : QStr) (caps : List QStr) (h : MarkerFree tmpl caps = true) :
    substitute tmpl caps = substituteChained tmpl caps := by
  rw [substitute_eq_specSubst, substituteChained_eq_specSubst tmpl caps h]

/-- syntactic form: markers of the template separated, captures plain -/
theorem substitute_eq_chained_of_separated (tmpl : QStr) (caps : List QStr)
    (ht : Separated tmpl = true) (hc : ∀ a ∈ caps, Plain a = true) :
    substitute tmpl caps = substituteChained tmpl caps :=
  substitute_eq_chained tmpl caps (markerFree_of_separated ht hc)

/-- with at most one capture the two never differed -/
theorem substitute_one (tmpl a : QStr) : substitute tmpl [a] = substituteChained tmpl [a] :=
  substitute_eq_chained tmpl [a] (markerFree_one tmpl a)

/-! ### 1. exactly one terminal action, at the end, iff nobody refused -/

theorem terminal_append_single (l : List Act) (t : Act) (ht : isTerminalAct t = true) :
    terminal (l ++ [t]) = some t := by
  induction l with
  | nil => cases t <;> simp_all [terminal, isTerminalAct]
  | cons a l ih =>
    cases hl : l ++ [t] with
    | nil => simp at hl
    | cons b r => simp only [List.cons_append, hl, terminal]; rw [← hl]; exact ih

theorem terminal_map_mwAct (l : List (Nat × Bool)) : terminal (l.map mwAct) = none := by
  induction l with
  | nil => rfl
  | cons e l ih =>
    cases hl : l.map mwAct with
    | nil => rw [List.map_cons, hl]; rfl
    | cons b r => rw [List.map_cons, hl]; simp only [terminal]; rw [← hl]; exact ih

theorem filter_terminal_map_mwAct (l : List (Nat × Bool)) : (l.map mwAct).filter isTerminalAct = [] := by
  induction l with
  | nil => rfl
  | cons e l ih => simp [mwAct, isTerminalAct, ih]

/-- shape of every routing run: the consulted middleware (all accepting), then either one terminal
    action or one refusal — nothing else, for every tree, path, matcher and verdict assignment -/
theorem route_shape (m : Matcher) (n : Node) (path : QStr) :
    ∃ pre : List (Nat × Bool), allAccept pre = true ∧
      ((∃ t, isTerminalAct t = true ∧ route m n path = pre.map mwAct ++ [t] ∧ noRefusal (route m n path) = true) ∨
       (∃ id, route m n path = pre.map mwAct ++ [.mw id false] ∧ noRefusal (route m n path) = false)) := by
  exact route_cases m n path

/-- **C05.1** at most one terminal action (`.redirect` / `.process`), it is the last element,
    there is exactly one iff no consulted middleware refused, and every other element is `.mw` -/
theorem route_terminal_count (m : Matcher) (n : Node) (path : QStr) :
    ((route m n path).filter isTerminalAct).length = (if noRefusal (route m n path) then 1 else 0) ∧
    (route m n path).dropLast.all (fun a => !isTerminalAct a) = true ∧
    (∀ a ∈ route m n path, isTerminalAct a = true → (route m n path).getLast? = some a) ∧
    ((terminal (route m n path)).isSome = noRefusal (route m n path)) := by
  obtain ⟨pre, hp, ⟨t, ht, hr, hn⟩ | ⟨id, hr, hn⟩⟩ := route_shape m n path
  · rw [hn, hr]
    refine ⟨by simp [List.filter_append, filter_terminal_map_mwAct, ht], ?_, ?_, by simp [terminal_append_single _ _ ht]⟩
    · simp [mwAct, isTerminalAct]
    · intro a ha hta
      rcases List.mem_append.1 ha with h | h
      · obtain ⟨e, _, rfl⟩ := List.mem_map.1 h
        simp [mwAct, isTerminalAct] at hta
      · rw [List.mem_singleton.1 h]; exact List.getLast?_concat ..
  · rw [hn, hr]
    have : pre.map mwAct ++ [Act.mw id false] = (pre ++ [(id, false)]).map mwAct := by simp [mwAct]
    refine ⟨?_, ?_, ?_, ?_⟩
    · rw [this, filter_terminal_map_mwAct]; rfl
    · simp [mwAct, isTerminalAct]
    · intro a ha hta
      rw [this] at ha
      simp only [List.mem_map] at ha
      obtain ⟨e, _, rfl⟩ := ha
      simp [mwAct, isTerminalAct] at hta
    · rw [this, terminal_map_mwAct]; rfl

/-! ### 2. the terminal action is the documented one -/

theorem firstRedirect_eq_spec (m : Matcher) (path : QStr) (reds : List (Nat × QStr)) :
    firstRedirect m path reds = specRedirect m path reds := by
  induction reds with
  | nil => rfl
  | cons r l ih =>
    obtain ⟨pat, tmpl⟩ := r
    simp only [firstRedirect, specRedirect]
    cases hm : m pat path with
    | none => exact ih
    | some mt => simp [substitute_eq_specSubst]

mutual
  theorem termOf_eq_spec (m : Matcher) : ∀ (n : Node) (path : QStr) (t : Act),
      specRoute m n path = some t → termOf m n path = t
    | .mk id mws reds subs own, path, t => by
      rw [specRoute, termOf, firstRedirect_eq_spec m path reds]
      cases hr : specRedirect m path reds with
      | some loc => simp only; intro hs; cases hs; rfl
      | none =>
        simp only
        intro hs
        have := termSubs_eq_spec m subs path
        cases hss : specSubs m subs path
        · rename_i t'
          rw [hss] at hs this
          simp only at hs
          subst hs
          simp only at this
          rw [this t rfl]
        · rw [hss] at hs this
          simp only at hs this
          rw [this]
          cases hs; rfl
        · rw [hss] at hs; cases hs
  theorem termSubs_eq_spec (m : Matcher) : ∀ (s : Subs) (path : QStr),
      match specSubs m s path with
      | .found t' => ∀ t, t' = some t → termSubs m s path = some t
      | .outside => True
      | .nomatch => termSubs m s path = none
    | .nil, path => by simp [specSubs, termSubs]
    | .cons pat child rest, path => by
      rw [specSubs, termSubs]
      cases h : m pat path with
      | none => simp only; exact termSubs_eq_spec m rest path
      | some mt =>
        simp only
        by_cases hi : mt.idx = 0
        · simp only [hi, if_true]
          intro t ht
          rw [termOf_eq_spec m child _ t ht]
        · simp [hi]
end

/-- **C05.2** when no consulted middleware refuses, inside the documented domain (`specRoute`
    defined), routing performs exactly the terminal action the documentation selects — for every
    tree, path and matcher, whatever the captures contain -/
theorem route_eq_spec (m : Matcher) (n : Node) (path : QStr) (t : Act)
    (hacc : noRefusal (route m n path) = true) (hspec : specRoute m n path = some t) :
    terminal (route m n path) = some t := by
  have ht := termOf_eq_spec m n path t hspec
  rw [noRefusal_route] at hacc
  rw [route_struct, tailOf, hacc, if_pos rfl, ht]
  exact terminal_append_single _ _ (ht ▸ termOf_terminal m n path)

/-! ### 3. the Server glue -/

/-- **C05.3** the root sees the path without its first unit; no root: no routing (500) -/
theorem serverRoute_root (m : Matcher) (r : Node) (p : QStr) :
    serverRoute m (some r) p = some (route m r (p.drop 1)) ∧ serverRoute m none p = none := ⟨rfl, rfl⟩

/-! ### 4. the Location value cannot break the header block -/

def isHexUp (b : UInt8) : Bool := (48 ≤ b && b ≤ 57) || (65 ≤ b && b ≤ 70)

theorem hexUp_isHexUp : ∀ n, n < 16 → isHexUp (hexUp n) = true := by decide

theorem pctEncode_mem (keep : UInt8 → Bool) (bs : Bytes) :
    ∀ b ∈ pctEncode keep bs, keep b = true ∨ b = 37 ∨ isHexUp b = true := by
  induction bs with
  | nil => simp [pctEncode]
  | cons c cs ih =>
    intro b hb
    simp only [pctEncode, List.mem_append] at hb
    rcases hb with hb | hb
    · split at hb
      · next hk => simp at hb; subst hb; exact Or.inl hk
      · simp at hb
        have hlt : c.toNat < 256 := UInt8.toNat_lt c
        rcases hb with rfl | rfl | rfl
        · exact Or.inr (Or.inl rfl)
        · exact Or.inr (Or.inr (hexUp_isHexUp _ (by omega)))
        · exact Or.inr (Or.inr (hexUp_isHexUp _ (by omega)))
    · exact ih b hb

/-- **C05.4** every byte of a Location value is a kept byte, '%' or an upper-case hex digit; in
    particular no CR, LF or SP, whatever the captures contained -/
theorem encodeLoc_clean (loc : QStr) :
    ∀ b ∈ encodeLoc loc, (locKeep b = true ∨ b = 37 ∨ isHexUp b = true) ∧ b ≠ 13 ∧ b ≠ 10 ∧ b ≠ 32 := by
  intro b hb
  have h := pctEncode_mem locKeep _ b hb
  refine ⟨h, ?_, ?_, ?_⟩ <;> (intro e; subst e; revert h; decide)

/-! ### 5. end to end: the predicate the driver evaluates, on every run of the model -/

/-- the last element of a routing run: a terminal action or a refusal -/
def isLastAct : Act → Bool
  | .mw _ ok => !ok
  | _ => true

theorem accepted_iff (env : Env) (sc : RouteScn) :
    accepted env sc = true ↔ ∃ head rest rh p q, breakOn CRLF2 sc.stream = some (head, rest) ∧
      Parser.parseRequestHeaders head [] = some rh ∧ env.url rh.rawPath = some (p, q) := by
  unfold accepted C01.headOf
  constructor
  · intro h
    cases hb : breakOn CRLF2 sc.stream with
    | none => simp [hb] at h
    | some hr =>
      obtain ⟨head, rest⟩ := hr
      simp only [hb, Option.map_some] at h
      obtain ⟨s, hs⟩ := Option.isSome_iff_exists.1 h
      obtain ⟨rh, p, q, h1, h2, _⟩ := (C01.expect_eq_some_iff _ _ _).1 hs
      exact ⟨head, rest, rh, p, q, rfl, h1, h2⟩
  · rintro ⟨head, rest, rh, p, q, hb, h1, h2⟩
    simp only [hb, Option.map_some]
    exact Option.isSome_iff_exists.2 ⟨_, (C01.expect_eq_some_iff _ _ _).2 ⟨rh, p, q, h1, h2, rfl⟩⟩

theorem stream_breaks (sc : RouteScn) : ∃ head rest, breakOn CRLF2 sc.stream = some (head, rest) := by
  have : (breakOn CRLF2 sc.stream).isSome := by
    rw [breakOn_isSome_iff]
    exact ⟨lit ['G','E','T',' '] ++ sc.raw ++ lit [' ','H','T','T','P','/','1','.','1'], [], by simp [RouteScn.stream]⟩
  obtain ⟨⟨h, r⟩, e⟩ := Option.isSome_iff_exists.1 this
  exact ⟨h, r, e⟩

/-- **the history of an accepted routed request**: the event markers, `headersParsed`, one
    observation per accepting middleware, then what the last routing action does (or the
    Server's 500 when there is no root handler) -/
theorem run_log (env : Env) (sc : RouteScn) (hacc : accepted env sc = true) :
    match sc.root with
    | none =>
      (Scenario.run env sc.scenario).log = [.ev 0, .ev 1, .hp] ++
        ([.w (headOf 500 (statusReason 500) (errHeaders [] (env.errPage 500 (statusReason 500)).length))] ++
          wObs (env.errPage 500 (statusReason 500)) ++ [.tc]) ++ [.ev 2]
    | some r =>
      ∃ pre t, allAccept pre = true ∧ isLastAct t = true ∧
        route sc.matcher r (sc.p16.drop 1) = pre.map mwAct ++ [t] ∧
        (Scenario.run env sc.scenario).log =
          [.ev 0, .ev 1, .hp] ++ (pre.map mwObs ++ lastObs env r t) ++ [.ev 2] := by
  obtain ⟨head, rest, rh, p, q, hb, hp, hu⟩ := (accepted_iff env sc).1 hacc
  have hrun : Scenario.run env sc.scenario = Sock.run env sc.app [.new, .feed sc.stream, .turn] := rfl
  cases hroot : sc.root with
  | none =>
    simp only
    rw [hrun]
    apply run_ok env sc.app sc.stream hb hp hu (ops := [.err 500 none])
    · intro s; simp [RouteScn.app, hroot]
    · intro s1 h1 _ _ hh _
      exact apis_500 env sc.app h1 hh
  | some r =>
    simp only
    have hacts : sc.acts = some (route sc.matcher r (sc.p16.drop 1)) := by
      simp [RouteScn.acts, serverRoute, hroot]
    have hops : ∀ s, sc.app.onHp s = (route sc.matcher r (sc.p16.drop 1)).flatMap (RouteScn.actOps r) := by
      intro s; simp [RouteScn.app, hroot, hacts]
    obtain ⟨pre, hpre, ⟨t, ht, hr, _⟩ | ⟨id, hr, _⟩⟩ := route_cases sc.matcher r (sc.p16.drop 1)
    · refine ⟨pre, t, hpre, by cases t <;> simp_all [isLastAct, isTerminalAct], hr, ?_⟩
      rw [hrun]
      apply run_ok env sc.app sc.stream hb hp hu hops
      intro s1 h1 hc hre hh _
      rw [hr]
      exact apis_route env sc.app r h1 hc hre hh pre hpre t (by cases t <;> simp_all [isTerminalAct])
    · refine ⟨pre, .mw id false, hpre, rfl, hr, ?_⟩
      rw [hrun]
      apply run_ok env sc.app sc.stream hb hp hu hops
      intro s1 h1 hc hre hh _
      rw [hr]
      exact apis_route env sc.app r h1 hc hre hh pre hpre _ (by simp)

/-! projections of the history -/

theorem prs_append (a b : List Obs) : prs (a ++ b) = prs a ++ prs b := by simp [prs, List.filterMap_append]

theorem prs_cons (o : Obs) (l : List Obs) :
    prs (o :: l) = (match o with | .pr n p => [(n, p)] | _ => []) ++ prs l := by
  cases o <;> simp [prs]

theorem wire_cons (o : Obs) (l : List Obs) :
    Obs.wire (o :: l) = (match o with | .w b => b | _ => []) ++ Obs.wire l := by
  cases o <;> simp [Obs.wire]

theorem prs_mwObs (pre : List (Nat × Bool)) : prs (pre.map mwObs) = [] := by
  induction pre with
  | nil => rfl
  | cons e l ih => simp only [List.map_cons, prs_cons, mwObs, ih]; rfl

theorem prs_wObs (b : Bytes) : prs (wObs b) = [] := by unfold wObs; split <;> rfl

theorem prs_log (pre : List (Nat × Bool)) (x : List Obs) :
    prs ([Obs.ev 0, Obs.ev 1, Obs.hp] ++ (pre.map mwObs ++ x) ++ [Obs.ev 2]) = prs x := by
  simp only [prs_append, prs_mwObs, prs_cons]; simp [prs]

theorem wire_log (pre : List (Nat × Bool)) (x : List Obs) :
    Obs.wire ([Obs.ev 0, Obs.ev 1, Obs.hp] ++ (pre.map mwObs ++ x) ++ [Obs.ev 2]) = Obs.wire x := by
  simp only [wire_append, wire_mwObs, wire_cons]; simp [Obs.wire]

/-- the bytes of an error response: head, then the page -/
theorem wire_err (h : Bytes) (b : Bytes) : Obs.wire ([Obs.w h] ++ wObs b ++ [Obs.tc]) = h ++ b := by
  simp only [wire_append, wire_wObs, wire_cons]; simp [Obs.wire]

theorem prs_err (h : Bytes) (b : Bytes) : prs ([Obs.w h] ++ wObs b ++ [Obs.tc]) = [] := by
  simp only [prs_append, prs_wObs, prs_cons]; simp [prs]

theorem statusOf_headOf {c : Int} (hc : 0 ≤ c) {reason : Bytes} (hr : CR ∉ reason) {hs : HeaderMap}
    (hok : ∀ e ∈ hs, Http.EntryOk e) (body : Bytes) : statusOf (headOf c reason hs ++ body) = some c.natAbs := by
  obtain ⟨h1, h2⟩ := parse_headOf hc hr hok body
  unfold statusOf
  rw [h1]
  simp only
  rw [h2]
  rfl

theorem errHeaders_nil_ok (n : Nat) : ∀ e ∈ errHeaders [] n, Http.EntryOk e := by
  rw [errHeaders_nil]
  intro e he
  simp at he
  rcases he with rfl | rfl
  · exact entryOk_cl n
  · exact entryOk_ct

theorem encodeLoc_no_CR (loc : QStr) : CR ∉ encodeLoc loc := fun h => (encodeLoc_clean loc _ h).2.1 rfl

/-- **C05.5 (`holds_run`)**: for every environment and every `route` scenario — every handler
    tree, matcher (so: whatever the captures contain), verdict assignment, request target — the
    predicate evaluated on implementation traces holds on the run of the model.  No hypothesis.
    (Requests that are not accepted, runs in which a middleware refuses and trees outside the
    documented domain make `holds` true by definition.) -/
theorem holds_run (env : Env) (sc : RouteScn) :
    holds env sc (Scenario.run env sc.scenario).log = true := by
  unfold holds
  cases hacc : accepted env sc with
  | false => rfl
  | true =>
    simp only [Bool.not_true, Bool.false_eq_true, if_false]
    have hlog := run_log env sc hacc
    cases hroot : sc.root with
    | none =>
      rw [hroot] at hlog
      simp only at hlog ⊢
      rw [hlog]
      have h0 := wire_log [] ([Obs.w (headOf 500 (statusReason 500) (errHeaders [] (env.errPage 500 (statusReason 500)).length))] ++
            wObs (env.errPage 500 (statusReason 500)) ++ [Obs.tc])
      have p0 := prs_log [] ([Obs.w (headOf 500 (statusReason 500) (errHeaders [] (env.errPage 500 (statusReason 500)).length))] ++
            wObs (env.errPage 500 (statusReason 500)) ++ [Obs.tc])
      simp only [List.map_nil, List.nil_append] at h0 p0
      rw [h0, p0, wire_err, prs_err, statusOf_headOf (by decide) (by decide) (errHeaders_nil_ok _)]
      rfl
    | some r =>
      rw [hroot] at hlog
      obtain ⟨pre, t, hpre, hlast, hr, hlog⟩ := hlog
      have hacts : sc.acts = some (route sc.matcher r (sc.p16.drop 1)) := by
        simp [RouteScn.acts, serverRoute, hroot]
      simp only [hacts]
      cases hterm : terminal (route sc.matcher r (sc.p16.drop 1)) with
      | none => rfl
      | some t0 =>
        simp only
        cases hspec : specRoute sc.matcher r (sc.p16.drop 1) with
        | none => rfl
        | some t' =>
          have hno : noRefusal (route sc.matcher r (sc.p16.drop 1)) = true := by
            rw [← (route_terminal_count _ _ _).2.2.2, hterm]; rfl
          have ht' := route_eq_spec _ _ _ _ hno hspec
          have htt : t = t' := by
            have hT : isTerminalAct t = true := by
              cases t with
              | mw i ok =>
                have ok' : ok = false := by simpa [isLastAct] using hlast
                subst ok'
                have e : pre.map mwAct ++ [Act.mw i false] = (pre ++ [(i, false)]).map mwAct := by simp [mwAct]
                rw [hr, e, terminal_map_mwAct] at hterm
                cases hterm
              | redirect _ _ => rfl
              | process _ _ => rfl
            rw [hr, terminal_append_single _ _ hT] at ht'
            exact Option.some.inj ht'
          subst htt
          rw [hlog, wire_log, prs_log]
          cases t with
          | mw i ok => rfl
          | process id path =>
            simp only [lastObs, prs_cons, wire_cons, List.nil_append]
            by_cases hown : (RouteScn.ownOf r id).getD false = true
            · simp only [hown, if_true]
              rw [wire_err, prs_err, statusOf_headOf (by decide) (by decide) (by simp)]
              simp
            · simp only [hown, Bool.false_eq_true, if_false]
              rw [wire_err, prs_err, statusOf_headOf (by decide) (by decide) (errHeaders_nil_ok _)]
              simp
          | redirect id loc =>
            obtain ⟨h1, h2⟩ := parse_headOf (c := 302) (by decide) (reason := statusReason 302) (by decide)
              (hs := [(LOC, encodeLoc loc)])
              (by intro e he; simp at he; subst he; exact entryOk_loc (encodeLoc_no_CR loc)) []
            have hw : Obs.wire (lastObs env r (.redirect id loc)) =
                headOf 302 (statusReason 302) [(LOC, encodeLoc loc)] ++ [] := by
              simp only [lastObs, wire_cons]; simp [Obs.wire]
            have hp : prs (lastObs env r (.redirect id loc)) = [] := by
              simp only [lastObs, prs_cons]; simp [prs]
            simp only
            rw [hw, hp, h1]
            simp only [h2]
            simp [LOCATION, LOC]

/-! ### non-vacuity and the excluded points (all evaluated in the kernel) -/

namespace Ex
/-- a toy `QRegExp`: 0 = `^a/`, 1 = `x` found at index 1 (not anchored), 2 = `^(.)/(.)$`, 3 = `^(.)(.)$` -/
def toyM : Matcher := fun pat s =>
  match pat, s with
  | 0, 97 :: 47 :: _ => some ⟨0, 2, []⟩
  | 1, _ :: 120 :: _ => some ⟨1, 1, []⟩
  | 2, [a, 47, b] => some ⟨0, 3, [[a], [b]]⟩
  | 3, [a, b] => some ⟨0, 2, [[a], [b]]⟩
  | _, _ => none

/-- "/%2/%1" -/
def tmpl21 : QStr := [47, 37, 50, 47, 37, 49]
def leaf (ok : Bool) : Node := .mk 2 [(20, ok)] [(2, tmpl21)] .nil true
def mid (ok ok2 : Bool) : Node := .mk 1 [(10, true), (11, ok)] [] (.cons 0 (leaf ok2) .nil) false
def root (ok ok2 : Bool) : Node := .mk 0 [(0, true)] [(2, tmpl21)] (.cons 0 (mid ok ok2) .nil) false
/-- "a/a/b/c" -/
def path : QStr := [97, 47, 97, 47, 98, 47, 99]

example : route toyM (root true true) path =
    [.mw 0 true, .mw 10 true, .mw 11 true, .mw 20 true, .redirect 2 [47, 99, 47, 98]] := by decide
example : specRoute toyM (root true true) path = some (.redirect 2 [47, 99, 47, 98]) := by decide
example : noRefusal (route toyM (root true true) path) = true := by decide
example : route toyM (root false true) path = [.mw 0 true, .mw 10 true, .mw 11 false] := by decide
example : chain toyM (root false true) path = [(0, true), (10, true), (11, false), (20, true)] := by decide
/-- not start-anchored sub pattern: outside the documented domain -/
def rootU : Node := .mk 0 [] [] (.cons 1 (leaf true) .nil) true
example : specRoute toyM rootU [98, 120, 99] = none := by decide
example : route toyM rootU [98, 120, 99] = [.mw 20 true, .process 2 [120, 99]] := by decide

/-- templates / captures as ASCII -/
def q (s : List Char) : QStr := s.map fun c => UInt16.ofNat c.toNat

/-! the points the chained `arg()` calls got wrong (finding D12 and its relatives, found by the
    proof of the old, conditional key lemma): `substitute` is the documented substitution on each,
    `substituteChained` is not -/
-- a capture that contains a marker
example : substitute (q ['/','%','1','/','%','2']) [q ['a','%','2'], q ['x']] = q ['/','a','%','2','/','x'] ∧
    specSubst (q ['/','%','1','/','%','2']) [q ['a','%','2'], q ['x']] = q ['/','a','%','2','/','x'] ∧
    substituteChained (q ['/','%','1','/','%','2']) [q ['a','%','2'], q ['x']] = q ['/','a','x','/','x'] ∧
    Plain (q ['a','%','2']) = false := by decide
-- a capture that ends in '%', followed in the template by a digit
example : substitute (q ['/','%','1','0','5']) [q ['%'], q ['x']] = q ['/','%','5'] ∧
    specSubst (q ['/','%','1','0','5']) [q ['%'], q ['x']] = q ['/','%','5'] ∧
    substituteChained (q ['/','%','1','0','5']) [q ['%'], q ['x']] = q ['/','x'] ∧
    Separated (q ['/','%','1','0','5']) = true ∧ Plain (q ['%']) = false := by decide
-- a template marker glued to a pending '%' and a capture that starts with a digit
example : substitute (q ['/','%','%','1']) [q ['1','2','3'], q ['x']] = q ['/','%','1','2','3'] ∧
    specSubst (q ['/','%','%','1']) [q ['1','2','3'], q ['x']] = q ['/','%','1','2','3'] ∧
    substituteChained (q ['/','%','%','1']) [q ['1','2','3'], q ['x']] = q ['/','x','3'] ∧
    Separated (q ['/','%','%','1']) = false ∧ Plain (q ['1','2','3']) = true := by decide
-- a one-digit marker directly followed by a lower one
example : substitute (q ['/','%','2','%','1']) [q ['3'], q ['x']] = q ['/','x','3'] ∧
    specSubst (q ['/','%','2','%','1']) [q ['3'], q ['x']] = q ['/','x','3'] ∧
    substituteChained (q ['/','%','2','%','1']) [q ['3'], q ['x']] = q ['/','x'] ∧
    Separated (q ['/','%','2','%','1']) = false := by decide
-- an EMPTY capture that lets the template's own text close up into a marker (found while testing
-- the repaired code against chained arg() on random templates)
example : substitute (q ['/','%','%','1','5','5']) [[], q ['x']] = q ['/','%','5'] ∧
    specSubst (q ['/','%','%','1','5','5']) [[], q ['x']] = q ['/','%','5'] ∧
    substituteChained (q ['/','%','%','1','5','5']) [[], q ['x']] = q ['/','x'] ∧ Plain [] = true := by decide
-- `MarkerFree` (the exact, semantic condition under which old and new code agree) separates them
example : MarkerFree (q ['/','%','1','/','%','2']) [q ['a','%','2'], q ['x']] = false ∧
    MarkerFree (q ['/','%','1','/','%','2']) [q ['a','%'], q ['2']] = true := by decide
-- the hypotheses of `substitute_eq_chained_of_separated` are satisfiable
example : Separated (q ['/','%','2','/','%','1']) = true ∧ Separated (q ['/','%','1','%','1']) = true ∧
    Separated (q ['/','n','/','%','L','1','/','%','1','2','x','%']) = true := by decide
example : Plain (q ['1','2','3']) = true ∧ Plain [] = true ∧ Plain (q ['5','0','%','x','%','%','y']) = true := by decide
/-! Qt's marker syntax, kept by the repaired code: `%0` is a marker (number 0), at most two digits
    are read (`%123` = marker 12, then `3`), `%L1` = `%1`, a lone `%` / `%L` is text, captures
    beyond the number of distinct markers are ignored, markers beyond the captures stay, and
    `QChar::digitValue()` accepts the digits of every script (U+0661 ARABIC-INDIC DIGIT ONE) -/
example : substitute (q ['/','%','0','/','%','1']) [q ['a'], q ['b']] = q ['/','a','/','b'] ∧
    substitute (q ['/','%','1','2','3']) [q ['a']] = q ['/','a','3'] ∧
    substitute (q ['/','%','L','1','/','%','1','%']) [q ['a'], q ['b']] = q ['/','a','/','a','%'] ∧
    substitute (q ['/','%','L','/','%']) [q ['a']] = q ['/','%','L','/','%'] ∧
    substitute (q ['/','%','5','/','%','3','/','%','7']) [q ['a'], q ['b']] = q ['/','b','/','a','/','%','7'] ∧
    substitute (q ['/','%','1']) [q ['a'], q ['b']] = q ['/','a'] ∧
    substitute [47, 37, 0x661, 47, 37, 50] [q ['a'], q ['b']] = q ['/','a','/','b'] := by decide

/-! `holds` on concrete runs of the model (the hypotheses of `holds_run` are satisfiable and the
    predicate is not trivially true there: accepted request, all middleware accept, inside the
    documented domain) -/
def envX : Env := { url := fun t => some (t, []), errPage := fun _ _ => [33] }
/-- GET /a/a/b/c (redirect at depth 3), the three-level tree; `ok`: verdict of middleware 11 -/
def scEx (ok : Bool) : RouteScn :=
  { root := some (root ok true), matcher := toyM, raw := lit ['/','a','/','a','/','b','/','c'], p16 := 47 :: path }
/-- GET /a/zz: own processing of the inner node (default 404) -/
def scPr : RouteScn :=
  { root := some (root true true), matcher := toyM, raw := lit ['/','a','/','z','z'], p16 := [47, 97, 47, 122, 122] }
def scNoRoot : RouteScn := { scPr with root := none }

example : accepted envX (scEx true) = true ∧
    (terminal (route toyM (root true true) path)).isSome = true ∧
    (specRoute toyM (root true true) path).isSome = true := by decide +kernel
example : holds envX (scEx true) (Scenario.run envX (scEx true).scenario).log = true := by decide +kernel
example : terminal (route toyM (root true true) [97, 47, 122, 122]) = some (.process 1 [122, 122]) := by decide
example : holds envX scPr (Scenario.run envX scPr.scenario).log = true := by decide +kernel
example : holds envX scNoRoot (Scenario.run envX scNoRoot.scenario).log = true := by decide +kernel
/-- … and it does reject a wrong history: the same run with the response bytes removed -/
example : holds envX (scEx true)
    ((Scenario.run envX (scEx true).scenario).log.filter fun o => !Obs.isW o) = false := by decide +kernel
end Ex

/-! ### the `soft` scenarios: a refusing middleware answers itself and leaves the connection open -/

/-- **C05.5 for soft refusals (`holds_run_soft`)**: the same predicate, as unconditionally as
    `holds_run`, on the run of `RouteScn.softScenario`.  Without a refusal the soft scenario is the
    ordinary one (`RouteSoftL.softScenario_eq`); with a refusal there is no terminal action, which
    is C06's business. -/
theorem holds_run_soft (env : Env) (sc : RouteScn) :
    holds env sc (Scenario.run env sc.softScenario).log = true := by
  cases hroot : sc.root with
  | none =>
    rw [RouteSoftL.softScenario_eq_of_noRoot sc hroot]
    exact holds_run env sc
  | some r =>
    obtain ⟨pre, hpre, ⟨t, ht, hr, _⟩ | ⟨id, hr, _⟩⟩ := route_cases sc.matcher r (sc.p16.drop 1)
    · rw [RouteSoftL.softScenario_eq_of_terminal sc hroot hpre ht hr]
      exact holds_run env sc
    · unfold holds
      cases hacc : accepted env sc with
      | false => rfl
      | true =>
        have hacts : sc.acts = some (route sc.matcher r (sc.p16.drop 1)) := by
          simp [RouteScn.acts, serverRoute, hroot]
        have e : pre.map mwAct ++ [Act.mw id false] = (pre ++ [(id, false)]).map mwAct := by simp [mwAct]
        simp only [Bool.not_true, Bool.false_eq_true, if_false, hroot, hacts]
        rw [hr, e, terminal_map_mwAct]

namespace Ex
/-- GET /x on a root whose only middleware (7) refuses -/
def scSoft : RouteScn :=
  { root := some (.mk 0 [(7, false)] [] .nil true), matcher := toyM, raw := lit ['/','x'], p16 := [47, 120] }

example : accepted envX scSoft = true ∧
    holds envX scSoft (Scenario.run envX scSoft.softScenario).log = true := by decide +kernel
-- the soft run differs from the ordinary one: the refuser's own response, no close by the library
example : Obs.countP Obs.isTc (Scenario.run envX scSoft.softScenario).log = 0 ∧
    Obs.countP Obs.isTc (Scenario.run envX scSoft.scenario).log = 1 := by decide +kernel
-- with accepting middleware the soft scenario is the ordinary one and `holds` is not trivial there
example : holds envX scPr (Scenario.run envX scPr.softScenario).log = true := by decide +kernel
end Ex

end Qhttp.C05
