import Qhttp.Model.RouteScn
import Qhttp.Props.C01
/-
  C05 — routing picks exactly one action, in the documented order.
-/
namespace Qhttp.C05
open Qhttp

def isPr : Obs → Bool | .pr _ _ => true | _ => false
def prs (obs : List Obs) : List (Nat × Bytes) :=
  obs.filterMap fun o => match o with | .pr n p => some (n, p) | _ => none

def terminal : List Act → Option Act
  | [] => none
  | [a] => (match a with | .mw _ _ => none | t => some t)
  | _ :: l => terminal l

def LOCATION : Bytes := lit ['L','o','c','a','t','i','o','n']

def statusOf (wire : Bytes) : Option Nat :=
  match Http.parse wire with
  | some m => (Http.statusLine m.start).map (·.code)
  | none => none

/-! ### the documented behaviour, written independently of `route` -/

def escNums : List ArgTok → List Nat
  | [] => []
  | .lit _ :: l => escNums l
  | .esc n _ :: l => n :: escNums l

def insertNat (x : Nat) : List Nat → List Nat
  | [] => [x]
  | y :: ys => if x < y then x :: y :: ys else if x = y then y :: ys else y :: insertNat x ys

/-- the distinct place-marker numbers of a template, ascending -/
def markers (toks : List ArgTok) : List Nat := (escNums toks).foldr insertNat []

def fillAll (nums : List Nat) (caps : List QStr) : List ArgTok → QStr
  | [] => []
  | .lit c :: l => c :: fillAll nums caps l
  | .esc k raw :: l =>
    (match nums.idxOf? k with
     | some i => (match caps[i]? with | some a => a | none => raw)
     | none => raw) ++ fillAll nums caps l

/-- "the template with captures substituted": capture i replaces every occurrence of the i-th
    lowest place marker of the TEMPLATE, all at once -/
def specSubst (tmpl : QStr) (caps : List QStr) : QStr :=
  let toks := argScan .normal tmpl
  fillAll (markers toks) caps toks

def specRedirect (m : Matcher) (path : QStr) : List (Nat × QStr) → Option QStr
  | [] => none
  | (pat, tmpl) :: rest =>
    match m pat path with
    | some mt => some (specSubst tmpl mt.caps)
    | none => specRedirect m path rest

inductive SubRes
  | found (t : Option Act)
  | nomatch
  | outside              -- a sub-handler pattern matched, but not at the start of the path

mutual
  /-- terminal action for a request all of whose middleware accept: first matching redirect, else
      first sub-handler whose pattern matches the START of the path (that prefix removed), else
      own processing.  `none`: outside the documented domain (a sub-handler pattern that is not
      start-anchored matched further in). -/
  def specRoute (m : Matcher) : Node → QStr → Option Act
    | .mk id _ redirects subs _, path =>
      match specRedirect m path redirects with
      | some loc => some (.redirect id loc)
      | none =>
        match specSubs m subs path with
        | .found t => t
        | .outside => none
        | .nomatch => some (.process id path)
  def specSubs (m : Matcher) : Subs → QStr → SubRes
    | .nil, _ => .nomatch
    | .cons pat child rest, path =>
      match m pat path with
      | some mt => if mt.idx = 0 then .found (specRoute m child (path.drop mt.len)) else .outside
      | none => specSubs m rest path
end

def accepted (env : Env) (sc : RouteScn) : Bool :=
  match C01.headOf sc.stream with
  | some head => (C01.expect env head).isSome
  | none => false

/-- on the observations of one routed request whose middleware all accept: exactly one terminal
    action, the one the documented order selects (`specRoute`); a redirect is a 302 whose only
    header line is the Location with the captures substituted; without root handler: 500 -/
def holds (env : Env) (sc : RouteScn) (obs : List Obs) : Bool :=
  if !accepted env sc then true else        -- a rejected request is never routed: C04
  let wire := Obs.wire obs
  match sc.root, sc.acts with
  | some root, some as =>
    match terminal as with
    | none => true                                   -- a middleware refused: C06's business
    | some _ =>
      match specRoute sc.matcher root (sc.p16.drop 1) with
      | none => true                                 -- outside the documented domain
      | some (.process id path) =>
        prs obs == [(id, be16 path)] && statusOf wire != some 302 && statusOf wire != some 301
      | some (.redirect _ loc) =>
        prs obs == [] &&
        (match Http.parse wire with
         | some m =>
           (Http.statusLine m.start).map (·.code) == some 302 &&
           m.headers == [(LOCATION, encodeLoc loc)] && m.body == []
         | none => false)
      | some (.mw _ _) => true
  | _, _ => prs obs == [] && statusOf wire == some 500

end Qhttp.C05
