import Qhttp.Model.Proxy
import Qhttp.Model.Fs
import Qhttp.Model.Http
import Qhttp.Props.C02
import Qhttp.Lemmas.ProxyTarget
import Qhttp.Lemmas.ProxyHead
/-
  C12 — the proxy forwards the client's request upstream unaltered in meaning.
-/
namespace Qhttp.C12
open Qhttp Proxy

def upstreamBytes (obs : List Obs) : Bytes :=
  obs.flatMap fun o => match o with | .misc 20 b => b | _ => []

def clientStream (evs : List PEv) : Bytes :=
  evs.flatMap fun e => match e with | .sock (.feed b) => b | .sock (.prebuf b) => b | _ => []

def nTurns (evs : List PEv) : Nat := (evs.filter fun e => match e with | .turn => true | _ => false).length

/-- everything after the last client segment is at least two turns, no peer close: the upstream
    connection was established and everything in flight was delivered -/
def settled (evs : List PEv) : Bool :=
  let tail := (evs.reverse.takeWhile fun e => match e with | .sock (.feed _) => false | _ => true)
  (tail.filter fun e => match e with | .turn => true | _ => false).length ≥ 2 &&
  !(evs.any fun e => match e with | .sock .peerClose => true | .upClose => true | .up _ => true | _ => false)

def vals (n : Bytes) (hs : List (Bytes × Bytes)) : List Bytes :=
  Http.sortBytes ((hs.filter fun h => lower h.1 == lower n).map (·.2))

/-- scenario shape: one accepted client request whose body (if any) has a declared length, the
    upstream server accepts the connection and only listens.  What it received is one
    well-formed HTTP/1.1 request: the client's method; a target without SP/CR/LF that decodes to
    "/" ++ routed path, followed by the client's query string; every client header with its
    values; X-Forwarded-For ending with the client address; X-Real-IP = the client's own if it
    sent one, else the client address; then exactly the client's body bytes in order. -/
def holds (env : Env) (c : Cfg) (evs : List PEv) (obs : List Obs) : Bool :=
  if c.refuse then true else
  let stream := clientStream evs
  match C01.headOf stream with
  | none => upstreamBytes obs == []
  | some head =>
    match C01.expect env head with
    | none => upstreamBytes obs == []
    | some f =>
      let u := upstreamBytes obs
      if u.isEmpty then !settled evs else
      match Http.parse u with
      | none => false
      | some m =>
        let entitled : Bytes :=
          match C02.req env stream with
          | some r => C02.entitled r
          | none => (stream.drop (head.length + 4))
        -- request line
        (match splitF [SP] (m.start.length + 1) none m.start with
         | [meth, target, ver] =>
           meth == methodToString f.method && ver == lit ['H','T','T','P','/','1','.','1'] &&
           !containsByte CR target && !containsByte LF target &&
           (let (p, q) := match breakOn [63] target with | some (a, b) => (a, 63 :: b) | none => (target, [])
            Fs.pctDecode p == 47 :: c.path &&
            -- the query denotes what the client sent and is free of SP, CR, LF
            !containsByte SP q && Fs.pctDecode q == Fs.pctDecode (rawQuery f.rawPath))
         | _ => false) &&
        -- every client header with its values (the two proxy headers are checked separately)
        f.headers.all (fun e => lower e.1 == lower XFF || lower e.1 == lower XRI ||
                                vals e.1 m.headers == vals e.1 f.headers) &&
        -- X-Forwarded-For: the combined list ends with the client address and keeps the client's entries
        (let combined := (m.headers.filter fun h => lower h.1 == lower XFF).flatMap
                           (fun h => splitF [44, 32] (h.2.length + 1) none h.2)
         combined.getLast? == some c.peerIP &&
         (f.headers.filter fun e => lower e.1 == lower XFF).all fun e =>
            (splitF [44, 32] (e.2.length + 1) none e.2).all fun v => combined.contains v) &&
        -- X-Real-IP
        (if HeaderMap.contains XRI f.headers then vals XRI m.headers == vals XRI f.headers
         else vals XRI m.headers == [c.peerIP]) &&
        -- the body: in order, nothing else, complete once everything is delivered
        m.body.isPrefixOf entitled && (if settled evs then m.body == entitled else true)

/-! ## Theorems

  Helper lemmas live in `Qhttp/Lemmas/Proxy*.lean` (namespace `Qhttp.ProxyL`).  All statements are
  about arbitrary byte strings, header maps and configurations (unbounded).

  The one hypothesis that is NOT guaranteed by the library and is therefore explicit:
  * `C03L.HdrWf h` — every header entry has a non-empty name free of ':' and CR and a value free of
    CR.  `Parser::parseHeaderList` guarantees the ':' part only (`ProxyL.wf_of_parseHeaderList`
    derives the rest from CR-free lines with non-blank names): an empty name (line `": v"`) is
    accepted by the library and forwarded as it is, see `empty_name_forwarded` (known finding).

  History: with the query copied verbatim (`rawQuery` instead of `upstreamQuery`) the target
  clause was false — a lone LF or CR in the query passes `Parser::parseHeaders` and `QUrl` and
  reached the upstream request line (`new feed:"GET /a?x<LF>Injected:y HTTP/1.1<CRLF><CRLF>" turn
  turn`); repaired in the library, `lone_LF_is_escaped` shows the same input now. -/

open ProxyL

/-! ### 1. the request target -/

/-- '%' itself is always escaped in the path part, so decoding inverts encoding there -/
theorem pathKeep_escapes_percent : pathKeep 37 = false := pathKeep_37

/-- `QUrl::fromPercentEncoding ∘ QUrl::toPercentEncoding = id` for every keep-set without '%' -/
theorem decode_encode (keep : UInt8 → Bool) (h : keep 37 = false) (p : Bytes) :
    Fs.pctDecode (pctEncode keep p) = p := pctDecode_pctEncode keep h p

/-- decoding commutes with re-encoding for every keep-set that keeps '%' and all hex digits (the
    query's): existing escapes stay, stray '%' stay, newly escaped bytes decode to themselves.
    True without exception (in particular for '%' followed by a byte that gets escaped). -/
theorem decode_reencode (keep : UInt8 → Bool) (h37 : keep 37 = true)
    (hk : ∀ n, n < 256 → (Fs.hexv (UInt8.ofNat n)).isSome = true → keep (UInt8.ofNat n) = true)
    (x : Bytes) : Fs.pctDecode (pctEncode keep x) = Fs.pctDecode x :=
  pctDecode_pctEncode_commute keep h37 hk x

/-- every byte either encoder emits is a kept byte, '%' or an upper-case hex digit -/
theorem encoder_alphabet (keep : UInt8 → Bool) (p : Bytes) :
    ∀ x ∈ pctEncode keep p, keep x = true ∨ x = 37 ∨ isUpHex x = true := fun _ hx => mem_pctEncode hx

/-- the encoded path part, whatever the routed path is (any bytes: space, CR, LF, '?', '#', '%',
    non-ASCII): no SP, CR, LF, '?' -/
theorem path_part_clean (p : Bytes) :
    SP ∉ (47 :: pctEncode pathKeep p) ∧ CR ∉ (47 :: pctEncode pathKeep p) ∧
    LF ∉ (47 :: pctEncode pathKeep p) ∧ (63 : UInt8) ∉ (47 :: pctEncode pathKeep p) :=
  ⟨not_mem_encPath p (by decide) (by decide) (by decide) (by decide),
   not_mem_encPath p (by decide) (by decide) (by decide) (by decide),
   not_mem_encPath p (by decide) (by decide) (by decide) (by decide),
   not_mem_encPath p (by decide) (by decide) (by decide) (by decide)⟩

/-- **the target**, for EVERY routed path `p` and EVERY raw client target `r` (no hypothesis):
    it contains no SP, CR, LF; cut at its first '?' it gives the encoded path, which decodes back
    to "/" ++ p, and the encoded query, which is free of SP and decodes to exactly what the
    client's raw query (everything from the first '?' of `r`) decodes to. -/
theorem target_clean (p r : Bytes) :
    SP ∉ (47 :: pctEncode pathKeep p ++ upstreamQuery r) ∧
    CR ∉ (47 :: pctEncode pathKeep p ++ upstreamQuery r) ∧
    LF ∉ (47 :: pctEncode pathKeep p ++ upstreamQuery r) ∧
    (match breakOn [63] (47 :: pctEncode pathKeep p ++ upstreamQuery r) with
      | some (a, q) => (a, 63 :: q)
      | none => (47 :: pctEncode pathKeep p ++ upstreamQuery r, [])) =
        (47 :: pctEncode pathKeep p, upstreamQuery r) ∧
    Fs.pctDecode (47 :: pctEncode pathKeep p) = 47 :: p ∧
    SP ∉ upstreamQuery r ∧
    Fs.pctDecode (upstreamQuery r) = Fs.pctDecode (rawQuery r) := by
  obtain ⟨a, b, c⟩ := ProxyL.target_clean p r
  exact ⟨a, b, c, breakOn_target p r, pctDecode_encPath p, SP_not_mem_query r, pctDecode_upstreamQuery r⟩

/-- the raw query is the suffix of the raw target starting at its first '?' (or empty) -/
theorem query_as_sent (r : Bytes) :
    ((63 : UInt8) ∉ r ∧ rawQuery r = []) ∨
    ∃ a q, r = a ++ [63] ++ q ∧ (63 : UInt8) ∉ a ∧ rawQuery r = 63 :: q := rawQuery_cases r

/-! ### 2. the head is one well-formed HTTP/1.1 request head -/

/-- decidable form of `Http.EntryOk` -/
def entryOkB (e : Bytes × Bytes) : Bool :=
  !e.1.isEmpty && !containsByte COLON e.1 && !containsByte CR e.1 && !containsByte CR e.2

theorem entryOkB_iff (e : Bytes × Bytes) : entryOkB e = true ↔ Http.EntryOk e := by
  obtain ⟨k, v⟩ := e
  simp only [entryOkB, Http.EntryOk, Bool.and_eq_true, Bool.not_eq_true', Http.containsByte_eq_false,
    List.isEmpty_eq_false_iff]
  constructor
  · rintro ⟨⟨⟨a, b⟩, c⟩, d⟩; exact ⟨a, b, c, d⟩
  · rintro ⟨a, b, c, d⟩; exact ⟨⟨⟨a, b⟩, c⟩, d⟩

/-- decidable form of `C03L.HdrWf` -/
def hdrWfB (h : HeaderMap) : Bool := h.all entryOkB

theorem hdrWfB_iff (h : HeaderMap) : hdrWfB h = true ↔ C03L.HdrWf h := by
  simp only [hdrWfB, List.all_eq_true, entryOkB_iff]; rfl

/-- the head is `request line CRLF (name ": " value CRLF)* CRLF`, by construction -/
theorem head_shape (c : Cfg) (s : Sock) :
    upstreamHead c s =
      (methodToString s.method ++ [SP] ++ (47 :: pctEncode pathKeep c.path ++ upstreamQuery s.rawPath) ++
        lit [' ','H','T','T','P','/','1','.','1']) ++ CRLF ++
      Sock.headerLines (fwdHeaders c s.reqHeaders) ++ CRLF := upstreamHead_eq c s

/-- **the upstream head is one well-formed HTTP/1.1 request head**, for every parsed request
    (method one of the eight codes — all `Parser.methodCode` produces, see `method_token`), every
    peer address without CR and every body that follows, under `HdrWf` of the client's header map
    (explicit: see the file comment): the strict reader reads back the request line, which splits
    at SP into exactly [the client's method token, the target, "HTTP/1.1"], the forwarded header
    map entry by entry, and the body untouched. -/
theorem head_wellformed (c : Cfg) (s : Sock) (body : Bytes)
    (hm : s.method ∈ eightCodes) (HdrWf : C03L.HdrWf s.reqHeaders) (hp : CR ∉ c.peerIP) :
    ∃ m, Http.parse (upstreamHead c s ++ body) = some m ∧
      m.headers = fwdHeaders c s.reqHeaders ∧ m.body = body ∧
      splitF [SP] (m.start.length + 1) none m.start =
        [methodToString s.method, 47 :: pctEncode pathKeep c.path ++ upstreamQuery s.rawPath,
         lit ['H','T','T','P','/','1','.','1']] ∧
      Parser.methodCode (methodToString s.method) = some s.method :=
  ⟨_, ProxyL.head_wellformed c s body hm HdrWf hp, rfl, rfl, startLine_split c s hm,
    (methodToString_clean _ hm).2.2⟩

/-- the method token written is the one the client sent -/
theorem method_token {tok : Bytes} {code : Nat} (h : Parser.methodCode tok = some code) :
    methodToString code = tok ∧ code ∈ eightCodes :=
  ⟨methodToString_of_code h, code_mem_eightCodes h⟩

/-- where `HdrWf` comes from: client header lines without CR whose name part is not blank -/
theorem hdrWf_of_lines {hs : List Bytes} {m : HeaderMap}
    (h : Parser.parseHeaderList hs [] = some m) (hl : ∀ l ∈ hs, LineOk l) : C03L.HdrWf m :=
  wf_of_parseHeaderList h hl

/-! ### 3. the forwarded header map, name by name (no hypothesis at all) -/

/-- every client header other than the two proxy headers is forwarded with exactly its values,
    in the same order -/
theorem headers_forwarded (c : Cfg) (h : HeaderMap) (k : Bytes)
    (h1 : lower k ≠ lower XFF) (h2 : lower k ≠ lower XRI) :
    HeaderMap.values k (fwdHeaders c h) = HeaderMap.values k h := by
  apply ProxyL.headers_forwarded
  · cases hk : HeaderMap.keyEq XFF k
    · rfl
    · exact absurd (HeaderMap.keyEq_iff.mp hk).symm h1
  · cases hk : HeaderMap.keyEq XRI k
    · rfl
    · exact absurd (HeaderMap.keyEq_iff.mp hk).symm h2

/-- exactly one X-Forwarded-For entry goes upstream; its value is the client's values in the order
    received (`values` lists the most recent first, hence the `reverse`), each followed by ", ",
    then the peer address -/
theorem xff_ends_with_peer (c : Cfg) (h : HeaderMap) :
    HeaderMap.values XFF (fwdHeaders c h) =
      [((HeaderMap.values XFF h).reverse.flatMap fun v => v ++ [44, 32]) ++ c.peerIP] :=
  ProxyL.xff_ends_with_peer c h

/-- X-Real-IP: the client's own values if it sent any, else the peer address -/
theorem xri (c : Cfg) (h : HeaderMap) :
    HeaderMap.values XRI (fwdHeaders c h) =
      if HeaderMap.contains XRI h then HeaderMap.values XRI h else [c.peerIP] := ProxyL.xri c h

/-! ### non-vacuity, the repaired finding, the known finding -/

section examples

def exSock : Sock :=
  { method := 8, rawPath := lit ['/','p','/','x','%','2','0','y','?','q','=','1',' ','&','u','=','%','\n','?','b'],
    reqHeaders := [(lit ['H','o','s','t'], lit ['h']),
                   (lit ['X','-','F','o','r','w','a','r','d','e','d','-','F','o','r'], lit ['8','.','8','.','8','.','8']),
                   (lit ['x','-','f','o','r','w','a','r','d','e','d','-','f','o','r'], lit ['9','.','9','.','9','.','9'])] }

/-- a routed path with space, CR, LF, '?', '%' and a non-ASCII byte -/
def exCfg : Cfg := { path := [120, 32, 121, 13, 10, 63, 37, 195, 169] }

example : exSock.method ∈ eightCodes ∧ hdrWfB exSock.reqHeaders = true ∧ CR ∉ exCfg.peerIP := by decide

example : (47 :: pctEncode pathKeep exCfg.path) =
    lit ['/','x','%','2','0','y','%','0','D','%','0','A','%','3','F','%','2','5','%','C','3','%','A','9'] := by
  decide

example : upstreamQuery exSock.rawPath =
    lit ['?','q','=','1','%','2','0','&','u','=','%','%','0','A','?','b'] := by decide

example : HeaderMap.values XFF (fwdHeaders exCfg exSock.reqHeaders) =
    [lit ['9','.','9','.','9','.','9',',',' ','8','.','8','.','8','.','8',',',' ','1','0','.','1','.','2','.','3']] := by
  decide

example : (Http.parse (upstreamHead exCfg exSock ++ [1, 2, 3])).map (·.body) = some [1, 2, 3] := by
  decide +kernel

/-- the request `GET /a?x<LF>Injected:y HTTP/1.1` is accepted by `Parser.parseRequestHeaders`
    (and by `QUrl`); its LF is now escaped in the upstream target (it was forwarded verbatim) -/
theorem lone_LF_is_escaped :
    let first : Bytes := lit ['G','E','T',' ','/','a','?','x','\n','I','n','j','e','c','t','e','d',':','y',' ','H','T','T','P','/','1','.','1']
    let raw : Bytes := lit ['/','a','?','x','\n','I','n','j','e','c','t','e','d',':','y']
    (Parser.parseRequestHeaders first).map (·.rawPath) = some raw ∧ LF ∈ rawQuery raw ∧
    upstreamQuery raw = lit ['?','x','%','0','A','I','n','j','e','c','t','e','d',':','y'] := by
  decide

/-- KNOWN FINDING (model = library, confirmed on the harness: `new feed:"GET /a HTTP/1.1<CRLF>:
    v<CRLF><CRLF>" turn turn`): a header line with an empty name is accepted and forwarded as
    `": v"`, which the strict reader (like any HTTP reader) refuses — `HdrWf` is necessary -/
theorem empty_name_forwarded :
    let head : Bytes := lit ['G','E','T',' ','/','a',' ','H','T','T','P','/','1','.','1','\r','\n',':',' ','v']
    (Parser.parseRequestHeaders head).map (·.headers) = some [([], lit ['v'])] ∧
    Http.parse (upstreamHead {} { method := 2, rawPath := lit ['/','a'], reqHeaders := [([], lit ['v'])] }) = none := by
  decide +kernel

end examples

end Qhttp.C12
