import Qhttp.Model.Proxy
import Qhttp.Model.Fs
import Qhttp.Model.Http
import Qhttp.Props.C02
/-
  C12 — the proxy forwards the client's request upstream unaltered in meaning.
-/
namespace Qhttp.C12
open Qhttp Proxy

def upstreamBytes (obs : List Obs) : Bytes :=
  obs.flatMap fun o => match o with | .misc 20 b => b | _ => []

def clientStream (evs : List PEv) : Bytes :=
  evs.flatMap fun e => match e with | .sock (.feed b) => b | .sock (.prebuf b) => b | _ => []

def nTurns (evs : List PEv) : Nat := (evs.filter fun e => match e with | .turn => true | _ => false).length

/-- everything after the last client segment is at least two turns, no peer close: the upstream
    connection was established and everything in flight was delivered -/
def settled (evs : List PEv) : Bool :=
  let tail := (evs.reverse.takeWhile fun e => match e with | .sock (.feed _) => false | _ => true)
  (tail.filter fun e => match e with | .turn => true | _ => false).length ≥ 2 &&
  !(evs.any fun e => match e with | .sock .peerClose => true | .upClose => true | .up _ => true | _ => false)

def vals (n : Bytes) (hs : List (Bytes × Bytes)) : List Bytes :=
  Http.sortBytes ((hs.filter fun h => lower h.1 == lower n).map (·.2))

/-- scenario shape: one accepted client request whose body (if any) has a declared length, the
    upstream server accepts the connection and only listens.  What it received is one
    well-formed HTTP/1.1 request: the client's method; a target without SP/CR/LF that decodes to
    "/" ++ routed path, followed by the client's query string; every client header with its
    values; X-Forwarded-For ending with the client address; X-Real-IP = the client's own if it
    sent one, else the client address; then exactly the client's body bytes in order. -/
def holds (env : Env) (c : Cfg) (evs : List PEv) (obs : List Obs) : Bool :=
  if c.refuse then true else
  let stream := clientStream evs
  match C01.headOf stream with
  | none => upstreamBytes obs == []
  | some head =>
    match C01.expect env head with
    | none => upstreamBytes obs == []
    | some f =>
      let u := upstreamBytes obs
      if u.isEmpty then !settled evs else
      match Http.parse u with
      | none => false
      | some m =>
        let entitled : Bytes :=
          match C02.req env stream with
          | some r => C02.entitled r
          | none => (stream.drop (head.length + 4))
        -- request line
        (match splitF [SP] (m.start.length + 1) none m.start with
         | [meth, target, ver] =>
           meth == methodToString f.method && ver == lit ['H','T','T','P','/','1','.','1'] &&
           !containsByte CR target && !containsByte LF target &&
           (let (p, q) := match breakOn [63] target with | some (a, b) => (a, 63 :: b) | none => (target, [])
            Fs.pctDecode p == 47 :: c.path &&
            -- the query denotes what the client sent and is free of SP, CR, LF
            !containsByte SP q && Fs.pctDecode q == Fs.pctDecode (rawQuery f.rawPath))
         | _ => false) &&
        -- every client header with its values (the two proxy headers are checked separately)
        f.headers.all (fun e => lower e.1 == lower XFF || lower e.1 == lower XRI ||
                                vals e.1 m.headers == vals e.1 f.headers) &&
        -- X-Forwarded-For: the combined list ends with the client address and keeps the client's entries
        (let combined := (m.headers.filter fun h => lower h.1 == lower XFF).flatMap
                           (fun h => splitF [44, 32] (h.2.length + 1) none h.2)
         combined.getLast? == some c.peerIP &&
         (f.headers.filter fun e => lower e.1 == lower XFF).all fun e =>
            (splitF [44, 32] (e.2.length + 1) none e.2).all fun v => combined.contains v) &&
        -- X-Real-IP
        (if HeaderMap.contains XRI f.headers then vals XRI m.headers == vals XRI f.headers
         else vals XRI m.headers == [c.peerIP]) &&
        -- the body: in order, nothing else, complete once everything is delivered
        m.body.isPrefixOf entitled && (if settled evs then m.body == entitled else true)

end Qhttp.C12
