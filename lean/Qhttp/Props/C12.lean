import Qhttp.Model.Proxy
import Qhttp.Model.Fs
import Qhttp.Model.Http
import Qhttp.Props.C02
import Qhttp.Lemmas.ProxyTarget
import Qhttp.Lemmas.ProxyHead
import Qhttp.Lemmas.ProxyHolds
import Qhttp.Lemmas.ProxyNoLen
import Qhttp.Lemmas.ProxyBad
import Qhttp.Lemmas.ProxyUp
/-
  C12 — the proxy forwards the client's request upstream unaltered in meaning.
-/
namespace Qhttp.C12
open Qhttp Proxy

def upstreamBytes (obs : List Obs) : Bytes :=
  obs.flatMap fun o => match o with | .misc 20 b => b | _ => []

def clientStream (evs : List PEv) : Bytes :=
  evs.flatMap fun e => match e with | .sock (.feed b) => b | .sock (.prebuf b) => b | _ => []

def nTurns (evs : List PEv) : Nat := (evs.filter fun e => match e with | .turn => true | _ => false).length

/-- everything after the last client segment is at least two turns, no peer close: the upstream
    connection was established and everything in flight was delivered.  The upstream server may
    answer at any time (interim `100 Continue`, an early final response, a streaming endpoint):
    what the client sends afterwards is still the request and has to arrive, unless the answer is
    one the proxy turns into a 502 — a complete response head that `Parser::parseResponseHeaders`
    refuses (`Proxy.upHeadOk` is false) makes `writeError` close the client's socket, and with it
    the request. -/
def settled (evs : List PEv) : Bool :=
  let tail := (evs.reverse.takeWhile fun e => match e with | .sock (.feed _) => false | _ => true)
  (tail.filter fun e => match e with | .turn => true | _ => false).length ≥ 2 &&
  !(evs.any fun e => match e with | .sock .peerClose => true | .upClose => true | _ => false) &&
  upHeadOk evs

def vals (n : Bytes) (hs : List (Bytes × Bytes)) : List Bytes :=
  Http.sortBytes ((hs.filter fun h => lower h.1 == lower n).map (·.2))

/-- scenario shape: one accepted client request whose body (if any) has a declared length, the
    upstream server accepts the connection and only listens.  What it received is one
    well-formed HTTP/1.1 request: the client's method; a target without SP/CR/LF that decodes to
    "/" ++ routed path, followed by the client's query string; every client header with its
    values; X-Forwarded-For ending with the client address; X-Real-IP = the client's own if it
    sent one, else the client address; then exactly the client's body bytes in order. -/
def holds (env : Env) (c : Cfg) (evs : List PEv) (obs : List Obs) : Bool :=
  if c.refuse then true else
  let stream := clientStream evs
  match C01.headOf stream with
  | none => upstreamBytes obs == []
  | some head =>
    match C01.expect env head with
    | none => upstreamBytes obs == []
    | some f =>
      let u := upstreamBytes obs
      if u.isEmpty then !settled evs else
      match Http.parse u with
      | none => false
      | some m =>
        let entitled : Bytes :=
          match C02.req env stream with
          | some r => C02.entitled r
          | none => (stream.drop (head.length + 4))
        -- request line
        (match splitF [SP] (m.start.length + 1) none m.start with
         | [meth, target, ver] =>
           meth == methodToString f.method && ver == lit ['H','T','T','P','/','1','.','1'] &&
           !containsByte CR target && !containsByte LF target &&
           (let (p, q) := match breakOn [63] target with | some (a, b) => (a, 63 :: b) | none => (target, [])
            Fs.pctDecode p == 47 :: c.path &&
            -- the query denotes what the client sent and is free of SP, CR, LF
            !containsByte SP q && Fs.pctDecode q == Fs.pctDecode (rawQuery f.rawPath))
         | _ => false) &&
        -- every client header with its values (the two proxy headers are checked separately)
        f.headers.all (fun e => lower e.1 == lower XFF || lower e.1 == lower XRI ||
                                vals e.1 m.headers == vals e.1 f.headers) &&
        -- X-Forwarded-For: the combined list ends with the client address and keeps the client's entries
        (let combined := (m.headers.filter fun h => lower h.1 == lower XFF).flatMap
                           (fun h => splitF [44, 32] (h.2.length + 1) none h.2)
         combined.getLast? == some c.peerIP &&
         (f.headers.filter fun e => lower e.1 == lower XFF).all fun e =>
            (splitF [44, 32] (e.2.length + 1) none e.2).all fun v => combined.contains v) &&
        -- X-Real-IP
        (if HeaderMap.contains XRI f.headers then vals XRI m.headers == vals XRI f.headers
         else vals XRI m.headers == [c.peerIP]) &&
        -- the body: in order, nothing else, complete once everything is delivered
        m.body.isPrefixOf entitled && (if settled evs then m.body == entitled else true)

/-! ## Theorems

  Helper lemmas live in `Qhttp/Lemmas/Proxy*.lean` (namespace `Qhttp.ProxyL`).  All statements are
  about arbitrary byte strings, header maps and configurations (unbounded).

  There is NO hypothesis on the client's header lines any more.  `head_wellformed` is stated for an
  arbitrary socket state under `C03L.HdrWf h` (every entry has a non-empty name free of ':' and CR
  and a value free of CR) and `head_wellformed_general` under the weaker `ProxyL.HdrW h` (non-empty
  name free of ':', name and value free of CR LF — a lone CR is an ordinary byte).  For every
  request head the library's parser accepts, `HdrW` of the header map is a theorem
  (`hdrW_parsed`): the names are non-empty and free of ':' because `Parser::parseHeaderList` refuses
  blank names (`names_guaranteed`), and nothing contains CR LF because header lines are cut at
  CR LF.  So the run theorems `holds_run`, `holds_run_all` need no `HdrWf`/`LineOk` hypothesis.

  History: a header line with an empty or blank name (`": v"`, `"  : v"`) used to be accepted by the
  parser and forwarded as the line `": v"`, which no HTTP reader accepts; repaired in
  `Parser::parseHeaderList` (such a head is answered 400 and nothing is sent upstream), see
  `empty_name_rejected`.

  History: with the query copied verbatim (`rawQuery` instead of `upstreamQuery`) the target
  clause was false — a lone LF or CR in the query passes `Parser::parseHeaders` and `QUrl` and
  reached the upstream request line (`new feed:"GET /a?x<LF>Injected:y HTTP/1.1<CRLF><CRLF>" turn
  turn`); repaired in the library, `lone_LF_is_escaped` shows the same input now. -/

open ProxyL

/-! ### 1. the request target -/

/-- '%' itself is always escaped in the path part, so decoding inverts encoding there -/
theorem pathKeep_escapes_percent : pathKeep 37 = false := pathKeep_37

/-- `QUrl::fromPercentEncoding ∘ QUrl::toPercentEncoding = id` for every keep-set without '%' -/
theorem decode_encode (keep : UInt8 → Bool) (h : keep 37 = false) (p : Bytes) :
    Fs.pctDecode (pctEncode keep p) = p := pctDecode_pctEncode keep h p

/-- decoding commutes with re-encoding for every keep-set that keeps '%' and all hex digits (the
    query's): existing escapes stay, stray '%' stay, newly escaped bytes decode to themselves.
    True without exception (in particular for '%' followed by a byte that gets escaped). -/
theorem decode_reencode (keep : UInt8 → Bool) (h37 : keep 37 = true)
    (hk : ∀ n, n < 256 → (Fs.hexv (UInt8.ofNat n)).isSome = true → keep (UInt8.ofNat n) = true)
    (x : Bytes) : Fs.pctDecode (pctEncode keep x) = Fs.pctDecode x :=
  pctDecode_pctEncode_commute keep h37 hk x

/-- every byte either encoder emits is a kept byte, '%' or an upper-case hex digit -/
theorem encoder_alphabet (keep : UInt8 → Bool) (p : Bytes) :
    ∀ x ∈ pctEncode keep p, keep x = true ∨ x = 37 ∨ isUpHex x = true := fun _ hx => mem_pctEncode hx

/-- the encoded path part, whatever the routed path is (any bytes: space, CR, LF, '?', '#', '%',
    non-ASCII): no SP, CR, LF, '?' -/
theorem path_part_clean (p : Bytes) :
    SP ∉ (47 :: pctEncode pathKeep p) ∧ CR ∉ (47 :: pctEncode pathKeep p) ∧
    LF ∉ (47 :: pctEncode pathKeep p) ∧ (63 : UInt8) ∉ (47 :: pctEncode pathKeep p) :=
  ⟨not_mem_encPath p (by decide) (by decide) (by decide) (by decide),
   not_mem_encPath p (by decide) (by decide) (by decide) (by decide),
   not_mem_encPath p (by decide) (by decide) (by decide) (by decide),
   not_mem_encPath p (by decide) (by decide) (by decide) (by decide)⟩

/-- **the target**, for EVERY routed path `p` and EVERY raw client target `r` (no hypothesis):
    it contains no SP, CR, LF; cut at its first '?' it gives the encoded path, which decodes back
    to "/" ++ p, and the encoded query, which is free of SP and decodes to exactly what the
    client's raw query (everything from the first '?' of `r`) decodes to. -/
theorem target_clean (p r : Bytes) :
    SP ∉ (47 :: pctEncode pathKeep p ++ upstreamQuery r) ∧
    CR ∉ (47 :: pctEncode pathKeep p ++ upstreamQuery r) ∧
    LF ∉ (47 :: pctEncode pathKeep p ++ upstreamQuery r) ∧
    (match breakOn [63] (47 :: pctEncode pathKeep p ++ upstreamQuery r) with
      | some (a, q) => (a, 63 :: q)
      | none => (47 :: pctEncode pathKeep p ++ upstreamQuery r, [])) =
        (47 :: pctEncode pathKeep p, upstreamQuery r) ∧
    Fs.pctDecode (47 :: pctEncode pathKeep p) = 47 :: p ∧
    SP ∉ upstreamQuery r ∧
    Fs.pctDecode (upstreamQuery r) = Fs.pctDecode (rawQuery r) := by
  obtain ⟨a, b, c⟩ := ProxyL.target_clean p r
  exact ⟨a, b, c, breakOn_target p r, pctDecode_encPath p, SP_not_mem_query r, pctDecode_upstreamQuery r⟩

/-- the raw query is the suffix of the raw target starting at its first '?' (or empty) -/
theorem query_as_sent (r : Bytes) :
    ((63 : UInt8) ∉ r ∧ rawQuery r = []) ∨
    ∃ a q, r = a ++ [63] ++ q ∧ (63 : UInt8) ∉ a ∧ rawQuery r = 63 :: q := rawQuery_cases r

/-! ### 2. the head is one well-formed HTTP/1.1 request head -/

/-- decidable form of `Http.EntryOk` -/
def entryOkB (e : Bytes × Bytes) : Bool :=
  !e.1.isEmpty && !containsByte COLON e.1 && !containsByte CR e.1 && !containsByte CR e.2

theorem entryOkB_iff (e : Bytes × Bytes) : entryOkB e = true ↔ Http.EntryOk e := by
  obtain ⟨k, v⟩ := e
  simp only [entryOkB, Http.EntryOk, Bool.and_eq_true, Bool.not_eq_true', Http.containsByte_eq_false,
    List.isEmpty_eq_false_iff]
  constructor
  · rintro ⟨⟨⟨a, b⟩, c⟩, d⟩; exact ⟨a, b, c, d⟩
  · rintro ⟨a, b, c, d⟩; exact ⟨⟨⟨a, b⟩, c⟩, d⟩

/-- decidable form of `C03L.HdrWf` -/
def hdrWfB (h : HeaderMap) : Bool := h.all entryOkB

theorem hdrWfB_iff (h : HeaderMap) : hdrWfB h = true ↔ C03L.HdrWf h := by
  simp only [hdrWfB, List.all_eq_true, entryOkB_iff]; rfl

/-- the head is `request line CRLF (name ": " value CRLF)* CRLF`, by construction -/
theorem head_shape (c : Cfg) (s : Sock) :
    upstreamHead c s =
      (methodToString s.method ++ [SP] ++ (47 :: pctEncode pathKeep c.path ++ upstreamQuery s.rawPath) ++
        lit [' ','H','T','T','P','/','1','.','1']) ++ CRLF ++
      Sock.headerLines (fwdHeaders c s.reqHeaders) ++ CRLF := upstreamHead_eq c s

/-- **the upstream head is one well-formed HTTP/1.1 request head**, for every parsed request
    (method one of the eight codes — all `Parser.methodCode` produces, see `method_token`), every
    peer address without CR and every body that follows, under `HdrWf` of the client's header map
    (for a parsed request no hypothesis on the headers is needed, `head_wellformed_parsed`):
    the strict reader reads back the request line, which splits
    at SP into exactly [the client's method token, the target, "HTTP/1.1"], the forwarded header
    map entry by entry, and the body untouched. -/
theorem head_wellformed (c : Cfg) (s : Sock) (body : Bytes)
    (hm : s.method ∈ eightCodes) (HdrWf : C03L.HdrWf s.reqHeaders) (hp : CR ∉ c.peerIP) :
    ∃ m, Http.parse (upstreamHead c s ++ body) = some m ∧
      m.headers = fwdHeaders c s.reqHeaders ∧ m.body = body ∧
      splitF [SP] (m.start.length + 1) none m.start =
        [methodToString s.method, 47 :: pctEncode pathKeep c.path ++ upstreamQuery s.rawPath,
         lit ['H','T','T','P','/','1','.','1']] ∧
      Parser.methodCode (methodToString s.method) = some s.method :=
  ⟨_, ProxyL.head_wellformed c s body hm HdrWf hp, rfl, rfl, startLine_split c s hm,
    (methodToString_clean _ hm).2.2⟩

/-- the method token written is the one the client sent -/
theorem method_token {tok : Bytes} {code : Nat} (h : Parser.methodCode tok = some code) :
    methodToString code = tok ∧ code ∈ eightCodes :=
  ⟨methodToString_of_code h, code_mem_eightCodes h⟩

/-- **the name part of `HdrWf` is guaranteed by the parser**: every entry of every header map
    `Parser::parseHeaderList` produces — from ANY lines, no side condition — has a non-empty name
    without ':' -/
theorem names_guaranteed {hs : List Bytes} {m : HeaderMap}
    (h : Parser.parseHeaderList hs [] = some m) : ∀ e ∈ m, e.1 ≠ [] ∧ COLON ∉ e.1 :=
  nameOk_of_parseHeaderList h (fun e he => by cases he)

/-- where `HdrWf` comes from: client header lines without CR (nothing else: the former side
    condition "the name part is not blank" is now enforced by the parser) -/
theorem hdrWf_of_lines {hs : List Bytes} {m : HeaderMap}
    (h : Parser.parseHeaderList hs [] = some m) (hl : ∀ l ∈ hs, CR ∉ l) : C03L.HdrWf m :=
  wf_of_parseHeaderList h hl

/-- `HdrWf` of a parsed request's header map from the CR-freeness of its entries alone -/
theorem hdrWf_of_parsed {head : Bytes} {rh : Parser.ReqHead}
    (h : Parser.parseRequestHeaders head = some rh) (hcr : ∀ e ∈ rh.headers, CrFree e) :
    C03L.HdrWf rh.headers := wf_of_parseRequestHeaders h hcr

/-- the same theorem as `head_wellformed` under the weaker condition `HdrW`: every entry has a
    non-empty name without ':' and neither name nor value contains CR LF (lone CRs allowed) -/
theorem head_wellformed_general (c : Cfg) (s : Sock) (body : Bytes)
    (hm : s.method ∈ eightCodes) (hw : HdrW s.reqHeaders) (hp : CR ∉ c.peerIP) :
    ∃ m, Http.parse (upstreamHead c s ++ body) = some m ∧
      m.headers = fwdHeaders c s.reqHeaders ∧ m.body = body ∧
      splitF [SP] (m.start.length + 1) none m.start =
        [methodToString s.method, 47 :: pctEncode pathKeep c.path ++ upstreamQuery s.rawPath,
         lit ['H','T','T','P','/','1','.','1']] ∧
      Parser.methodCode (methodToString s.method) = some s.method :=
  ⟨_, ProxyL.head_wellformed_w c s body hm hw hp, rfl, rfl, startLine_split c s hm,
    (methodToString_clean _ hm).2.2⟩

/-- **`HdrW` holds for every request head the library's parser accepts** — no side condition -/
theorem hdrW_parsed {head : Bytes} {rh : Parser.ReqHead}
    (h : Parser.parseRequestHeaders head = some rh) : HdrW rh.headers :=
  hdrW_of_parseRequestHeaders h

/-- hence: for EVERY request head the library's parser accepts the upstream head is one
    well-formed HTTP/1.1 request head.  No hypothesis on the headers (before the repair of the
    parser an empty header name made this false); the only hypothesis left is on the
    configuration: the peer address text has no CR. -/
theorem head_wellformed_parsed (c : Cfg) (head : Bytes) (rh : Parser.ReqHead) (body : Bytes)
    (h : Parser.parseRequestHeaders head = some rh) (hp : CR ∉ c.peerIP) :
    ∃ m, Http.parse (upstreamHead c (reqSock rh) ++ body) = some m ∧
      m.headers = fwdHeaders c rh.headers ∧ m.body = body :=
  have hm : rh.method ∈ eightCodes := by
    obtain ⟨_, _, _, _, hm⟩ := (Parser.parseRequestHeaders_eq_some_iff head [] rh).mp h
    exact code_mem_eightCodes hm
  ⟨_, ProxyL.head_wellformed_w c (reqSock rh) body hm (hdrW_of_parseRequestHeaders h) hp, rfl, rfl⟩

/-! ### 3. the forwarded header map, name by name (no hypothesis at all) -/

/-- every client header other than the two proxy headers is forwarded with exactly its values,
    in the same order -/
theorem headers_forwarded (c : Cfg) (h : HeaderMap) (k : Bytes)
    (h1 : lower k ≠ lower XFF) (h2 : lower k ≠ lower XRI) :
    HeaderMap.values k (fwdHeaders c h) = HeaderMap.values k h := by
  apply ProxyL.headers_forwarded
  · cases hk : HeaderMap.keyEq XFF k
    · rfl
    · exact absurd (HeaderMap.keyEq_iff.mp hk).symm h1
  · cases hk : HeaderMap.keyEq XRI k
    · rfl
    · exact absurd (HeaderMap.keyEq_iff.mp hk).symm h2

/-- exactly one X-Forwarded-For entry goes upstream; its value is the client's values in the order
    received (`values` lists the most recent first, hence the `reverse`), each followed by ", ",
    then the peer address -/
theorem xff_ends_with_peer (c : Cfg) (h : HeaderMap) :
    HeaderMap.values XFF (fwdHeaders c h) =
      [((HeaderMap.values XFF h).reverse.flatMap fun v => v ++ [44, 32]) ++ c.peerIP] :=
  ProxyL.xff_ends_with_peer c h

/-- X-Real-IP: the client's own values if it sent any, else the peer address -/
theorem xri (c : Cfg) (h : HeaderMap) :
    HeaderMap.values XRI (fwdHeaders c h) =
      if HeaderMap.contains XRI h then HeaderMap.values XRI h else [c.peerIP] := ProxyL.xri c h

/-! ### non-vacuity, the repaired findings -/

section examples

def exSock : Sock :=
  { method := 8, rawPath := lit ['/','p','/','x','%','2','0','y','?','q','=','1',' ','&','u','=','%','\n','?','b'],
    reqHeaders := [(lit ['H','o','s','t'], lit ['h']),
                   (lit ['X','-','F','o','r','w','a','r','d','e','d','-','F','o','r'], lit ['8','.','8','.','8','.','8']),
                   (lit ['x','-','f','o','r','w','a','r','d','e','d','-','f','o','r'], lit ['9','.','9','.','9','.','9'])] }

/-- a routed path with space, CR, LF, '?', '%' and a non-ASCII byte -/
def exCfg : Cfg := { path := [120, 32, 121, 13, 10, 63, 37, 195, 169] }

example : exSock.method ∈ eightCodes ∧ hdrWfB exSock.reqHeaders = true ∧ CR ∉ exCfg.peerIP := by decide

example : (47 :: pctEncode pathKeep exCfg.path) =
    lit ['/','x','%','2','0','y','%','0','D','%','0','A','%','3','F','%','2','5','%','C','3','%','A','9'] := by
  decide

example : upstreamQuery exSock.rawPath =
    lit ['?','q','=','1','%','2','0','&','u','=','%','%','0','A','?','b'] := by decide

example : HeaderMap.values XFF (fwdHeaders exCfg exSock.reqHeaders) =
    [lit ['9','.','9','.','9','.','9',',',' ','8','.','8','.','8','.','8',',',' ','1','0','.','1','.','2','.','3']] := by
  decide

example : (Http.parse (upstreamHead exCfg exSock ++ [1, 2, 3])).map (·.body) = some [1, 2, 3] := by
  decide +kernel

/-- the request `GET /a?x<LF>Injected:y HTTP/1.1` is accepted by `Parser.parseRequestHeaders`
    (and by `QUrl`); its LF is now escaped in the upstream target (it was forwarded verbatim) -/
theorem lone_LF_is_escaped :
    let first : Bytes := lit ['G','E','T',' ','/','a','?','x','\n','I','n','j','e','c','t','e','d',':','y',' ','H','T','T','P','/','1','.','1']
    let raw : Bytes := lit ['/','a','?','x','\n','I','n','j','e','c','t','e','d',':','y']
    (Parser.parseRequestHeaders first).map (·.rawPath) = some raw ∧ LF ∈ rawQuery raw ∧
    upstreamQuery raw = lit ['?','x','%','0','A','I','n','j','e','c','t','e','d',':','y'] := by
  decide

/-- decidable form of "every entry is `CrFree`" -/
def crFreeB (h : HeaderMap) : Bool := h.all fun e => !containsByte CR e.1 && !containsByte CR e.2

theorem crFreeB_iff (h : HeaderMap) : crFreeB h = true ↔ ∀ e ∈ h, CrFree e := by
  simp only [crFreeB, List.all_eq_true, Bool.and_eq_true, Bool.not_eq_true',
    Http.containsByte_eq_false]
  rfl

/-- REPAIRED FINDING (was: a header line with an empty name is accepted and forwarded as `": v"`,
    which the strict reader — like any HTTP reader — refuses; harness scenario
    `new feed:"GET /a HTTP/1.1<CRLF>: v<CRLF><CRLF>" turn turn`).  Now the parser refuses every
    head with such a line: empty name, blank name, and after good lines. -/
theorem empty_name_rejected :
    Parser.parseRequestHeaders (lit ['G','E','T',' ','/','a',' ','H','T','T','P','/','1','.','1','\r','\n',':',' ','v']) = none ∧
    Parser.parseRequestHeaders (lit ['G','E','T',' ','/','a',' ','H','T','T','P','/','1','.','1','\r','\n',' ','\t',':','v']) = none ∧
    Parser.parseRequestHeaders (lit ['G','E','T',' ','/','a',' ','H','T','T','P','/','1','.','1','\r','\n','A',':','b','\r','\n',':',' ','v']) = none := by
  decide +kernel

/-- in general: a request head one of whose header lines has a blank name part is refused by
    `Parser::parseHeaderList`, hence never parsed, for every position of the line -/
theorem blank_name_refused (pre post : List Bytes) (n x : Bytes) (m0 : HeaderMap)
    (hn : COLON ∉ n) (hb : Parser.Blank n) :
    Parser.parseHeaderList (pre ++ (n ++ [COLON] ++ x) :: post) m0 = none := by
  rw [Parser.parseHeaderList_eq, if_neg]
  intro h
  have := h (n ++ [COLON] ++ x) (by simp)
  rw [Parser.hdrLineB_iff] at this
  obtain ⟨n', x', e, hn', hc⟩ := this
  have a := breakOn_singleton x hn
  have b := breakOn_singleton x' hn'
  rw [e, b] at a
  simp only [Option.some.injEq, Prod.mk.injEq] at a
  rw [a.1] at hc
  exact (Parser.not_blank_iff n).2 hc hb

end examples

/-! ### 4./5. the relay invariant and the executable predicate on whole runs

  The proofs live in `Qhttp/Lemmas/ProxySock.lean` (the socket under the proxy's application, on
  top of the C02 invariant `RInv`), `ProxyRelay.lean` (the relay part of the invariant, one
  lemma per phase of `sockEvent`/`turn`), `ProxyRun.lean` (induction over the event list) and
  `ProxyHolds.lean` (the header clauses of `holds`). -/

/-- scenario shape of the relay theorems: the Socket is created first, then client segments,
    event-loop turns and writes of the upstream server in any order.  The upstream server accepts
    the connection and may answer whenever it likes — before the client has finished sending
    (interim `100 Continue`, early final response, streaming endpoint), in any number of pieces,
    with a head the proxy relays or one it refuses; it does not close the connection and the
    client does not leave. -/
def relayShape : List PEv → Bool
  | .sock .new :: rest =>
    rest.all fun e => match e with | .sock (.feed _) => true | .turn => true | .up _ => true | _ => false
  | _ => false

/-- the former shape: the upstream server only listens -/
def relayShape0 : List PEv → Bool
  | .sock .new :: rest => rest.all fun e => match e with | .sock (.feed _) => true | .turn => true | _ => false
  | _ => false

/-- the former shape is a special case -/
theorem relayShape_of_relayShape0 {evs : List PEv} (h : relayShape0 evs = true) : relayShape evs = true := by
  unfold relayShape0 at h
  unfold relayShape
  split at h
  · rename_i rest
    simp only [List.all_eq_true] at h ⊢
    intro e he
    have := h e he
    revert this
    cases e with
    | sock ev => cases ev <;> simp
    | turn => simp
    | up b => simp
    | upClose => simp
  · cases h

theorem relayPEvU_of_shape {evs : List PEv} (h : relayShape evs = true) : ∀ e ∈ evs, relayPEvU e = true := by
  unfold relayShape at h
  split at h
  · rename_i rest
    intro e he
    rcases List.mem_cons.mp he with rfl | he
    · rfl
    · have := List.all_eq_true.mp h e he
      revert this
      cases e with
      | sock ev => cases ev <;> simp [relayPEvU, relayPEv]
      | turn => simp [relayPEvU, relayPEv]
      | up b => simp [relayPEvU]
      | upClose => simp
  · cases h

theorem relayPEv_of_shape {evs : List PEv} (h : relayShape0 evs = true) : ∀ e ∈ evs, relayPEv e = true := by
  unfold relayShape0 at h
  split at h
  · rename_i rest
    intro e he
    rcases List.mem_cons.mp he with rfl | he
    · rfl
    · have := List.all_eq_true.mp h e he
      revert this
      cases e with
      | sock ev => cases ev <;> simp [relayPEv]
      | turn => simp [relayPEv]
      | up b => simp
      | upClose => simp
  · cases h

theorem shape_cases {evs : List PEv} (h : relayShape evs = true) :
    ∃ rest, evs = .sock .new :: rest ∧
      rest.all (fun e => match e with | .sock (.feed _) => true | .turn => true | .up _ => true | _ => false) = true := by
  unfold relayShape at h
  split at h
  · exact ⟨_, rfl, h⟩
  · cases h

theorem clientStream_eq (evs : List PEv) : clientStream evs = fedP evs := by
  unfold clientStream fedP Scenario.fed
  rw [List.flatMap_map]
  congr 1
  funext e
  cases e with
  | sock ev => cases ev <;> rfl
  | turn => rfl
  | up b => rfl
  | upClose => rfl

/-- the first element with `p` of a list whose elements before it all satisfy `q` -/
theorem exists_first {α} (p q : α → Bool) : ∀ (r : List α), ((r.takeWhile q).filter p).length ≥ 1 →
    ∃ a x b, r = a ++ x :: b ∧ p x = true ∧ ∀ y ∈ a, q y = true ∧ p y = false := by
  intro r
  induction r with
  | nil => intro h; simp at h
  | cons y r ih =>
    intro h
    rw [List.takeWhile_cons] at h
    cases hq : q y with
    | false => rw [hq] at h; simp at h
    | true =>
      rw [hq] at h
      simp only [if_true, List.filter_cons] at h
      cases hp : p y with
      | true => exact ⟨[], y, r, rfl, hp, fun _ h' => by cases h'⟩
      | false =>
        rw [hp] at h
        simp only [Bool.false_eq_true, if_false] at h
        obtain ⟨a, x, b, e, px, ha⟩ := ih h
        refine ⟨y :: a, x, b, by rw [e]; rfl, px, fun z hz => ?_⟩
        rcases List.mem_cons.mp hz with rfl | hz
        · exact ⟨hq, hp⟩
        · exact ha z hz

theorem settled_upHeadOk {evs : List PEv} (h : settled evs = true) : upHeadOk evs = true := by
  unfold settled at h
  simp only [Bool.and_eq_true] at h
  exact h.2

/-- in a settled run of the relay shape a turn has run after the last client segment, and after
    the last turn only the upstream server writes -/
theorem turnTail_of_settled {evs : List PEv} (hs : relayShape evs = true) (h : settled evs = true) :
    TurnTail evs := by
  unfold settled at h
  simp only [Bool.and_eq_true, decide_eq_true_eq] at h
  have h1 : ((evs.reverse.takeWhile fun e => match e with | .sock (.feed _) => false | _ => true).filter
      fun e => match e with | .turn => true | _ => false).length ≥ 1 := by
    have := h.1.1
    omega
  obtain ⟨a, x, b, e, px, ha⟩ := exists_first _ _ _ h1
  have hevs : evs = b.reverse ++ x :: a.reverse := by
    have := congrArg List.reverse e
    simpa using this
  have hx : x = PEv.turn := by
    cases x with
    | turn => rfl
    | sock ev => simp at px
    | up b => simp at px
    | upClose => simp at px
  subst hx
  refine ⟨b.reverse, a.reverse, hevs, fun y hy => ?_⟩
  obtain ⟨q1, q2⟩ := ha y (List.mem_reverse.mp hy)
  obtain ⟨rest, heq, hall⟩ := shape_cases hs
  have hyr : y ∈ rest := by
    rw [heq] at hevs
    cases hb : b.reverse with
    | nil => rw [hb] at hevs; simp at hevs
    | cons z bs =>
      rw [hb] at hevs
      simp only [List.cons_append, List.cons.injEq] at hevs
      rw [hevs.2]; simp [hy]
  have := List.all_eq_true.mp hall y hyr
  revert this q1 q2
  cases y with
  | sock ev => cases ev <;> simp
  | turn => simp
  | up b => intro _ _ _; exact ⟨b, rfl⟩
  | upClose => simp

/-- a settled run of the former shape ends with a turn -/
theorem ends_with_turn {evs : List PEv} (hs : relayShape0 evs = true) (h : settled evs = true) :
    ∃ pre, evs = pre ++ [PEv.turn] := by
  obtain ⟨pre, post, hpe, hall⟩ := turnTail_of_settled (relayShape_of_relayShape0 hs) h
  cases post with
  | nil => exact ⟨pre, hpe⟩
  | cons y post =>
    obtain ⟨b, rfl⟩ := hall y (by simp)
    have := relayPEv_of_shape hs (.up b) (by rw [hpe]; simp)
    simp [relayPEv] at this

/-- what `C02.req` returning a request means, with the parsed head exposed -/
theorem req_parsed {env : Env} {stream : Bytes} {r : C02.Req} (h : C02.req env stream = some r) :
    ∃ head rh f, breakOn CRLF2 stream = some (head, r.rest) ∧ C01.expect env head = some f ∧
      Parsed env head r.n rh ∧ f.method = rh.method ∧ f.rawPath = rh.rawPath ∧ f.headers = rh.headers := by
  unfold C02.req at h
  split at h
  · cases h
  · rename_i head rest hb
    split at h
    · cases h
    · rename_i f hf
      split at h
      · cases h
      · rename_i hneg
        simp only [Option.some.injEq] at h
        subst h
        have hf0 := hf
        unfold C01.expect at hf
        split at hf
        · cases hf
        · rename_i rh hp
          split at hf
          · cases hf
          · rename_i p q hu
            simp only [Option.some.injEq] at hf
            subst hf
            simp only at hneg
            refine ⟨head, rh, _, hb, hf0, ⟨hp, ⟨p, q, hu⟩, ?_, ?_⟩, rfl, rfl, rfl⟩
            · by_cases hc : HeaderMap.contains Sock.CONTENT_LENGTH rh.headers = true
              · exact hc
              · simp [hc] at hneg
            · by_cases hc : HeaderMap.contains Sock.CONTENT_LENGTH rh.headers = true
              · simp only [hc, if_true] at hneg ⊢
                show toLongLong (HeaderMap.value Sock.CONTENT_LENGTH rh.headers) = _
                omega
              · simp [hc] at hneg

/-- `holds` from its clauses (accepted request with declared length, something reached upstream) -/
theorem holds_of_clauses (env : Env) (c : Cfg) (evs : List PEv) (obs : List Obs)
    (head : Bytes) (f : Snap) (m : Http.Msg) (meth tgt ver : Bytes) (ent : Bytes)
    (hc : c.refuse = false)
    (h1 : C01.headOf (clientStream evs) = some head) (h2 : C01.expect env head = some f)
    (h3 : (upstreamBytes obs).isEmpty = false) (h4 : Http.parse (upstreamBytes obs) = some m)
    (r : C02.Req) (hreq : C02.req env (clientStream evs) = some r) (hent : C02.entitled r = ent)
    (h5 : splitF [SP] (m.start.length + 1) none m.start = [meth, tgt, ver])
    (ha : (meth == methodToString f.method && ver == lit ['H','T','T','P','/','1','.','1'] &&
           !containsByte CR tgt && !containsByte LF tgt &&
           (let (p, q) := match breakOn [63] tgt with | some (a, b) => (a, 63 :: b) | none => (tgt, [])
            Fs.pctDecode p == 47 :: c.path &&
            !containsByte SP q && Fs.pctDecode q == Fs.pctDecode (rawQuery f.rawPath))) = true)
    (hb : f.headers.all (fun e => lower e.1 == lower XFF || lower e.1 == lower XRI ||
                                vals e.1 m.headers == vals e.1 f.headers) = true)
    (hx : (let combined := (m.headers.filter fun h => lower h.1 == lower XFF).flatMap
                           (fun h => splitF [44, 32] (h.2.length + 1) none h.2)
           combined.getLast? == some c.peerIP &&
           (f.headers.filter fun e => lower e.1 == lower XFF).all fun e =>
              (splitF [44, 32] (e.2.length + 1) none e.2).all fun v => combined.contains v) = true)
    (hr : (if HeaderMap.contains XRI f.headers then vals XRI m.headers == vals XRI f.headers
           else vals XRI m.headers == [c.peerIP]) = true)
    (hbody : (m.body.isPrefixOf ent && (if settled evs then m.body == ent else true)) = true) :
    holds env c evs obs = true := by
  unfold holds
  simp only [hc, Bool.false_eq_true, if_false, h1, h2, h3, h4, h5, hreq, hent]
  simp only [Bool.and_eq_true] at ha hb hx hr hbody ⊢
  exact ⟨⟨⟨⟨⟨ha, hb⟩, hx⟩, hr⟩, hbody.1⟩, hbody.2⟩

theorem method_mem_of_parse {head : Bytes} {rh : Parser.ReqHead}
    (h : Parser.parseRequestHeaders head [] = some rh) : rh.method ∈ eightCodes := by
  obtain ⟨p0, p2, _, _, hm⟩ := (Parser.parseRequestHeaders_eq_some_iff head [] rh).mp h
  exact code_mem_eightCodes hm

/-! ### every stream of the relay shape

  `ProxyGen.lean` repeats the relay induction generically in the socket invariant (`SockI`);
  `ProxyNoLen.lean` supplies the invariant of a socket whose accepted head declares no length
  (nothing is cut, every byte after the blank line is handed out), `ProxyBad.lean` shows that
  streams without an acceptable head are never routed.  `ProxyUpSock.lean` / `ProxyUp.lean` extend
  the induction to an upstream server that answers at any time: a relayed answer touches the
  response side of the client's socket only (`WSame`), a refused one closes it (`DeadU`); the
  declared-length case is the instance `sockI_len` of the same interface. -/

/-- `holds` from its clauses, declared length or not -/
theorem holds_of_clauses' (env : Env) (c : Cfg) (evs : List PEv) (obs : List Obs)
    (head : Bytes) (f : Snap) (m : Http.Msg) (meth tgt ver : Bytes) (ent : Bytes)
    (hc : c.refuse = false)
    (h1 : C01.headOf (clientStream evs) = some head) (h2 : C01.expect env head = some f)
    (h3 : (upstreamBytes obs).isEmpty = false) (h4 : Http.parse (upstreamBytes obs) = some m)
    (ro : Option C02.Req) (hreq : C02.req env (clientStream evs) = ro)
    (hent : (match ro with
             | some r => C02.entitled r
             | none => (clientStream evs).drop (head.length + 4)) = ent)
    (h5 : splitF [SP] (m.start.length + 1) none m.start = [meth, tgt, ver])
    (ha : (meth == methodToString f.method && ver == lit ['H','T','T','P','/','1','.','1'] &&
           !containsByte CR tgt && !containsByte LF tgt &&
           (let (p, q) := match breakOn [63] tgt with | some (a, b) => (a, 63 :: b) | none => (tgt, [])
            Fs.pctDecode p == 47 :: c.path &&
            !containsByte SP q && Fs.pctDecode q == Fs.pctDecode (rawQuery f.rawPath))) = true)
    (hb : f.headers.all (fun e => lower e.1 == lower XFF || lower e.1 == lower XRI ||
                                vals e.1 m.headers == vals e.1 f.headers) = true)
    (hx : (let combined := (m.headers.filter fun h => lower h.1 == lower XFF).flatMap
                           (fun h => splitF [44, 32] (h.2.length + 1) none h.2)
           combined.getLast? == some c.peerIP &&
           (f.headers.filter fun e => lower e.1 == lower XFF).all fun e =>
              (splitF [44, 32] (e.2.length + 1) none e.2).all fun v => combined.contains v) = true)
    (hr : (if HeaderMap.contains XRI f.headers then vals XRI m.headers == vals XRI f.headers
           else vals XRI m.headers == [c.peerIP]) = true)
    (hbody : (m.body.isPrefixOf ent && (if settled evs then m.body == ent else true)) = true) :
    holds env c evs obs = true := by
  unfold holds
  simp only [hc, Bool.false_eq_true, if_false, h1, h2, h3, h4, h5, hreq]
  cases ro with
  | none =>
    simp only [] at hent
    subst hent
    simp only [Bool.and_eq_true] at ha hb hx hr hbody ⊢
    exact ⟨⟨⟨⟨⟨ha, hb⟩, hx⟩, hr⟩, hbody.1⟩, hbody.2⟩
  | some r =>
    simp only [] at hent
    subst hent
    simp only [Bool.and_eq_true] at ha hb hx hr hbody ⊢
    exact ⟨⟨⟨⟨⟨ha, hb⟩, hx⟩, hr⟩, hbody.1⟩, hbody.2⟩


/-- `holds` from the relay invariant at the end of the run (`ProxyL.run_final_up`) -/
theorem holds_of_final (env : Env) (c : Cfg) (evs : List PEv) (obs : List Obs)
    (hshape : relayShape evs = true) (hc : c.refuse = false)
    (head : Bytes) (f : Snap) (rh : Parser.ReqHead)
    (hhead : C01.headOf (clientStream evs) = some head) (hexp : C01.expect env head = some f)
    (f1 : f.method = rh.method) (f2 : f.rawPath = rh.rawPath) (f3 : f.headers = rh.headers)
    (hm : rh.method ∈ eightCodes) (hwf : HdrW rh.headers)
    (hcr : CR ∉ c.peerIP) (hcomma : (44 : UInt8) ∉ c.peerIP)
    (ro : Option C02.Req) (hreq : C02.req env (clientStream evs) = ro) (ent : Bytes)
    (hent : (match ro with
             | some r => C02.entitled r
             | none => (clientStream evs).drop (head.length + 4)) = ent)
    (hfinal : (upBytes obs = [] ∧ ¬ TurnTail evs) ∨
      ∃ d, upBytes obs = upstreamHead c (reqSock rh) ++ d ∧ d <+: ent ∧
        (TurnTail evs → upHeadOk evs = true → d = ent)) :
    holds env c evs obs = true := by
  rcases hfinal with ⟨hu, hnt⟩ | ⟨d, hu, hpre, hfull⟩
  · have hu' : upstreamBytes obs = [] := hu
    have hns : settled evs = false := by
      cases hs : settled evs with
      | false => rfl
      | true => exact absurd (turnTail_of_settled hshape hs) hnt
    unfold holds
    simp [hc, hhead, hexp, hu', hns]
  · have hu' : upstreamBytes obs = upstreamHead c (reqSock rh) ++ d := hu
    have hparse := ProxyL.head_wellformed_w c (reqSock rh) d hm hwf hcr
    rw [← hu'] at hparse
    have hne : (upstreamBytes obs).isEmpty = false := by
      rw [hu']
      cases hh : upstreamHead c (reqSock rh) with
      | nil => exact absurd hh (upstreamHead_ne_nil c _)
      | cons x xs => rfl
    refine holds_of_clauses' env c evs _ head f _ _ _ _ ent hc hhead hexp hne hparse ro hreq hent
      (startLine_split c (reqSock rh) hm) ?_ ?_ ?_ ?_ ?_
    · have hct := clause_target c rh.rawPath
      have e1 : (methodToString (reqSock rh).method == methodToString f.method) = true := by
        rw [f1]; simp [reqSock]
      have e2 : (Parser.HTTP11 == lit ['H','T','T','P','/','1','.','1']) = true := by decide
      simp only [Bool.and_eq_true] at hct ⊢
      rw [f2]
      exact ⟨⟨⟨⟨e1, e2⟩, hct.1.1⟩, hct.1.2⟩, hct.2⟩
    · have := clause_headers c rh.headers
      rw [f3]; exact this
    · have := clause_xff c rh.headers hcomma
      rw [f3]; exact this
    · have := clause_xri c rh.headers
      rw [f3]; exact this
    · show (d.isPrefixOf ent && (if settled evs then d == ent else true)) = true
      rw [Bool.and_eq_true]
      refine ⟨List.isPrefixOf_iff_prefix.mpr hpre, ?_⟩
      split
      · rename_i hs
        rw [hfull (turnTail_of_settled hshape hs) (settled_upHeadOk hs)]; simp
      · rfl

/-- in the former shape `TurnTail` is "ends with a turn" -/
theorem turnTail_shape0 {evs : List PEv} (hs : relayShape0 evs = true) (h : TurnTail evs) :
    ∃ pre, evs = pre ++ [PEv.turn] := by
  obtain ⟨pre, post, hpe, hall⟩ := h
  cases post with
  | nil => exact ⟨pre, hpe⟩
  | cons y post =>
    obtain ⟨b, rfl⟩ := hall y (by simp)
    have := relayPEv_of_shape hs (.up b) (by rw [hpe]; simp)
    simp [relayPEv] at this

/-- `holds_of_final` as it was stated for the former shape (from `ProxyL.run_final`, `run_final_gen`) -/
theorem holds_of_final0 (env : Env) (c : Cfg) (evs : List PEv) (obs : List Obs)
    (hshape : relayShape0 evs = true) (hc : c.refuse = false)
    (head : Bytes) (f : Snap) (rh : Parser.ReqHead)
    (hhead : C01.headOf (clientStream evs) = some head) (hexp : C01.expect env head = some f)
    (f1 : f.method = rh.method) (f2 : f.rawPath = rh.rawPath) (f3 : f.headers = rh.headers)
    (hm : rh.method ∈ eightCodes) (hwf : HdrW rh.headers)
    (hcr : CR ∉ c.peerIP) (hcomma : (44 : UInt8) ∉ c.peerIP)
    (ro : Option C02.Req) (hreq : C02.req env (clientStream evs) = ro) (ent : Bytes)
    (hent : (match ro with
             | some r => C02.entitled r
             | none => (clientStream evs).drop (head.length + 4)) = ent)
    (hfinal : (upBytes obs = [] ∧ ¬ ∃ pre, evs = pre ++ [PEv.turn]) ∨
      ∃ d, upBytes obs = upstreamHead c (reqSock rh) ++ d ∧ d <+: ent ∧
        ((∃ pre, evs = pre ++ [PEv.turn]) → d = ent)) :
    holds env c evs obs = true := by
  refine holds_of_final env c evs obs (relayShape_of_relayShape0 hshape) hc head f rh hhead hexp f1 f2 f3 hm hwf
    hcr hcomma ro hreq ent hent ?_
  rcases hfinal with ⟨hu, hnt⟩ | ⟨d, hu, hpre, hfull⟩
  · exact Or.inl ⟨hu, fun h => hnt (turnTail_shape0 hshape h)⟩
  · exact Or.inr ⟨d, hu, hpre, fun h _ => hfull (turnTail_shape0 hshape h)⟩

/-- **C12, main theorem.** For every environment (`QUrl` oracle, error pages), every
    configuration (routed path: any bytes; `refuse` either way), and every event list
    `new (feed seg | turn | up bytes)*` — every segmentation of the client's stream, every position
    of the turns (in particular of the turn at which the upstream connection completes) among the
    body segments, and every timing and chunking of whatever the upstream server answers, before,
    while or after the client sends its body, be it a response the proxy relays or one it turns
    into a 502 — whose stream is an accepted request with a declared body length (`C02.req`), the
    executable predicate the driver evaluates on traces of the real proxy holds on the model's
    run.  In particular (`settled`): once two turns have run after the last client segment, the
    upstream server has received the whole body, unless its own answer was a complete response
    head `Parser::parseResponseHeaders` refuses (then the proxy answered 502 and `writeError`
    closed the client's socket).
    The only explicit hypothesis is on the configuration: a peer address text without CR
    and ','.  (The former hypothesis `HdrWf` of the client's parsed header map is gone: it is a
    theorem now that the parser refuses blank names, `hdrW_parsed`.)
    The other streams (head incomplete or rejected, no declared length) are covered by
    `holds_run_all` below.  A NEGATIVE declared length other than -1 is excluded there because the
    property is false for it: the socket treats the request as finished at once and drops later
    body bytes, scenario
    `new feed:<GET /a HTTP/1.1 CRLF Content-Length: -5 CRLF CRLF> turn feed:616263 turn turn`
    (harness: model = library, `holds` false on both). -/
theorem holds_run (env : Env) (c : Cfg) (evs : List PEv) (hshape : relayShape evs = true)
    (r : C02.Req) (hreq : C02.req env (clientStream evs) = some r)
    (hcr : CR ∉ c.peerIP) (hcomma : (44 : UInt8) ∉ c.peerIP) :
    holds env c evs (Proxy.run env c evs).sock.log = true := by
  by_cases hc : c.refuse = true
  · unfold holds; simp [hc]
  have hc' : c.refuse = false := by simpa using hc
  obtain ⟨head, rh, f, hfin, hexp, hp, f1, f2, f3⟩ := req_parsed hreq
  have hfin' : breakOn CRLF2 (fedP evs) = some (head, r.rest) := by rw [← clientStream_eq]; exact hfin
  have hhead : C01.headOf (clientStream evs) = some head := by unfold C01.headOf; rw [hfin]; rfl
  have hI := sockI_len env (evs.map proj) hp (fedP evs) r.rest hfin'
  have hU := sockU_len (evs.map proj) head r.n rh
  have hfinal := run_final_up hI hU c hc' (relayPEvU_of_shape hshape)
  exact holds_of_final env c evs _ hshape hc' head f rh hhead hexp f1 f2 f3
    (method_mem_of_parse hp.parse) (hdrW_of_parseRequestHeaders hp.parse)
    hcr hcomma (some r) hreq (r.rest.take r.n) rfl hfinal

/-- **the relay invariant** (`body_in_order`), at EVERY point of EVERY run
    `new (feed seg | turn | up bytes)*` whose stream is an accepted request with a declared length —
    wherever the turn at which the upstream connection completes falls among the body segments,
    whatever the upstream server has answered by then: what reached the upstream server
    after the head, followed by what is in flight, followed by what is buffered, is exactly what
    the socket has handed out so far (`Obs.reads`), and that is a prefix of the entitled body.
    Before the request is routed nothing is relayed; the connection is never given up. -/
theorem body_in_order (env : Env) (c : Cfg) (hc : c.refuse = false) (evs : List PEv)
    (hshape : relayShape evs = true) (r : C02.Req) (hreq : C02.req env (clientStream evs) = some r)
    (pre post : List PEv) (hevs : evs = pre ++ post) :
    ∃ head rh, C01.headOf (clientStream evs) = some head ∧ Parser.parseRequestHeaders head = some rh ∧
      (Proxy.run env c pre).conn ≠ .closed ∧
      ((Proxy.run env c pre).conn = .none →
        upstreamBytes (Proxy.run env c pre).sock.log = [] ∧ (Proxy.run env c pre).buf = [] ∧
        (Proxy.run env c pre).toUp = [] ∧ Obs.reads (Proxy.run env c pre).sock.log = []) ∧
      ((Proxy.run env c pre).conn = .connecting →
        upstreamBytes (Proxy.run env c pre).sock.log = [] ∧ (Proxy.run env c pre).toUp = [] ∧
        (Proxy.run env c pre).buf = Obs.reads (Proxy.run env c pre).sock.log) ∧
      ((Proxy.run env c pre).conn = .connected →
        (Proxy.run env c pre).buf = [] ∧
        ∃ d, upstreamBytes (Proxy.run env c pre).sock.log =
               upstreamHead c { method := rh.method, rawPath := rh.rawPath, reqHeaders := rh.headers } ++ d ∧
             d ++ (Proxy.run env c pre).toUp = Obs.reads (Proxy.run env c pre).sock.log) ∧
      Obs.reads (Proxy.run env c pre).sock.log <+: C02.entitled r := by
  obtain ⟨head, rh, f, hfin, hexp, hp, _, _, _⟩ := req_parsed hreq
  have hfin' : breakOn CRLF2 (fedP evs) = some (head, r.rest) := by rw [← clientStream_eq]; exact hfin
  have hhead : C01.headOf (clientStream evs) = some head := by unfold C01.headOf; rw [hfin]; rfl
  have hI := sockI_len env (evs.map proj) hp (fedP evs) r.rest hfin'
  have hU := sockU_len (evs.map proj) head r.n rh
  have hPU := prun_up hI hU c hc pre post hevs
    (fun e he => relayPEvU_of_shape hshape e (by rw [hevs]; simp [he]))
  have hpre : fedP pre <+: fedP evs := by rw [hevs, fedP_append]; exact List.prefix_append _ _
  rcases hPU with ha | hd
  · obtain ⟨hR, hP, _, _, _⟩ := ha
    refine ⟨head, rh, hhead, hp.parse, hP.notClosed, fun h => ?_, fun h => ?_, fun h => ?_, hI.readsPre hR hpre⟩
    · obtain ⟨a, b, _, d⟩ := hP.none_ h
      exact ⟨d, a, b, rinv_reads_nil hR.1 (hP.connNone.mp h)⟩
    · obtain ⟨a, _, b2, b3⟩ := hP.connecting h
      exact ⟨b2, a, b3⟩
    · obtain ⟨a, _, d, e1, e2⟩ := hP.connected h
      exact ⟨a, d, e1, e2⟩
  · refine ⟨head, rh, hhead, hp.parse, by rw [hd.conn]; simp, fun h => ?_, fun h => ?_,
      fun _ => ⟨hd.buf, hd.up⟩, hd.pre⟩
    · rw [hd.conn] at h; cases h
    · rw [hd.conn] at h; cases h

/-- the parsed head of an accepted request without a declared length -/
theorem expect_parsedN {env : Env} {head : Bytes} {f : Snap} (h : C01.expect env head = some f)
    (ht : f.total = -1) :
    ∃ rh, ParsedN env head rh ∧ f.method = rh.method ∧ f.rawPath = rh.rawPath ∧ f.headers = rh.headers := by
  unfold C01.expect at h
  split at h
  · cases h
  · rename_i rh hp
    split at h
    · cases h
    · rename_i p q hu
      simp only [Option.some.injEq] at h
      subst h
      exact ⟨rh, ⟨hp, ⟨p, q, hu⟩, ht⟩, rfl, rfl, rfl⟩

theorem req_none_of_neg {env : Env} {stream head rest : Bytes} {f : Snap}
    (hb : breakOn CRLF2 stream = some (head, rest)) (h : C01.expect env head = some f) (ht : f.total < 0) :
    C02.req env stream = none := by
  unfold C02.req
  simp only [hb, h, ht, if_true]

theorem req_some_of_nonneg {env : Env} {stream head rest : Bytes} {f : Snap}
    (hb : breakOn CRLF2 stream = some (head, rest)) (h : C01.expect env head = some f) (ht : 0 ≤ f.total) :
    ∃ r, C02.req env stream = some r := by
  unfold C02.req
  simp only [hb, h, if_neg (by omega : ¬ f.total < 0)]
  exact ⟨_, rfl⟩

/-- **C12, main theorem, all streams.** For every environment, configuration and event list
    `new (feed seg | turn | up bytes)*` — every interleaving of client segments, turns and writes of
    the upstream server — whatever the client's byte stream is: head never complete, head
    rejected, accepted with a declared body length, accepted without one — the executable
    predicate holds on the model's run, provided that an accepted head does not declare a
    NEGATIVE length other than -1 (there the property is false, see `holds_run`), and the peer
    address text has no CR and no ','.  Nothing is asked of the header lines: heads with an empty
    or blank header name are rejected and fall under the "head rejected" case, every accepted head
    has a header map that re-reads (`hdrW_parsed`). -/
theorem holds_run_all (env : Env) (c : Cfg) (evs : List PEv) (hshape : relayShape evs = true)
    (hclean : ∀ head f, C01.headOf (clientStream evs) = some head → C01.expect env head = some f →
      -1 ≤ f.total)
    (hcr : CR ∉ c.peerIP) (hcomma : (44 : UInt8) ∉ c.peerIP) :
    holds env c evs (Proxy.run env c evs).sock.log = true := by
  by_cases hc : c.refuse = true
  · unfold holds; simp [hc]
  have hc' : c.refuse = false := by simpa using hc
  have hok := relayPEvU_of_shape hshape
  cases hbk : breakOn CRLF2 (clientStream evs) with
  | none =>
    -- the head never completes
    have hbad : BadStream env (fedP evs) := by
      intro head rest h; rw [← clientStream_eq, hbk] at h; cases h
    have hu : upstreamBytes (Proxy.run env c evs).sock.log = [] := run_bad_up env c evs hbad hok
    unfold holds
    simp [hc', C01.headOf, hbk, hu]
  | some pr =>
    obtain ⟨head, restF⟩ := pr
    have hhead : C01.headOf (clientStream evs) = some head := by unfold C01.headOf; rw [hbk]; rfl
    have hfin' : breakOn CRLF2 (fedP evs) = some (head, restF) := by rw [← clientStream_eq]; exact hbk
    cases hexp : C01.expect env head with
    | none =>
      have hbad : BadStream env (fedP evs) := by
        intro head' rest h
        rw [hfin'] at h
        simp only [Option.some.injEq, Prod.mk.injEq] at h
        rw [← h.1]; exact hexp
      have hu : upstreamBytes (Proxy.run env c evs).sock.log = [] := run_bad_up env c evs hbad hok
      unfold holds
      simp [hc', hhead, hexp, hu]
    | some f =>
      have htot := hclean head f hhead hexp
      by_cases hneg : f.total < 0
      · -- no declared length
        have ht : f.total = -1 := by omega
        obtain ⟨rh, hp, f1, f2, f3⟩ := expect_parsedN hexp ht
        have hreq := req_none_of_neg hbk hexp hneg
        have hI := sockI_nolen env (evs.map proj) hp (fedP evs) restF hfin'
        have hfinal := run_final_up hI (sockU_nolen (evs.map proj) head rh) c hc' hok
        have hdrop : (clientStream evs).drop (head.length + 4) = restF := by
          rw [C02L.breakOn_some_eq CRLF2 _ _ _ hbk]
          apply List.drop_left'
          simp [C02.CRLF2_length]
        exact holds_of_final env c evs _ hshape hc' head f rh hhead hexp f1 f2 f3
          (method_mem_of_parse hp.parse) (hdrW_of_parseRequestHeaders hp.parse)
          hcr hcomma none hreq restF hdrop hfinal
      · obtain ⟨r, hreq⟩ := req_some_of_nonneg hbk hexp (by omega)
        exact holds_run env c evs hshape r hreq hcr hcomma

/-! ### non-vacuity of the run theorems: a POST with a 3-byte body whose head, blank line and body
    are cut across three segments, the connection completing after the first body byte -/

section run_examples

def envEx : Env := { url := fun raw => some (raw, []), errPage := fun _ _ => [] }
/-- `POST /a?q HTTP/1.1 CRLF Content-Length: 3 CRLF CR` -/
def seg1 : Bytes := [80, 79, 83, 84, 32, 47, 97, 63, 113, 32, 72, 84, 84, 80, 47, 49, 46, 49, 13, 10, 67, 111, 110,
  116, 101, 110, 116, 45, 76, 101, 110, 103, 116, 104, 58, 32, 51, 13, 10, 13]
def evsEx : List PEv :=
  [.sock .new, .sock (.feed seg1), .turn, .sock (.feed [10, 97]), .turn, .sock (.feed [98, 99, 88]), .turn, .turn]

example : relayShape evsEx = true := by decide
example : (C02.req envEx (clientStream evsEx)).isSome = true := by decide +kernel
example : settled evsEx = true := by decide
example : CR ∉ ({} : Cfg).peerIP ∧ (44 : UInt8) ∉ ({} : Cfg).peerIP := by decide
/-- the predicate evaluated on the model's run (the theorem says this for every run) -/
example : holds envEx {} evsEx (Proxy.run envEx {} evsEx).sock.log = true := by decide +kernel
/-- and it is not true for trivial reasons: the upstream server received the head and `abc` -/
example : (Http.parse (upstreamBytes (Proxy.run envEx {} evsEx).sock.log)).map (·.body) = some [97, 98, 99] := by
  decide +kernel

/-- the former shape is a special case of the theorems -/
example : relayShape0 evsEx = true ∧ relayShape evsEx = true := by decide

/-! the upstream server answers EARLY: `HTTP/1.1 100 Continue CRLF CRLF` arrives after the first
    body byte; the rest of the body comes in a second piece afterwards and has to be forwarded
    (`settled` demands it: the answer is one the proxy relays) -/
def up100 : Bytes := lit ['H','T','T','P','/','1','.','1',' ','1','0','0',' ','C','o','n','t','i','n','u','e','\r','\n','\r','\n']
def evsEarly : List PEv :=
  [.sock .new, .sock (.feed seg1), .turn, .sock (.feed [10, 97]), .turn, .up up100, .turn,
   .sock (.feed [98, 99, 88]), .turn, .turn]

example : relayShape evsEarly = true ∧ relayShape0 evsEarly = false := by decide
example : (C02.req envEx (clientStream evsEarly)).isSome = true := by decide +kernel
/-- the payload was written on the established connection and its head parses -/
example : upstreamSent evsEarly = up100 ∧ upHeadOk evsEarly = true := by decide +kernel
example : settled evsEarly = true := by decide +kernel
example : (∀ e ∈ evsEarly, relayPEvU e = true) ∧ TurnTail evsEarly :=
  ⟨relayPEvU_of_shape (by decide), turnTail_of_settled (by decide) (by decide +kernel)⟩
/-- the predicate on the model's run (an instance of `holds_run`), with the completeness clause
    switched on; the response head was relayed to the client BEFORE the last body bytes arrived,
    and the upstream server still received `abc` -/
example : holds envEx {} evsEarly (Proxy.run envEx {} evsEarly).sock.log = true := by decide +kernel
example : (Http.parse (upstreamBytes (Proxy.run envEx {} evsEarly).sock.log)).map (·.body) = some [97, 98, 99] ∧
    (Proxy.run envEx {} evsEarly).headersParsed = true ∧
    (Obs.wire (Proxy.run envEx {} evsEarly).sock.log).take 12 =
      lit ['H','T','T','P','/','1','.','0',' ','1','0','0'] := by
  decide +kernel
/-- with the change "once the upstream server has begun to answer, what the client still sends is
    consumed instead of forwarded" the upstream server would have received `a` only: the predicate
    is false on such a trace (`[98, 99]` missing), where it used to be true (`settled` was false
    for every scenario with an `up` event) -/
example :
    let obs := (Proxy.run envEx {} evsEarly).sock.log.map fun o =>
      match o with | .misc 20 b => if b == [98, 99] then Obs.misc 20 [] else o | _ => o
    holds envEx {} evsEarly obs = false := by
  decide +kernel

/-! the upstream server answers early with a head the proxy REFUSES (`garbage CRLF CRLF`): 502,
    the client's socket is closed, the rest of the body is not owed — `settled` is false, the body
    that went upstream is a proper prefix, the predicate holds -/
def upBad : Bytes := lit ['g','a','r','b','a','g','e','\r','\n','\r','\n']
def evsRefused : List PEv :=
  [.sock .new, .sock (.feed seg1), .turn, .sock (.feed [10, 97]), .turn, .up upBad, .turn,
   .sock (.feed [98, 99, 88]), .turn, .turn]
example : relayShape evsRefused = true ∧ upHeadOk evsRefused = false ∧ settled evsRefused = false := by
  decide +kernel
example : holds envEx {} evsRefused (Proxy.run envEx {} evsRefused).sock.log = true ∧
    (Http.parse (upstreamBytes (Proxy.run envEx {} evsRefused).sock.log)).map (·.body) = some [97] ∧
    (Obs.wire (Proxy.run envEx {} evsRefused).sock.log).take 12 =
      lit ['H','T','T','P','/','1','.','0',' ','5','0','2'] := by
  decide +kernel
/-- a payload written before the connection exists is never sent: it does not count -/
example : upstreamSent [.sock .new, .up upBad, .sock (.feed (seg1 ++ [10])), .up upBad, .turn, .up up100] = up100 := by
  decide +kernel

/-- no declared length: everything after the blank line is the body, cut around the connecting turn -/
def evsNoLen : List PEv :=
  [.sock .new, .sock (.feed [80, 85, 84, 32, 47, 32, 72, 84, 84, 80, 47, 49, 46, 49, 13, 10, 13, 10, 97]),
   .turn, .sock (.feed [98, 99]), .turn]
example : relayShape evsNoLen = true := by decide
example : holds envEx {} evsNoLen (Proxy.run envEx {} evsNoLen).sock.log = true := by decide +kernel
example : (Http.parse (upstreamBytes (Proxy.run envEx {} evsNoLen).sock.log)).map (·.body) = some [97, 98, 99] := by
  decide +kernel
/-- a request OUTSIDE the former hypothesis `HdrWf` that the run theorems now cover: a lone CR in a
    header name and in a header value (`X<CR>Y: a<CR>b`).  The head is accepted, forwarded, and the
    strict reader finds the entry unchanged. -/
def evsLoneCR : List PEv :=
  [.sock .new, .sock (.feed (lit ['G','E','T',' ','/','a',' ','H','T','T','P','/','1','.','1','\r','\n','X','\r','Y',':',' ','a','\r','b','\r','\n','\r','\n'])),
   .turn, .turn]
example : relayShape evsLoneCR = true ∧
    (C01.headOf (clientStream evsLoneCR)).bind (fun h => (C01.expect envEx h).map fun f => crFreeB f.headers)
      = some false ∧
    holds envEx {} evsLoneCR (Proxy.run envEx {} evsLoneCR).sock.log = true ∧
    (Http.parse (upstreamBytes (Proxy.run envEx {} evsLoneCR).sock.log)).map
        (fun m => HeaderMap.values (lit ['x','\r','y']) m.headers) = some [lit ['a','\r','b']] := by
  decide +kernel
/-- the head with an empty header name (`GET /a HTTP/1.1 CRLF : v CRLF CRLF`, the repaired finding):
    rejected, nothing reaches the upstream server, the client is answered 400 -/
def evsEmptyName : List PEv :=
  [.sock .new, .sock (.feed (lit ['G','E','T',' ','/','a',' ','H','T','T','P','/','1','.','1','\r','\n',':',' ','v','\r','\n','\r','\n'])),
   .turn, .turn]
example : relayShape evsEmptyName = true ∧
    holds envEx {} evsEmptyName (Proxy.run envEx {} evsEmptyName).sock.log = true ∧
    upstreamBytes (Proxy.run envEx {} evsEmptyName).sock.log = [] ∧
    (Obs.wire (Proxy.run envEx {} evsEmptyName).sock.log).take 12 =
      lit ['H','T','T','P','/','1','.','0',' ','4','0','0'] := by decide +kernel
/-- a rejected head (`BAD CRLF CRLF`): nothing reaches the upstream server -/
def evsBad : List PEv := [.sock .new, .sock (.feed [66, 65, 68, 13, 10, 13, 10]), .turn, .turn]
example : holds envEx {} evsBad (Proxy.run envEx {} evsBad).sock.log = true ∧
    upstreamBytes (Proxy.run envEx {} evsBad).sock.log = [] := by decide +kernel

end run_examples

end Qhttp.C12
