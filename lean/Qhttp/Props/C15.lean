import Qhttp.Model.SlotHandler
import Qhttp.Model.Http
import Qhttp.Props.C02
import Qhttp.Lemmas.C15Run
/-
  C15 — the slot handler invokes the right slot once, and only with the full body.
-/
namespace Qhttp.C15
open Qhttp SlotHandler

def slots (obs : List Obs) : List (Nat × Nat) :=
  obs.filterMap fun o => match o with | .slot i a => some (i, a) | _ => none

def statusOf (wire : Bytes) : Option Nat :=
  match Http.parse wire with
  | some m => (Http.statusLine m.start).map (·.code)
  | none => none

/-- `path` is the decoded request path without its leading slash; `r` describes the request
    (C02.req: declared length and what was sent after the blank line), `none` = no declared body.
    The slot registered under exactly that path (last registration wins) is the only one ever
    invoked, at most once; unknown path: 404; unusable registration: 500; a registration asking
    for the whole body is invoked only when that many bytes are readable, and exactly once when
    the whole body was delivered. -/
def holds (regs : List Reg) (path : QStr) (accepted : Bool) (r : Option C02.Req) (obs : List Obs) : Bool :=
  if !accepted then slots obs == [] else
  match lookup regs path with
  | none => slots obs == [] && statusOf (Obs.wire obs) == some 404
  | some m =>
    let complete := match r with | none => true | some rq => decide (rq.rest.length ≥ rq.n)
    -- an unusable registration is detected when the slot would be invoked
    if !m.good then slots obs == [] && (if !m.readAll || complete then statusOf (Obs.wire obs) == some 500 else true) else
    (slots obs).length ≤ 1 && (slots obs).all (fun e => e.1 == m.idx) &&
    (match r with
     | none => slots obs == [(m.idx, 0)] || (slots obs).length == 1
     | some rq =>
       (if m.readAll then (slots obs).all (fun e => e.2 ≥ rq.n) else true) &&
       (if !m.readAll || rq.rest.length ≥ rq.n then (slots obs).length == 1 else true))

/-! ## Theorems: dispatch (pure, no socket run) -/
/-- the entry used is registered under exactly the requested name, and no later registration
    carries that name: `QMap::insert` replaces -/
theorem lookup_exact {regs : List Reg} {path : QStr} {m : Reg} (h : lookup regs path = some m) :
    m.name = path ∧ ∃ pre post, regs = pre ++ m :: post ∧ ∀ r ∈ post, r.name ≠ path := by
  unfold lookup at h
  obtain ⟨hp, as, bs, he, hn⟩ := List.find?_eq_some_iff_append.mp h
  refine ⟨by simpa using hp, bs.reverse, as.reverse, ?_, ?_⟩
  · have := congrArg List.reverse he
    simpa using this
  · intro r hr
    have := hn r (by simpa using hr)
    simpa using this

theorem lookup_none_iff {regs : List Reg} {path : QStr} :
    lookup regs path = none ↔ ∀ r ∈ regs, r.name ≠ path := by
  unfold lookup
  simp

/-- the converse: the last registration under the name is the one found -/
theorem lookup_last (pre post : List Reg) (m : Reg) (h : ∀ r ∈ post, r.name ≠ m.name) :
    lookup (pre ++ m :: post) m.name = some m := by
  unfold lookup
  rw [List.find?_eq_some_iff_append]
  refine ⟨by simp, post.reverse, pre.reverse, by simp, ?_⟩
  intro r hr
  have := h r (by simpa using hr)
  simpa using this
theorem unknown_404 {regs : List Reg} {path : QStr} (h : lookup regs path = none) (s : Sock) :
    onHp regs path s = [.err 404 none] ∧ onRcf regs path s = [] := by
  unfold onHp onRcf; rw [h]; exact ⟨rfl, rfl⟩

theorem bad_500 (m : Reg) (s : Sock) (h : m.good = false) : invoke m s = [.err 500 none] := by
  unfold invoke; rw [h]; rfl

theorem good_invoke (m : Reg) (s : Sock) (h : m.good = true) :
    invoke m s = [.note (.slot m.idx (Sock.bytesAvailable s))] := by
  unfold invoke; rw [h]; rfl

/-- every reaction of the handler is one of: nothing, the invocation of the entry found, 404 -/
theorem onHp_cases (regs : List Reg) (path : QStr) (s : Sock) :
    (lookup regs path = none ∧ onHp regs path s = [.err 404 none]) ∨
    (∃ m, lookup regs path = some m ∧ (onHp regs path s = invoke m s ∨ onHp regs path s = [])) := by
  unfold onHp
  cases h : lookup regs path with
  | none => exact Or.inl ⟨rfl, rfl⟩
  | some m =>
    right; refine ⟨m, rfl, ?_⟩
    simp only; split
    · exact Or.inl rfl
    · exact Or.inr rfl

theorem onRcf_cases (regs : List Reg) (path : QStr) (s : Sock) :
    onRcf regs path s = [] ∨ (∃ m, lookup regs path = some m ∧ onRcf regs path s = invoke m s) := by
  unfold onRcf
  cases h : lookup regs path with
  | none => exact Or.inl rfl
  | some m =>
    simp only; split
    · exact Or.inr ⟨m, rfl, rfl⟩
    · exact Or.inl rfl

theorem invoke_slot {m : Reg} {s : Sock} {i a : Nat} (h : ApiOp.note (.slot i a) ∈ invoke m s) :
    i = m.idx ∧ a = Sock.bytesAvailable s ∧ m.good = true := by
  unfold invoke at h
  split at h
  · rename_i hg
    simp at h
    exact ⟨h.1, h.2, hg⟩
  · simp at h

/-- a slot observation produced by either reaction names the entry registered (last) under
    exactly the requested path, which is usable, and carries `bytesAvailable()` of that moment -/
theorem never_other_slot {regs : List Reg} {path : QStr} {s : Sock} {i a : Nat}
    (h : ApiOp.note (.slot i a) ∈ onHp regs path s ∨ ApiOp.note (.slot i a) ∈ onRcf regs path s) :
    ∃ m, lookup regs path = some m ∧ i = m.idx ∧ m.name = path ∧ m.good = true ∧
      a = Sock.bytesAvailable s := by
  rcases h with h | h
  · rcases onHp_cases regs path s with ⟨_, e⟩ | ⟨m, hm, e | e⟩
    · rw [e] at h; simp at h
    · rw [e] at h
      obtain ⟨h1, h2, h3⟩ := invoke_slot h
      exact ⟨m, hm, h1, (lookup_exact hm).1, h3, h2⟩
    · rw [e] at h; simp at h
  · rcases onRcf_cases regs path s with e | ⟨m, hm, e⟩
    · rw [e] at h; simp at h
    · rw [e] at h
      obtain ⟨h1, h2, h3⟩ := invoke_slot h
      exact ⟨m, hm, h1, (lookup_exact hm).1, h3, h2⟩

/-! non-vacuity: names "a", "ab" (a prefix), "" and a re-registration of "a" -/
def regsEx : List Reg :=
  [⟨[97], 0, true, true⟩, ⟨[97, 98], 1, true, false⟩, ⟨[], 2, false, true⟩, ⟨[97], 3, true, false⟩]

example : (lookup regsEx [97]).map (·.idx) = some 3 := by decide
example : (lookup regsEx [97, 98]).map (·.idx) = some 1 := by decide
example : (lookup regsEx []).map (·.idx) = some 2 := by decide
example : lookup regsEx [97, 98, 99] = none := by decide
example : lookup regsEx [98] = none := by decide

/-! ## Theorems: runs of the socket model with the slot application

  The proofs live in `Qhttp/Lemmas/C15*.lean`.  `C15L.SInv` is the invariant between two external
  events, stated against the bytes delivered so far: head incomplete / head rejected / unknown
  path answered 404 / unusable registration answered 500 / slot invoked (exactly one observation)
  / invocation deferred (fewer than the declared number of body bytes buffered, nothing written,
  no observation).  `C15L.run_inv` is the induction over the event list; the scenario shape is
  `C15L.slotEvents`: `new (feed seg | turn)* [peerClose turn*]`. -/

open C15L

theorem slots_eq (l : List Obs) : slots l = slotsL l := rfl

theorem statusOf_errWire_404 (env : Env) : statusOf (errWire env 404) = some 404 := by
  unfold statusOf; rw [parse_errWire env 404 noCR_404]; exact status_404

theorem statusOf_errWire_500 (env : Env) : statusOf (errWire env 500) = some 500 := by
  unfold statusOf; rw [parse_errWire env 500 noCR_500]; exact status_500

/-- how the driver computes `accepted` from the stream -/
def acceptedOf (env : Env) (stream : Bytes) : Bool :=
  match C01.headOf stream with | some h => (C01.expect env h).isSome | none => false

theorem acceptedOf_none {env : Env} {stream : Bytes} (h : breakOn CRLF2 stream = none) :
    acceptedOf env stream = false := by
  simp [acceptedOf, C01.headOf, h]

theorem acceptedOf_some {env : Env} {stream head rest : Bytes} (h : breakOn CRLF2 stream = some (head, rest)) :
    acceptedOf env stream = (C01.expect env head).isSome := by
  simp [acceptedOf, C01.headOf, h]

theorem req_of {env : Env} {stream head rest : Bytes} {f : Snap}
    (h : breakOn CRLF2 stream = some (head, rest)) (he : C01.expect env head = some f) :
    C02.req env stream =
      if f.total < 0 then none else some { headLen := head.length + 4, n := f.total.toNat, rest := rest } := by
  simp [C02.req, h, he]

/-- **C15, main theorem.** For every environment, registry and path, and every scenario
    `new (feed seg | turn)* [peerClose turn*]` — every stream, accepted or not, with or without a
    declared body, complete or truncated, under every segmentation — the executable predicate
    holds on the model's run, with `accepted` and `r` computed from the stream as the driver does. -/
theorem holds_run (env : Env) (regs : List Reg) (path : QStr) (evs : List Event)
    (hshape : slotEvents evs = true) :
    holds regs path (acceptedOf env (Scenario.fed evs)) (C02.req env (Scenario.fed evs))
      (Scenario.run env ⟨app regs path, evs⟩).log = true := by
  obtain ⟨c, h⟩ := run_inv env regs path evs hshape
  show holds regs path _ _ (Sock.run env (app regs path) evs).log = true
  generalize Sock.run env (app regs path) evs = s at h
  unfold holds
  cases h with
  | hdr h hb =>
    rw [acceptedOf_none hb]
    simp [slots_eq, h.opn.slots]
  | rej head rest hb he hq hs =>
    rw [acceptedOf_some hb, he]
    simp [slots_eq, hs]
  | unknown head rest f hb he hl hq hs hw =>
    rw [acceptedOf_some hb, he, hl]
    simp [slots_eq, hs, hw, statusOf_errWire_404]
  | failed head rest f m hb he hl hg hq hs hw =>
    rw [acceptedOf_some hb, he, hl]
    simp [slots_eq, hs, hw, statusOf_errWire_500, hg]
  | invoked head rest f m a hb he hl hg hq hs ha hc =>
    rw [acceptedOf_some hb, he, hl, req_of hb he]
    simp only [slots_eq, hs, hg]
    by_cases hneg : f.total < 0
    · simp [hneg]
    · simp only [hneg, if_false]
      cases hra : m.readAll with
      | false => simp
      | true =>
        have := ha hra
        simp
        omega
  | deferred head rest f m hb he hl hra hN h =>
    rw [acceptedOf_some hb, he, hl, req_of hb he]
    have hs := h.opn.slots
    have hsh := h.short
    have hneg : ¬ f.total < 0 := by omega
    simp only [slots_eq, hs, hra, hneg, if_false]
    cases m.good <;> simp <;> omega


/-- the same statement with `accepted` spelled exactly as in `Driver/Main.lean` -/
theorem holds_run' (env : Env) (regs : List Reg) (path : QStr) (evs : List Event)
    (hshape : slotEvents evs = true) :
    holds regs path
      (match C01.headOf (Scenario.fed evs) with | some h => (C01.expect env h).isSome | none => false)
      (C02.req env (Scenario.fed evs)) (Scenario.run env ⟨app regs path, evs⟩).log = true :=
  holds_run env regs path evs hshape

/-! ## The property in plain terms (over the socket model) -/

section plain
variable (env : Env) (regs : List Reg) (path : QStr) (evs : List Event)

/-- **once, and only with the full body.**  The head is accepted (`f` = what `C01.expect` shows
    the application, `f.total` = the declared length or `-1`), `rest` is everything sent after
    the blank line, and the path is registered (last) to a usable slot `m`.  Then
    (a) the history contains at most one slot observation and it names `m`;
    (b) if `m` asked for the whole body, the slot saw at least the declared number of readable bytes;
    (c) if `m` did not ask for it: exactly one observation, directly after `headersParsed`;
    (d) if `m` asked for it and the declared number of body bytes was delivered: exactly one. -/
theorem once_full (hshape : slotEvents evs = true) (head rest : Bytes) (f : Snap) (m : Reg)
    (hb : breakOn CRLF2 (Scenario.fed evs) = some (head, rest))
    (he : C01.expect env head = some f) (hl : lookup regs path = some m) (hg : m.good = true) :
    (slots (Scenario.run env ⟨app regs path, evs⟩).log = [] ∨
      ∃ a, slots (Scenario.run env ⟨app regs path, evs⟩).log = [(m.idx, a)] ∧
        (m.readAll = true → f.total ≤ (a : Int))) ∧
    (m.readAll = false → ∃ a l1 l2, slots (Scenario.run env ⟨app regs path, evs⟩).log = [(m.idx, a)] ∧
        (Scenario.run env ⟨app regs path, evs⟩).log = l1 ++ Obs.hp :: Obs.slot m.idx a :: l2) ∧
    (m.readAll = true → f.total ≤ (rest.length : Int) →
      ∃ a, slots (Scenario.run env ⟨app regs path, evs⟩).log = [(m.idx, a)]) := by
  obtain ⟨c, h⟩ := run_inv env regs path evs hshape
  rw [show Scenario.run env ⟨app regs path, evs⟩ = Sock.run env (app regs path) evs from rfl]
  generalize Sock.run env (app regs path) evs = s at h
  cases h with
  | hdr h hb' => rw [hb] at hb'; exact absurd hb' (by simp)
  | rej head' rest' hb' he' hq hs =>
    rw [hb] at hb'; simp only [Option.some.injEq, Prod.mk.injEq] at hb'
    rw [← hb'.1, he] at he'; exact absurd he' (by simp)
  | unknown head' rest' f' hb' he' hl' hq hs hw => rw [hl] at hl'; exact absurd hl' (by simp)
  | failed head' rest' f' m' hb' he' hl' hg' hq hs hw =>
    rw [hl] at hl'; simp only [Option.some.injEq] at hl'
    rw [← hl', hg] at hg'; exact absurd hg' (by simp)
  | invoked head' rest' f' m' a hb' he' hl' hg' hq hs ha hc =>
    rw [hb] at hb'; simp only [Option.some.injEq, Prod.mk.injEq] at hb'
    obtain ⟨rfl, rfl⟩ := hb'
    rw [he] at he'; simp only [Option.some.injEq] at he'; subst he'
    rw [hl] at hl'; simp only [Option.some.injEq] at hl'; subst hl'
    exact ⟨Or.inr ⟨a, hs, ha⟩, fun hr => by obtain ⟨l1, l2, e⟩ := hc hr; exact ⟨a, l1, l2, hs, e⟩,
      fun _ _ => ⟨a, hs⟩⟩
  | deferred head' rest' f' m' hb' he' hl' hra hN h =>
    rw [hb] at hb'; simp only [Option.some.injEq, Prod.mk.injEq] at hb'
    obtain ⟨rfl, rfl⟩ := hb'
    rw [he] at he'; simp only [Option.some.injEq] at he'; subst he'
    rw [hl] at hl'; simp only [Option.some.injEq] at hl'; subst hl'
    refine ⟨Or.inl h.opn.slots, fun hr => by rw [hra] at hr; exact absurd hr (by simp), fun _ hle => ?_⟩
    have := h.short
    omega

/-- an accepted request for a path nobody registered: no slot runs and the response is a 404 -/
theorem unknown_404_run (hshape : slotEvents evs = true) (head rest : Bytes) (f : Snap)
    (hb : breakOn CRLF2 (Scenario.fed evs) = some (head, rest))
    (he : C01.expect env head = some f) (hl : lookup regs path = none) :
    slots (Scenario.run env ⟨app regs path, evs⟩).log = [] ∧
    statusOf (Obs.wire (Scenario.run env ⟨app regs path, evs⟩).log) = some 404 := by
  obtain ⟨c, h⟩ := run_inv env regs path evs hshape
  rw [show Scenario.run env ⟨app regs path, evs⟩ = Sock.run env (app regs path) evs from rfl]
  generalize Sock.run env (app regs path) evs = s at h
  cases h with
  | hdr h hb' => rw [hb] at hb'; exact absurd hb' (by simp)
  | rej head' rest' hb' he' hq hs =>
    rw [hb] at hb'; simp only [Option.some.injEq, Prod.mk.injEq] at hb'
    rw [← hb'.1, he] at he'; exact absurd he' (by simp)
  | unknown head' rest' f' hb' he' hl' hq hs hw => exact ⟨hs, by rw [hw]; exact statusOf_errWire_404 env⟩
  | failed head' rest' f' m' hb' he' hl' hg' hq hs hw => rw [hl] at hl'; exact absurd hl' (by simp)
  | invoked head' rest' f' m' a hb' he' hl' hg' hq hs ha hc => rw [hl] at hl'; exact absurd hl' (by simp)
  | deferred head' rest' f' m' hb' he' hl' hra hN h => rw [hl] at hl'; exact absurd hl' (by simp)

/-- a registration whose slot is missing or has the wrong signature: no slot runs; the 500 is
    sent when the slot would have been invoked (at once, or when the declared body is complete) -/
theorem bad_500_run (hshape : slotEvents evs = true) (head rest : Bytes) (f : Snap) (m : Reg)
    (hb : breakOn CRLF2 (Scenario.fed evs) = some (head, rest))
    (he : C01.expect env head = some f) (hl : lookup regs path = some m) (hg : m.good = false) :
    slots (Scenario.run env ⟨app regs path, evs⟩).log = [] ∧
    (m.readAll = false ∨ f.total ≤ (rest.length : Int) →
      statusOf (Obs.wire (Scenario.run env ⟨app regs path, evs⟩).log) = some 500) := by
  obtain ⟨c, h⟩ := run_inv env regs path evs hshape
  rw [show Scenario.run env ⟨app regs path, evs⟩ = Sock.run env (app regs path) evs from rfl]
  generalize Sock.run env (app regs path) evs = s at h
  cases h with
  | hdr h hb' => rw [hb] at hb'; exact absurd hb' (by simp)
  | rej head' rest' hb' he' hq hs =>
    rw [hb] at hb'; simp only [Option.some.injEq, Prod.mk.injEq] at hb'
    rw [← hb'.1, he] at he'; exact absurd he' (by simp)
  | unknown head' rest' f' hb' he' hl' hq hs hw => rw [hl] at hl'; exact absurd hl' (by simp)
  | failed head' rest' f' m' hb' he' hl' hg' hq hs hw =>
    exact ⟨hs, fun _ => by rw [hw]; exact statusOf_errWire_500 env⟩
  | invoked head' rest' f' m' a hb' he' hl' hg' hq hs ha hc =>
    rw [hl] at hl'; simp only [Option.some.injEq] at hl'
    rw [← hl', hg] at hg'; exact absurd hg' (by simp)
  | deferred head' rest' f' m' hb' he' hl' hra hN h =>
    rw [hb] at hb'; simp only [Option.some.injEq, Prod.mk.injEq] at hb'
    obtain ⟨rfl, rfl⟩ := hb'
    rw [he] at he'; simp only [Option.some.injEq] at he'; subst he'
    rw [hl] at hl'; simp only [Option.some.injEq] at hl'; subst hl'
    refine ⟨h.opn.slots, fun hor => ?_⟩
    have := h.short
    rcases hor with hr | hle
    · rw [hra] at hr; exact absurd hr (by simp)
    · omega

/-- no blank line yet, or a head the library rejects: no slot ever runs -/
theorem not_accepted_run (hshape : slotEvents evs = true)
    (hna : ∀ head rest, breakOn CRLF2 (Scenario.fed evs) = some (head, rest) → C01.expect env head = none) :
    slots (Scenario.run env ⟨app regs path, evs⟩).log = [] := by
  obtain ⟨c, h⟩ := run_inv env regs path evs hshape
  rw [show Scenario.run env ⟨app regs path, evs⟩ = Sock.run env (app regs path) evs from rfl]
  generalize Sock.run env (app regs path) evs = s at h
  cases h with
  | hdr h hb' => exact h.opn.slots
  | rej head' rest' hb' he' hq hs => exact hs
  | unknown head' rest' f' hb' he' hl' hq hs hw => exact hs
  | failed head' rest' f' m' hb' he' hl' hg' hq hs hw => exact hs
  | invoked head' rest' f' m' a hb' he' hl' hg' hq hs ha hc =>
    rw [hna _ _ hb'] at he'; exact absurd he' (by simp)
  | deferred head' rest' f' m' hb' he' hl' hra hN h => exact h.opn.slots

end plain
/-! ### non-vacuity -/

/-- `"a"` registered to a usable slot that wants the whole body / that does not / to a missing slot -/
def regsAll : List Reg := [⟨[97], 0, true, true⟩]
def regsNow : List Reg := [⟨[97], 0, true, false⟩]
def regsBad : List Reg := [⟨[97], 0, false, true⟩]

/-- `POST /a HTTP/1.1\r\nContent-Length: 3\r\n\r` | `\nab` | `cX` | turn: the blank line and the
    3-byte body are both split between segments, one byte follows the body -/
def evsSplit : List Event := [.new, .feed C02.seg1, .feed C02.seg2, .feed C02.seg3, .turn]
/-- the head with its blank line | `abc` | the peer closes | turn -/
def evsHeadFirst : List Event := [.new, .turn, .feed (C02.seg1 ++ [10]), .feed [97, 98, 99], .peerClose, .turn]
/-- the body is never completed -/
def evsShort : List Event := [.new, .feed (C02.seg1 ++ [10, 97]), .turn, .feed [98], .peerClose, .turn]

def slotOrEv : Obs → Bool | .slot _ _ => true | .ev _ => true | .hp => true | .rcf => true | _ => false

example : slotEvents evsSplit = true ∧ slotEvents evsHeadFirst = true ∧ slotEvents evsShort = true := by decide
example : acceptedOf C02.envEx (Scenario.fed evsSplit) = true := by decide +kernel
example : (C02.req C02.envEx (Scenario.fed evsSplit)).map (fun r => (r.n, r.rest)) = some (3, [97, 98, 99, 88]) := by
  decide +kernel

/-- whole-body slot, body split across two segments: invoked once, with 3 readable bytes, while
    the third segment (event 3) is processed, at `readChannelFinished` -/
example : (Scenario.run C02.envEx ⟨app regsAll [97], evsSplit⟩).log.filter slotOrEv =
    [.ev 0, .ev 1, .ev 2, .hp, .ev 3, .rcf, .slot 0 3, .ev 4] := by decide +kernel
/-- a slot that does not wait: invoked at routing time with what is readable then (0 bytes when
    the segment ends with the blank line, 2 when two body bytes came with it) -/
example : (Scenario.run C02.envEx ⟨app regsNow [97], evsHeadFirst⟩).log.filter slotOrEv =
    [.ev 0, .ev 1, .ev 2, .hp, .slot 0 0, .ev 3, .rcf, .ev 4, .ev 5] := by decide +kernel
example : (Scenario.run C02.envEx ⟨app regsNow [97], evsSplit⟩).log.filter slotOrEv =
    [.ev 0, .ev 1, .ev 2, .hp, .slot 0 2, .ev 3, .rcf, .ev 4] := by decide +kernel
/-- truncated body: the whole-body slot never runs -/
example : slots (Scenario.run C02.envEx ⟨app regsAll [97], evsShort⟩).log = [] := by decide +kernel
/-- the prefix name `"ab"` and the re-registration: path `"a"` runs slot 3, never 0 or 1 -/
example : slots (Scenario.run C02.envEx ⟨app regsEx [97], evsSplit⟩).log = [(3, 2)] := by decide +kernel
/-- unknown path: 404; missing slot: 500 once the body is complete -/
example : statusOf (Obs.wire (Scenario.run C02.envEx ⟨app regsEx [98], evsSplit⟩).log) = some 404 := by
  decide +kernel
example : statusOf (Obs.wire (Scenario.run C02.envEx ⟨app regsBad [97], evsSplit⟩).log) = some 500 ∧
    Obs.wire (Scenario.run C02.envEx ⟨app regsBad [97], evsShort⟩).log = [] := by decide +kernel

/-- the predicate evaluated on concrete runs -/
example : holds regsAll [97] (acceptedOf C02.envEx (Scenario.fed evsSplit)) (C02.req C02.envEx (Scenario.fed evsSplit))
    (Scenario.run C02.envEx ⟨app regsAll [97], evsSplit⟩).log = true := by decide +kernel
/-- ... and it is not trivially true: the same history does not satisfy it for a registry in which
    another slot owns the path, nor does a history with a premature invocation -/
example : holds regsEx [97] true (C02.req C02.envEx (Scenario.fed evsSplit))
    (Scenario.run C02.envEx ⟨app regsAll [97], evsSplit⟩).log = false := by decide +kernel
example : holds regsAll [97] true (C02.req C02.envEx (Scenario.fed evsSplit)) [.hp, .slot 0 2, .rcf] = false := by
  decide +kernel
example : holds regsAll [97] true (C02.req C02.envEx (Scenario.fed evsSplit)) [.hp, .rcf, .slot 0 3, .slot 0 3] = false := by
  decide +kernel
example : holds regsAll [97] true (C02.req C02.envEx (Scenario.fed evsSplit)) [.hp, .rcf] = false := by
  decide +kernel
end Qhttp.C15
