import Qhttp.Model.SlotHandler
import Qhttp.Model.Http
import Qhttp.Props.C02
/-
  C15 — the slot handler invokes the right slot once, and only with the full body.
-/
namespace Qhttp.C15
open Qhttp SlotHandler

def slots (obs : List Obs) : List (Nat × Nat) :=
  obs.filterMap fun o => match o with | .slot i a => some (i, a) | _ => none

def statusOf (wire : Bytes) : Option Nat :=
  match Http.parse wire with
  | some m => (Http.statusLine m.start).map (·.code)
  | none => none

/-- `path` is the decoded request path without its leading slash; `r` describes the request
    (C02.req: declared length and what was sent after the blank line), `none` = no declared body.
    The slot registered under exactly that path (last registration wins) is the only one ever
    invoked, at most once; unknown path: 404; unusable registration: 500; a registration asking
    for the whole body is invoked only when that many bytes are readable, and exactly once when
    the whole body was delivered. -/
def holds (regs : List Reg) (path : QStr) (accepted : Bool) (r : Option C02.Req) (obs : List Obs) : Bool :=
  if !accepted then slots obs == [] else
  match lookup regs path with
  | none => slots obs == [] && statusOf (Obs.wire obs) == some 404
  | some m =>
    let complete := match r with | none => true | some rq => decide (rq.rest.length ≥ rq.n)
    -- an unusable registration is detected when the slot would be invoked
    if !m.good then slots obs == [] && (if !m.readAll || complete then statusOf (Obs.wire obs) == some 500 else true) else
    (slots obs).length ≤ 1 && (slots obs).all (fun e => e.1 == m.idx) &&
    (match r with
     | none => slots obs == [(m.idx, 0)] || (slots obs).length == 1
     | some rq =>
       (if m.readAll then (slots obs).all (fun e => e.2 ≥ rq.n) else true) &&
       (if !m.readAll || rq.rest.length ≥ rq.n then (slots obs).length == 1 else true))

/-! ## Theorems: dispatch (pure, no socket run) -/
/-- the entry used is registered under exactly the requested name, and no later registration
    carries that name: `QMap::insert` replaces -/
theorem lookup_exact {regs : List Reg} {path : QStr} {m : Reg} (h : lookup regs path = some m) :
    m.name = path ∧ ∃ pre post, regs = pre ++ m :: post ∧ ∀ r ∈ post, r.name ≠ path := by
  unfold lookup at h
  obtain ⟨hp, as, bs, he, hn⟩ := List.find?_eq_some_iff_append.mp h
  refine ⟨by simpa using hp, bs.reverse, as.reverse, ?_, ?_⟩
  · have := congrArg List.reverse he
    simpa using this
  · intro r hr
    have := hn r (by simpa using hr)
    simpa using this

theorem lookup_none_iff {regs : List Reg} {path : QStr} :
    lookup regs path = none ↔ ∀ r ∈ regs, r.name ≠ path := by
  unfold lookup
  simp

/-- the converse: the last registration under the name is the one found -/
theorem lookup_last (pre post : List Reg) (m : Reg) (h : ∀ r ∈ post, r.name ≠ m.name) :
    lookup (pre ++ m :: post) m.name = some m := by
  unfold lookup
  rw [List.find?_eq_some_iff_append]
  refine ⟨by simp, post.reverse, pre.reverse, by simp, ?_⟩
  intro r hr
  have := h r (by simpa using hr)
  simpa using this
theorem unknown_404 {regs : List Reg} {path : QStr} (h : lookup regs path = none) (s : Sock) :
    onHp regs path s = [.err 404 none] ∧ onRcf regs path s = [] := by
  unfold onHp onRcf; rw [h]; exact ⟨rfl, rfl⟩

theorem bad_500 (m : Reg) (s : Sock) (h : m.good = false) : invoke m s = [.err 500 none] := by
  unfold invoke; rw [h]; rfl

theorem good_invoke (m : Reg) (s : Sock) (h : m.good = true) :
    invoke m s = [.note (.slot m.idx (Sock.bytesAvailable s))] := by
  unfold invoke; rw [h]; rfl

/-- every reaction of the handler is one of: nothing, the invocation of the entry found, 404 -/
theorem onHp_cases (regs : List Reg) (path : QStr) (s : Sock) :
    (lookup regs path = none ∧ onHp regs path s = [.err 404 none]) ∨
    (∃ m, lookup regs path = some m ∧ (onHp regs path s = invoke m s ∨ onHp regs path s = [])) := by
  unfold onHp
  cases h : lookup regs path with
  | none => exact Or.inl ⟨rfl, rfl⟩
  | some m =>
    right; refine ⟨m, rfl, ?_⟩
    simp only; split
    · exact Or.inl rfl
    · exact Or.inr rfl

theorem onRcf_cases (regs : List Reg) (path : QStr) (s : Sock) :
    onRcf regs path s = [] ∨ (∃ m, lookup regs path = some m ∧ onRcf regs path s = invoke m s) := by
  unfold onRcf
  cases h : lookup regs path with
  | none => exact Or.inl rfl
  | some m =>
    simp only; split
    · exact Or.inr ⟨m, rfl, rfl⟩
    · exact Or.inl rfl

theorem invoke_slot {m : Reg} {s : Sock} {i a : Nat} (h : ApiOp.note (.slot i a) ∈ invoke m s) :
    i = m.idx ∧ a = Sock.bytesAvailable s ∧ m.good = true := by
  unfold invoke at h
  split at h
  · rename_i hg
    simp at h
    exact ⟨h.1, h.2, hg⟩
  · simp at h

/-- a slot observation produced by either reaction names the entry registered (last) under
    exactly the requested path, which is usable, and carries `bytesAvailable()` of that moment -/
theorem never_other_slot {regs : List Reg} {path : QStr} {s : Sock} {i a : Nat}
    (h : ApiOp.note (.slot i a) ∈ onHp regs path s ∨ ApiOp.note (.slot i a) ∈ onRcf regs path s) :
    ∃ m, lookup regs path = some m ∧ i = m.idx ∧ m.name = path ∧ m.good = true ∧
      a = Sock.bytesAvailable s := by
  rcases h with h | h
  · rcases onHp_cases regs path s with ⟨_, e⟩ | ⟨m, hm, e | e⟩
    · rw [e] at h; simp at h
    · rw [e] at h
      obtain ⟨h1, h2, h3⟩ := invoke_slot h
      exact ⟨m, hm, h1, (lookup_exact hm).1, h3, h2⟩
    · rw [e] at h; simp at h
  · rcases onRcf_cases regs path s with e | ⟨m, hm, e⟩
    · rw [e] at h; simp at h
    · rw [e] at h
      obtain ⟨h1, h2, h3⟩ := invoke_slot h
      exact ⟨m, hm, h1, (lookup_exact hm).1, h3, h2⟩

/-! non-vacuity: names "a", "ab" (a prefix), "" and a re-registration of "a" -/
def regsEx : List Reg :=
  [⟨[97], 0, true, true⟩, ⟨[97, 98], 1, true, false⟩, ⟨[], 2, false, true⟩, ⟨[97], 3, true, false⟩]

example : (lookup regsEx [97]).map (·.idx) = some 3 := by decide
example : (lookup regsEx [97, 98]).map (·.idx) = some 1 := by decide
example : (lookup regsEx []).map (·.idx) = some 2 := by decide
example : lookup regsEx [97, 98, 99] = none := by decide
example : lookup regsEx [98] = none := by decide

end Qhttp.C15
