import Qhttp.Model.SlotHandler
import Qhttp.Model.Http
import Qhttp.Props.C02
/-
  C15 — the slot handler invokes the right slot once, and only with the full body.
-/
namespace Qhttp.C15
open Qhttp SlotHandler

def slots (obs : List Obs) : List (Nat × Nat) :=
  obs.filterMap fun o => match o with | .slot i a => some (i, a) | _ => none

def statusOf (wire : Bytes) : Option Nat :=
  match Http.parse wire with
  | some m => (Http.statusLine m.start).map (·.code)
  | none => none

/-- `path` is the decoded request path without its leading slash; `r` describes the request
    (C02.req: declared length and what was sent after the blank line), `none` = no declared body.
    The slot registered under exactly that path (last registration wins) is the only one ever
    invoked, at most once; unknown path: 404; unusable registration: 500; a registration asking
    for the whole body is invoked only when that many bytes are readable, and exactly once when
    the whole body was delivered. -/
def holds (regs : List Reg) (path : QStr) (accepted : Bool) (r : Option C02.Req) (obs : List Obs) : Bool :=
  if !accepted then slots obs == [] else
  match lookup regs path with
  | none => slots obs == [] && statusOf (Obs.wire obs) == some 404
  | some m =>
    let complete := match r with | none => true | some rq => decide (rq.rest.length ≥ rq.n)
    -- an unusable registration is detected when the slot would be invoked
    if !m.good then slots obs == [] && (if !m.readAll || complete then statusOf (Obs.wire obs) == some 500 else true) else
    (slots obs).length ≤ 1 && (slots obs).all (fun e => e.1 == m.idx) &&
    (match r with
     | none => slots obs == [(m.idx, 0)] || (slots obs).length == 1
     | some rq =>
       (if m.readAll then (slots obs).all (fun e => e.2 ≥ rq.n) else true) &&
       (if !m.readAll || rq.rest.length ≥ rq.n then (slots obs).length == 1 else true))

end Qhttp.C15
