import Qhttp.Model.Http
import Qhttp.Lemmas.C19Step
import Qhttp.Lemmas.C19After
/-
  C19 — one request per connection; nothing is sent or routed after the close.
-/
namespace Qhttp.C19
open Qhttp

def isRt : Obs → Bool | .rt _ _ => true | _ => false

/-- after the library closed the transport: no byte reaches the wire; once every pending byte is
    acknowledged the client sees the shutdown (`dc`) -/
def afterClose (obs : List Obs) : Bool :=
  let tail := obs.dropWhile (fun o => !Obs.isTc o)
  Obs.countP Obs.isW tail == 0

def ackOf (evs : List Event) (k : Nat) (unacked : Nat) : Nat :=
  match evs[k]? with
  | some (.ack n) => min n unacked
  | some .ackAll => unacked
  | _ => 0

/-- bytes written and not acknowledged at the end of the history -/
def pending (evs : List Event) : List Obs → (written acked : Nat) → Nat
  | [], written, acked => written - acked
  | .ev k :: l, written, acked => pending evs l written (acked + ackOf evs k (written - acked))
  | .w b :: l, written, acked => pending evs l (written + b.length) acked
  | _ :: l, written, acked => pending evs l written acked

def holds (sc : Scenario) (obs : List Obs) : Bool :=
  Obs.countP Obs.isHp obs ≤ 1 && Obs.countP isRt obs ≤ 1 && afterClose obs &&
  -- the transport is closed at most once; the shutdown is observed once, and it is observed
  -- whenever the library closed the transport and every written byte has been acknowledged
  Obs.countP Obs.isTc obs ≤ 1 && Obs.countP Obs.isDc obs ≤ 1 &&
  (if Obs.countP Obs.isTc obs == 1 && pending sc.events obs 0 0 == 0
   then Obs.countP Obs.isDc obs == 1 else true)

end Qhttp.C19

/-! ## Theorems -/

namespace Qhttp.C19
open Qhttp

/-- observations an application `note` may record without touching what C19 counts
    (`ev` markers and `w` feed the `pending` walk, the others are counted) -/
def quietObs : Obs → Bool
  | .hp => false | .rt _ _ => false | .w _ => false | .tc => false | .dc => false | .ev _ => false
  | _ => true

/-- an API call that records nothing C19 counts: every call except such a `note` -/
def quietOp : ApiOp → Bool
  | .note o => quietObs o
  | _ => true

def isRtNote : ApiOp → Bool
  | .note (.rt _ _) => true
  | _ => false

/-- what the `headersParsed` slot may do: anything quiet, and record a routing -/
def hpOp (op : ApiOp) : Bool := isRtNote op || quietOp op

/-- the application class: arbitrary reactions (functions of the socket state, any API calls) to
    every signal; the only recorded routing is at most one `rt` per `headersParsed` (Server glue) -/
structure AppOK (app : App) : Prop where
  hp  : ∀ s, (app.onHp s).all hpOp = true ∧ ((app.onHp s).filter isRtNote).length ≤ 1
  rr  : ∀ s, (app.onRr s).all quietOp = true
  rcf : ∀ s, (app.onRcf s).all quietOp = true
  bw  : ∀ s, (app.onBw s).all quietOp = true
  dc  : ∀ s, (app.onDc s).all quietOp = true

/-- API calls from idle context: anything but recording a counted observation -/
def evOK : Event → Bool
  | .api op => quietOp op
  | _ => true

/-- "nothing is routed after the close": no headers-parsed notification and no routing entry
    follows the point where the library shut the transport -/
def routedAfterClose (obs : List Obs) : Bool :=
  let tail := obs.dropWhile (fun o => !Obs.isTc o)
  tail.any fun o => Obs.isHp o || isRt o

/-- the predicate the driver evaluates: `holds` and nothing routed after the close -/
def holdsStrict (sc : Scenario) (obs : List Obs) : Bool := holds sc obs && !routedAfterClose obs

/-- the application's own record "by now I have closed the HTTP socket" (`mark` in the scenario
    language, issued right after `close`, `writeError`, `writeRedirect` or `writeJson`) -/
def isMark : Obs → Bool | .misc 50 _ => true | _ => false

/-- "after the application has closed the HTTP socket no further byte is written": no byte
    reaches the wire after the application's first such record -/
def wroteAfterAppClose (obs : List Obs) : Bool :=
  (obs.dropWhile (fun o => !isMark o)).any Obs.isW

/-- "the client observes the connection being shut after the pending response bytes": once the
    application has closed the HTTP socket, the library has closed the transport (`holds` then demands the
    shutdown to be observed as soon as every written byte is acknowledged) -/
def appCloseShuts (obs : List Obs) : Bool :=
  !obs.any isMark || Obs.countP Obs.isTc obs == 1

/-- the predicate the driver evaluates on scenarios carrying `mark`s -/
def holdsMarked (sc : Scenario) (obs : List Obs) : Bool :=
  holdsStrict sc obs && !wroteAfterAppClose obs && appCloseShuts obs

/-! ### the definitions above and the ones the lemmas are stated with coincide -/

theorem isRt_eq : isRt = C19L.isRt := by
  funext o; cases o <;> rfl

theorem afterClose_eq (l : List Obs) : afterClose l = C19L.aftClose l := rfl

theorem ackOf_eq (evs : List Event) : ackOf evs = C19L.ackAt evs := by
  funext k u
  unfold ackOf C19L.ackAt
  cases evs[k]? with
  | none => rfl
  | some e => cases e <;> rfl

/-- `pending` is the difference of the (written, acked) walk -/
theorem pending_eq (evs : List Event) (l : List Obs) (w a : Nat) :
    pending evs l w a
      = (C19L.trkFrom (ackOf evs) l (w, a)).1 - (C19L.trkFrom (ackOf evs) l (w, a)).2 := by
  induction l generalizing w a with
  | nil => rfl
  | cons o l ih =>
    cases o <;> simp only [pending, C19L.trkFrom, List.foldl_cons, C19L.trk1] <;> exact ih _ _

theorem quietObs_eq : quietObs = C19L.quiet := by
  funext o; cases o <;> rfl

theorem quietOp_eq : quietOp = C19L.qOp := by
  funext op; cases op <;> simp [quietOp, C19L.qOp, quietObs_eq]

theorem isRtNote_eq : isRtNote = C19L.rtNote := by
  funext op
  cases op with
  | note o => cases o <;> rfl
  | _ => rfl

theorem hpOp_eq : hpOp = C19L.hOp := by
  funext op; simp [hpOp, C19L.hOp, isRtNote_eq, quietOp_eq]

theorem evOK_eq : evOK = C19L.evOK := by
  funext e; cases e <;> simp [evOK, C19L.evOK, quietOp_eq]

theorem AppOK.toL {app : App} (h : AppOK app) : C19L.AppOK app where
  hp := fun s => by have := h.hp s; rwa [hpOp_eq, isRtNote_eq] at this
  rr := fun s => by have := h.rr s; rwa [quietOp_eq] at this
  rcf := fun s => by have := h.rcf s; rwa [quietOp_eq] at this
  bw := fun s => by have := h.bw s; rwa [quietOp_eq] at this
  dc := fun s => by have := h.dc s; rwa [quietOp_eq] at this

/-- `holds`, spelled out -/
theorem holds_iff (sc : Scenario) (obs : List Obs) :
    holds sc obs = true ↔
      Obs.countP Obs.isHp obs ≤ 1 ∧ Obs.countP isRt obs ≤ 1 ∧ afterClose obs = true ∧
      Obs.countP Obs.isTc obs ≤ 1 ∧ Obs.countP Obs.isDc obs ≤ 1 ∧
      (Obs.countP Obs.isTc obs = 1 → pending sc.events obs 0 0 = 0 →
        Obs.countP Obs.isDc obs = 1) := by
  unfold holds
  simp only [Bool.and_eq_true, decide_eq_true_eq, beq_iff_eq]
  constructor
  · rintro ⟨⟨⟨⟨⟨h1, h2⟩, h3⟩, h4⟩, h5⟩, h6⟩
    refine ⟨h1, h2, h3, h4, h5, fun a b => ?_⟩
    simpa [a, b] using h6
  · rintro ⟨h1, h2, h3, h4, h5, h6⟩
    refine ⟨⟨⟨⟨⟨h1, h2⟩, h3⟩, h4⟩, h5⟩, ?_⟩
    split
    · rename_i hc; exact beq_iff_eq.mpr (h6 hc.1 hc.2)
    · rfl

/-- every environment, every event list, every application of the class -/
theorem holds_run (env : Env) (app : App) (evs : List Event)
    (happ : AppOK app) (hevs : evs.all evOK = true) :
    holds ⟨app, evs⟩ (Scenario.run env ⟨app, evs⟩).log = true := by
  rw [evOK_eq] at hevs
  have h := C19L.KS_final (C19L.run_KS (env := env) happ.toL evs hevs)
  rw [holds_iff]
  simp only [Scenario.run]
  rw [isRt_eq, afterClose_eq, pending_eq, ackOf_eq]
  exact h

/-! ### non-vacuity -/

/-- Bool check on a scripted application -/
def scriptOK (sc : Script) : Bool :=
  sc.onHp.all hpOp && decide ((sc.onHp.filter isRtNote).length ≤ 1) &&
  sc.onRr.all quietOp && sc.onRcf.all quietOp && sc.onBw.all quietOp && sc.onDc.all quietOp

theorem Script.appOK (sc : Script) (h : scriptOK sc = true) : AppOK sc.app := by
  simp only [scriptOK, Bool.and_eq_true, decide_eq_true_eq] at h
  obtain ⟨⟨⟨⟨⟨h1, h2⟩, h3⟩, h4⟩, h5⟩, h6⟩ := h
  exact ⟨fun _ => ⟨h1, h2⟩, fun _ => h3, fun _ => h4, fun _ => h5, fun _ => h6⟩

def exEnv : Env := { url := fun p => some (p, []), errPage := fun _ _ => [60, 62] }

/-- the Server glue: route on the parsed path, answer, close; chatty but quiet elsewhere -/
def exApp : App :=
  { onHp := fun s => [.note (.rt 1 s.path), .write (lit ['h','e','l','l','o']), .close],
    onRr := fun _ => [.readAll],
    onBw := fun _ => [.avail],
    onDc := fun _ => [.write (lit ['h','e','l','l','o']), .close] }

theorem exApp_ok : AppOK exApp :=
  ⟨fun _ => by simp [exApp, hpOp, isRtNote, quietOp, List.filter], fun _ => rfl, fun _ => rfl,
   fun _ => rfl, fun _ => rfl⟩

def exScript : Script :=
  { onHp := [.note (.rt 1 [47, 97]), .write (lit ['h','e','l','l','o']), .close], onDc := [.close] }

example : AppOK exScript.app := Script.appOK _ (by decide)

/-- two pipelined requests cut inside the first blank line, then late API calls, late input,
    a partial acknowledgement, the peer's close and the final acknowledgement -/
def exEvents : List Event :=
  [.new, .feed (lit ['G','E','T',' ','/','a',' ','H','T','T','P','/','1','.','1','\r','\n','\r']), .feed (lit ['\n','G','E','T',' ','/','b',' ','H','T','T','P','/','1','.','1','\r','\n','\r','\n']),
   .api (.write (lit ['a','f','t','e','r'])), .api .wh, .api (.err 500 none),
   .feed (lit ['G','E','T',' ','/','l','a','t','e',' ','H','T','T','P','/','1','.','1','\r','\n','\r','\n']), .ack 5, .peerClose, .ackAll]

example : exEvents.all evOK = true := by decide

example : holds ⟨exApp, exEvents⟩ (Scenario.run exEnv ⟨exApp, exEvents⟩).log = true := by
  decide +kernel

/-- the run above: one request notified, one routing, one close, one shutdown — and the second
    request, the late calls and the late input leave no trace -/
example :
    let l := (Scenario.run exEnv ⟨exApp, exEvents⟩).log
    Obs.countP Obs.isHp l = 1 ∧ Obs.countP isRt l = 1 ∧ Obs.countP Obs.isTc l = 1 ∧
    Obs.countP Obs.isDc l = 1 ∧ Obs.countP Obs.isW l = 2 ∧ pending exEvents l 0 0 = 0 := by
  decide +kernel

end Qhttp.C19

/-! ## Nothing is routed after the close: `holdsStrict`

  The statement asked for,

      theorem holdsStrict_run (env) (app) (evs) (happ : AppOK app) (hevs : evs.all evOK = true) :
          holdsStrict ⟨app, evs⟩ (Scenario.run env ⟨app, evs⟩).log = true

  is FALSE for the class `AppOK`: `AppOK` lets the `headersParsed` slot record its one routing
  anywhere in its call list, also after a `close` (`cxApp` below: `[.close, .note (.rt 1 path)]`
  gives the history `ev 0, ev 1, hp, tc, dc, rt` — `not_holdsStrict_run_AppOK`).  It is proved for
  the class `AppOKStrict`: `AppOK`, and the routing note, if any, is the FIRST call of the slot
  (Server glue: `route` is entered before the handler touches the socket).
-/

namespace Qhttp.C19
open Qhttp

theorem routedAfterClose_eq (l : List Obs) : routedAfterClose l = C19L.rac l := by
  unfold routedAfterClose C19L.rac
  rw [isRt_eq]; rfl

/-- `AppOK`, and in the `headersParsed` slot every call after the first is quiet: the routing
    is recorded before anything else is done with the socket -/
structure AppOKStrict (app : App) : Prop where
  ok : AppOK app
  first : ∀ s, ((app.onHp s).drop 1).all quietOp = true

theorem AppOKStrict.hpFirst {app : App} (h : AppOKStrict app) (s : Sock) :
    C19L.hpFirst (app.onHp s) = true := by
  have h1 := (h.ok.hp s).1
  have h2 := h.first s
  rw [hpOp_eq] at h1
  rw [quietOp_eq] at h2
  cases hops : app.onHp s with
  | nil => rfl
  | cons op rest =>
    rw [hops] at h1 h2
    simp only [List.all_cons, Bool.and_eq_true] at h1
    simp only [List.drop_succ_cons, List.drop_zero] at h2
    simp [C19L.hpFirst, h1.1, h2]

/-- the invariant behind `holdsStrict`, at the end of every run: no `hp`/`rt` after the first
    `tc`, and a socket still reading the request head has not shut its transport -/
theorem run_after (env : Env) (app : App) (evs : List Event)
    (happ : AppOKStrict app) (hevs : evs.all evOK = true) :
    routedAfterClose (Scenario.run env ⟨app, evs⟩).log = false ∧
    ((Scenario.run env ⟨app, evs⟩).rs = .headers →
      (Scenario.run env ⟨app, evs⟩).log.any Obs.isTc = false) := by
  rw [evOK_eq] at hevs
  have h := C19L.run_A (env := env) happ.ok.toL.toQ happ.hpFirst evs hevs
  rw [routedAfterClose_eq]
  exact h

/-- every environment, every event list, every application of the strict class: the predicate
    the driver evaluates holds on the model's history -/
theorem holdsStrict_run (env : Env) (app : App) (evs : List Event)
    (happ : AppOKStrict app) (hevs : evs.all evOK = true) :
    holdsStrict ⟨app, evs⟩ (Scenario.run env ⟨app, evs⟩).log = true := by
  unfold holdsStrict
  rw [holds_run env app evs happ.ok hevs, (run_after env app evs happ hevs).1]
  rfl

/-! ### what `routedAfterClose` means -/

/-- `routedAfterClose l = false` iff no `hp` and no `rt` follows any `tc` of the history -/
theorem routedAfterClose_false_iff (l : List Obs) :
    routedAfterClose l = false ↔
      ∀ pre post, l = pre ++ Obs.tc :: post → ∀ o ∈ post, Obs.isHp o = false ∧ isRt o = false := by
  unfold routedAfterClose
  induction l with
  | nil =>
    constructor
    · intro _ pre post h; cases pre <;> cases h
    · intro _; rfl
  | cons x l ih =>
    by_cases hx : Obs.isTc x = true
    · have hxe : x = .tc := by cases x <;> simp [Obs.isTc] at hx; rfl
      subst hxe
      simp only [List.dropWhile_cons, Obs.isTc, Bool.not_true, Bool.false_eq_true, ↓reduceIte]
      constructor
      · intro h pre post hl o ho
        have hmem : o ∈ Obs.tc :: l := by
          rw [hl]; exact List.mem_append_right _ (List.mem_cons_of_mem _ ho)
        have := (List.any_eq_false.mp h) o hmem
        simpa using this
      · intro h
        have := h [] l rfl
        have hl : (l.any fun o => Obs.isHp o || isRt o) = false := by
          rw [List.any_eq_false]
          intro o ho
          have := this o ho
          simp [this.1, this.2]
        rw [List.any_cons, hl]; rfl
    · have hx' : Obs.isTc x = false := by simpa using hx
      simp only [List.dropWhile_cons, hx', Bool.not_false, ↓reduceIte]
      rw [ih]
      constructor
      · intro h pre post hl
        cases pre with
        | nil =>
          simp only [List.nil_append, List.cons.injEq] at hl
          rw [hl.1] at hx'; cases hx'
        | cons y pre =>
          simp only [List.cons_append, List.cons.injEq] at hl
          exact h pre post hl.2
      · intro h pre post hl
        exact h (x :: pre) post (by rw [hl]; rfl)

/-- `holdsStrict`, spelled out -/
theorem holdsStrict_iff (sc : Scenario) (obs : List Obs) :
    holdsStrict sc obs = true ↔
      holds sc obs = true ∧
      ∀ pre post, obs = pre ++ Obs.tc :: post →
        ∀ o ∈ post, Obs.isHp o = false ∧ isRt o = false := by
  unfold holdsStrict
  rw [Bool.and_eq_true, ← routedAfterClose_false_iff]
  simp

/-! ### the class `AppOK` is too wide for `holdsStrict` -/

/-- allowed by `AppOK`: close first, record the routing afterwards -/
def cxApp : App := { onHp := fun s => [.close, .note (.rt 1 s.path)] }

theorem cxApp_ok : AppOK cxApp :=
  ⟨fun _ => by simp [cxApp, hpOp, isRtNote, quietOp, List.filter], fun _ => rfl, fun _ => rfl,
   fun _ => rfl, fun _ => rfl⟩

def cxEvents : List Event :=
  [.new, .feed (lit ['G','E','T',' ','/','a',' ','H','T','T','P','/','1','.','1','\r','\n','\r','\n'])]

/-- its history: the routing is recorded after the transport was shut -/
example : (Scenario.run exEnv ⟨cxApp, cxEvents⟩).log
    = [.ev 0, .ev 1, .hp, .tc, .dc, .rt 1 [47, 97]] := by decide +kernel

theorem cx_holds : holds ⟨cxApp, cxEvents⟩ (Scenario.run exEnv ⟨cxApp, cxEvents⟩).log = true := by
  decide +kernel

theorem cx_not_holdsStrict :
    holdsStrict ⟨cxApp, cxEvents⟩ (Scenario.run exEnv ⟨cxApp, cxEvents⟩).log = false := by
  decide +kernel

/-- `holdsStrict_run` cannot be had for `AppOK` -/
theorem not_holdsStrict_run_AppOK :
    ¬ ∀ (env : Env) (app : App) (evs : List Event), AppOK app → evs.all evOK = true →
        holdsStrict ⟨app, evs⟩ (Scenario.run env ⟨app, evs⟩).log = true := by
  intro h
  have := h exEnv cxApp cxEvents cxApp_ok (by decide)
  rw [cx_not_holdsStrict] at this
  cases this

/-! ### non-vacuity -/

/-- Bool check on a scripted application -/
def scriptStrictOK (sc : Script) : Bool := scriptOK sc && (sc.onHp.drop 1).all quietOp

theorem Script.appOKStrict (sc : Script) (h : scriptStrictOK sc = true) : AppOKStrict sc.app := by
  simp only [scriptStrictOK, Bool.and_eq_true] at h
  exact ⟨Script.appOK sc h.1, fun _ => h.2⟩

example : AppOKStrict exScript.app := Script.appOKStrict _ (by decide)

/-- the Server glue of `exApp` (route on the parsed path first, then answer and close) -/
theorem exApp_strict : AppOKStrict exApp := ⟨exApp_ok, fun _ => rfl⟩

/-- two pipelined requests, late API calls, late input: the second request and the late input
    are neither notified nor routed -/
example : holdsStrict ⟨exApp, exEvents⟩ (Scenario.run exEnv ⟨exApp, exEvents⟩).log = true := by
  decide +kernel

example : (Scenario.run exEnv ⟨exApp, exEvents⟩).log.any Obs.isTc = true := by decide +kernel

/-- the same history with the second pipelined request handed to the application after the
    close (what a library serving a second request on the connection would produce) -/
def tamperedLog : List Obs :=
  (Scenario.run exEnv ⟨exApp, exEvents⟩).log ++ [.hp, .rt 1 [47, 98]]

example : routedAfterClose (Scenario.run exEnv ⟨exApp, exEvents⟩).log = false := by decide +kernel
example : routedAfterClose tamperedLog = true := by decide +kernel
example : holdsStrict ⟨exApp, exEvents⟩ tamperedLog = false := by decide +kernel
/-- a routing entry alone after the close is caught by `routedAfterClose` only when it is the
    first one (`holds` counts `rt` but does not place it) -/
example : routedAfterClose [.ev 0, .hp, .tc, .dc, .rt 1 [47, 97]] = true := by decide

end Qhttp.C19
