import Qhttp.Model.Http
import Qhttp.Lemmas.C19Step
import Qhttp.Lemmas.C19After
import Qhttp.Lemmas.C19MarkRun
/-
  C19 — one request per connection; nothing is sent or routed after the close.
-/
namespace Qhttp.C19
open Qhttp

def isRt : Obs → Bool | .rt _ _ => true | _ => false

/-- after the library closed the transport: no byte reaches the wire; once every pending byte is
    acknowledged the client sees the shutdown (`dc`) -/
def afterClose (obs : List Obs) : Bool :=
  let tail := obs.dropWhile (fun o => !Obs.isTc o)
  Obs.countP Obs.isW tail == 0

def ackOf (evs : List Event) (k : Nat) (unacked : Nat) : Nat :=
  match evs[k]? with
  | some (.ack n) => min n unacked
  | some .ackAll => unacked
  | _ => 0

/-- bytes written and not acknowledged at the end of the history -/
def pending (evs : List Event) : List Obs → (written acked : Nat) → Nat
  | [], written, acked => written - acked
  | .ev k :: l, written, acked => pending evs l written (acked + ackOf evs k (written - acked))
  | .w b :: l, written, acked => pending evs l (written + b.length) acked
  | _ :: l, written, acked => pending evs l written acked

def holds (sc : Scenario) (obs : List Obs) : Bool :=
  Obs.countP Obs.isHp obs ≤ 1 && Obs.countP isRt obs ≤ 1 && afterClose obs &&
  -- the transport is closed at most once; the shutdown is observed once, and it is observed
  -- whenever the library closed the transport and every written byte has been acknowledged
  Obs.countP Obs.isTc obs ≤ 1 && Obs.countP Obs.isDc obs ≤ 1 &&
  (if Obs.countP Obs.isTc obs == 1 && pending sc.events obs 0 0 == 0
   then Obs.countP Obs.isDc obs == 1 else true)

end Qhttp.C19

/-! ## Theorems -/

namespace Qhttp.C19
open Qhttp

/-- observations an application `note` may record without touching what C19 counts
    (`ev` markers and `w` feed the `pending` walk, the others are counted) -/
def quietObs : Obs → Bool
  | .hp => false | .rt _ _ => false | .w _ => false | .tc => false | .dc => false | .ev _ => false
  | _ => true

/-- an API call that records nothing C19 counts: every call except such a `note` -/
def quietOp : ApiOp → Bool
  | .note o => quietObs o
  | _ => true

def isRtNote : ApiOp → Bool
  | .note (.rt _ _) => true
  | _ => false

/-- what the `headersParsed` slot may do: anything quiet, and record a routing -/
def hpOp (op : ApiOp) : Bool := isRtNote op || quietOp op

/-- the application class: arbitrary reactions (functions of the socket state, any API calls) to
    every signal; the only recorded routing is at most one `rt` per `headersParsed` (Server glue) -/
structure AppOK (app : App) : Prop where
  hp  : ∀ s, (app.onHp s).all hpOp = true ∧ ((app.onHp s).filter isRtNote).length ≤ 1
  rr  : ∀ s, (app.onRr s).all quietOp = true
  rcf : ∀ s, (app.onRcf s).all quietOp = true
  bw  : ∀ s, (app.onBw s).all quietOp = true
  dc  : ∀ s, (app.onDc s).all quietOp = true

/-- API calls from idle context: anything but recording a counted observation -/
def evOK : Event → Bool
  | .api op => quietOp op
  | _ => true

/-- "nothing is routed after the close": no headers-parsed notification and no routing entry
    follows the point where the library shut the transport -/
def routedAfterClose (obs : List Obs) : Bool :=
  let tail := obs.dropWhile (fun o => !Obs.isTc o)
  tail.any fun o => Obs.isHp o || isRt o

/-- the predicate the driver evaluates: `holds` and nothing routed after the close -/
def holdsStrict (sc : Scenario) (obs : List Obs) : Bool := holds sc obs && !routedAfterClose obs

/-- the application's own record "by now I have closed the HTTP socket" (`mark` in the scenario
    language, issued right after `close`, `writeError`, `writeRedirect` or `writeJson`) -/
def isMark : Obs → Bool | .misc 50 _ => true | _ => false

/-- "after the application has closed the HTTP socket no further byte is written": no byte
    reaches the wire after the application's first such record -/
def wroteAfterAppClose (obs : List Obs) : Bool :=
  (obs.dropWhile (fun o => !isMark o)).any Obs.isW

/-- "the client observes the connection being shut after the pending response bytes": once the
    application has closed the HTTP socket, the library has closed the transport (`holds` then demands the
    shutdown to be observed as soon as every written byte is acknowledged) -/
def appCloseShuts (obs : List Obs) : Bool :=
  !obs.any isMark || Obs.countP Obs.isTc obs == 1

/-- the predicate the driver evaluates on scenarios carrying `mark`s -/
def holdsMarked (sc : Scenario) (obs : List Obs) : Bool :=
  holdsStrict sc obs && !wroteAfterAppClose obs && appCloseShuts obs

/-! ### the definitions above and the ones the lemmas are stated with coincide -/

theorem isRt_eq : isRt = C19L.isRt := by
  funext o; cases o <;> rfl

theorem afterClose_eq (l : List Obs) : afterClose l = C19L.aftClose l := rfl

theorem ackOf_eq (evs : List Event) : ackOf evs = C19L.ackAt evs := by
  funext k u
  unfold ackOf C19L.ackAt
  cases evs[k]? with
  | none => rfl
  | some e => cases e <;> rfl

/-- `pending` is the difference of the (written, acked) walk -/
theorem pending_eq (evs : List Event) (l : List Obs) (w a : Nat) :
    pending evs l w a
      = (C19L.trkFrom (ackOf evs) l (w, a)).1 - (C19L.trkFrom (ackOf evs) l (w, a)).2 := by
  induction l generalizing w a with
  | nil => rfl
  | cons o l ih =>
    cases o <;> simp only [pending, C19L.trkFrom, List.foldl_cons, C19L.trk1] <;> exact ih _ _

theorem quietObs_eq : quietObs = C19L.quiet := by
  funext o; cases o <;> rfl

theorem quietOp_eq : quietOp = C19L.qOp := by
  funext op; cases op <;> simp [quietOp, C19L.qOp, quietObs_eq]

theorem isRtNote_eq : isRtNote = C19L.rtNote := by
  funext op
  cases op with
  | note o => cases o <;> rfl
  | _ => rfl

theorem hpOp_eq : hpOp = C19L.hOp := by
  funext op; simp [hpOp, C19L.hOp, isRtNote_eq, quietOp_eq]

theorem evOK_eq : evOK = C19L.evOK := by
  funext e; cases e <;> simp [evOK, C19L.evOK, quietOp_eq]

theorem AppOK.toL {app : App} (h : AppOK app) : C19L.AppOK app where
  hp := fun s => by have := h.hp s; rwa [hpOp_eq, isRtNote_eq] at this
  rr := fun s => by have := h.rr s; rwa [quietOp_eq] at this
  rcf := fun s => by have := h.rcf s; rwa [quietOp_eq] at this
  bw := fun s => by have := h.bw s; rwa [quietOp_eq] at this
  dc := fun s => by have := h.dc s; rwa [quietOp_eq] at this

/-- `holds`, spelled out -/
theorem holds_iff (sc : Scenario) (obs : List Obs) :
    holds sc obs = true ↔
      Obs.countP Obs.isHp obs ≤ 1 ∧ Obs.countP isRt obs ≤ 1 ∧ afterClose obs = true ∧
      Obs.countP Obs.isTc obs ≤ 1 ∧ Obs.countP Obs.isDc obs ≤ 1 ∧
      (Obs.countP Obs.isTc obs = 1 → pending sc.events obs 0 0 = 0 →
        Obs.countP Obs.isDc obs = 1) := by
  unfold holds
  simp only [Bool.and_eq_true, decide_eq_true_eq, beq_iff_eq]
  constructor
  · rintro ⟨⟨⟨⟨⟨h1, h2⟩, h3⟩, h4⟩, h5⟩, h6⟩
    refine ⟨h1, h2, h3, h4, h5, fun a b => ?_⟩
    simpa [a, b] using h6
  · rintro ⟨h1, h2, h3, h4, h5, h6⟩
    refine ⟨⟨⟨⟨⟨h1, h2⟩, h3⟩, h4⟩, h5⟩, ?_⟩
    split
    · rename_i hc; exact beq_iff_eq.mpr (h6 hc.1 hc.2)
    · rfl

/-- every environment, every event list, every application of the class -/
theorem holds_run (env : Env) (app : App) (evs : List Event)
    (happ : AppOK app) (hevs : evs.all evOK = true) :
    holds ⟨app, evs⟩ (Scenario.run env ⟨app, evs⟩).log = true := by
  rw [evOK_eq] at hevs
  have h := C19L.KS_final (C19L.run_KS (env := env) happ.toL evs hevs)
  rw [holds_iff]
  simp only [Scenario.run]
  rw [isRt_eq, afterClose_eq, pending_eq, ackOf_eq]
  exact h

/-! ### non-vacuity -/

/-- Bool check on a scripted application -/
def scriptOK (sc : Script) : Bool :=
  sc.onHp.all hpOp && decide ((sc.onHp.filter isRtNote).length ≤ 1) &&
  sc.onRr.all quietOp && sc.onRcf.all quietOp && sc.onBw.all quietOp && sc.onDc.all quietOp

theorem Script.appOK (sc : Script) (h : scriptOK sc = true) : AppOK sc.app := by
  simp only [scriptOK, Bool.and_eq_true, decide_eq_true_eq] at h
  obtain ⟨⟨⟨⟨⟨h1, h2⟩, h3⟩, h4⟩, h5⟩, h6⟩ := h
  exact ⟨fun _ => ⟨h1, h2⟩, fun _ => h3, fun _ => h4, fun _ => h5, fun _ => h6⟩

def exEnv : Env := { url := fun p => some (p, []), errPage := fun _ _ => [60, 62] }

/-- the Server glue: route on the parsed path, answer, close; chatty but quiet elsewhere -/
def exApp : App :=
  { onHp := fun s => [.note (.rt 1 s.path), .write (lit ['h','e','l','l','o']), .close],
    onRr := fun _ => [.readAll],
    onBw := fun _ => [.avail],
    onDc := fun _ => [.write (lit ['h','e','l','l','o']), .close] }

theorem exApp_ok : AppOK exApp :=
  ⟨fun _ => by simp [exApp, hpOp, isRtNote, quietOp, List.filter], fun _ => rfl, fun _ => rfl,
   fun _ => rfl, fun _ => rfl⟩

def exScript : Script :=
  { onHp := [.note (.rt 1 [47, 97]), .write (lit ['h','e','l','l','o']), .close], onDc := [.close] }

example : AppOK exScript.app := Script.appOK _ (by decide)

/-- two pipelined requests cut inside the first blank line, then late API calls, late input,
    a partial acknowledgement, the peer's close and the final acknowledgement -/
def exEvents : List Event :=
  [.new, .feed (lit ['G','E','T',' ','/','a',' ','H','T','T','P','/','1','.','1','\r','\n','\r']), .feed (lit ['\n','G','E','T',' ','/','b',' ','H','T','T','P','/','1','.','1','\r','\n','\r','\n']),
   .api (.write (lit ['a','f','t','e','r'])), .api .wh, .api (.err 500 none),
   .feed (lit ['G','E','T',' ','/','l','a','t','e',' ','H','T','T','P','/','1','.','1','\r','\n','\r','\n']), .ack 5, .peerClose, .ackAll]

example : exEvents.all evOK = true := by decide

example : holds ⟨exApp, exEvents⟩ (Scenario.run exEnv ⟨exApp, exEvents⟩).log = true := by
  decide +kernel

/-- the run above: one request notified, one routing, one close, one shutdown — and the second
    request, the late calls and the late input leave no trace -/
example :
    let l := (Scenario.run exEnv ⟨exApp, exEvents⟩).log
    Obs.countP Obs.isHp l = 1 ∧ Obs.countP isRt l = 1 ∧ Obs.countP Obs.isTc l = 1 ∧
    Obs.countP Obs.isDc l = 1 ∧ Obs.countP Obs.isW l = 2 ∧ pending exEvents l 0 0 = 0 := by
  decide +kernel

end Qhttp.C19

/-! ## Nothing is routed after the close: `holdsStrict`

  The statement asked for,

      theorem holdsStrict_run (env) (app) (evs) (happ : AppOK app) (hevs : evs.all evOK = true) :
          holdsStrict ⟨app, evs⟩ (Scenario.run env ⟨app, evs⟩).log = true

  is FALSE for the class `AppOK`: `AppOK` lets the `headersParsed` slot record its one routing
  anywhere in its call list, also after a `close` (`cxApp` below: `[.close, .note (.rt 1 path)]`
  gives the history `ev 0, ev 1, hp, tc, dc, rt` — `not_holdsStrict_run_AppOK`).  It is proved for
  the class `AppOKStrict`: `AppOK`, and the routing note, if any, is the FIRST call of the slot
  (Server glue: `route` is entered before the handler touches the socket).
-/

namespace Qhttp.C19
open Qhttp

theorem routedAfterClose_eq (l : List Obs) : routedAfterClose l = C19L.rac l := by
  unfold routedAfterClose C19L.rac
  rw [isRt_eq]; rfl

/-- `AppOK`, and in the `headersParsed` slot every call after the first is quiet: the routing
    is recorded before anything else is done with the socket -/
structure AppOKStrict (app : App) : Prop where
  ok : AppOK app
  first : ∀ s, ((app.onHp s).drop 1).all quietOp = true

theorem AppOKStrict.hpFirst {app : App} (h : AppOKStrict app) (s : Sock) :
    C19L.hpFirst (app.onHp s) = true := by
  have h1 := (h.ok.hp s).1
  have h2 := h.first s
  rw [hpOp_eq] at h1
  rw [quietOp_eq] at h2
  cases hops : app.onHp s with
  | nil => rfl
  | cons op rest =>
    rw [hops] at h1 h2
    simp only [List.all_cons, Bool.and_eq_true] at h1
    simp only [List.drop_succ_cons, List.drop_zero] at h2
    simp [C19L.hpFirst, h1.1, h2]

/-- the invariant behind `holdsStrict`, at the end of every run: no `hp`/`rt` after the first
    `tc`, and a socket still reading the request head has not shut its transport -/
theorem run_after (env : Env) (app : App) (evs : List Event)
    (happ : AppOKStrict app) (hevs : evs.all evOK = true) :
    routedAfterClose (Scenario.run env ⟨app, evs⟩).log = false ∧
    ((Scenario.run env ⟨app, evs⟩).rs = .headers →
      (Scenario.run env ⟨app, evs⟩).log.any Obs.isTc = false) := by
  rw [evOK_eq] at hevs
  have h := C19L.run_A (env := env) happ.ok.toL.toQ happ.hpFirst evs hevs
  rw [routedAfterClose_eq]
  exact h

/-- every environment, every event list, every application of the strict class: the predicate
    the driver evaluates holds on the model's history -/
theorem holdsStrict_run (env : Env) (app : App) (evs : List Event)
    (happ : AppOKStrict app) (hevs : evs.all evOK = true) :
    holdsStrict ⟨app, evs⟩ (Scenario.run env ⟨app, evs⟩).log = true := by
  unfold holdsStrict
  rw [holds_run env app evs happ.ok hevs, (run_after env app evs happ hevs).1]
  rfl

/-! ### what `routedAfterClose` means -/

/-- `routedAfterClose l = false` iff no `hp` and no `rt` follows any `tc` of the history -/
theorem routedAfterClose_false_iff (l : List Obs) :
    routedAfterClose l = false ↔
      ∀ pre post, l = pre ++ Obs.tc :: post → ∀ o ∈ post, Obs.isHp o = false ∧ isRt o = false := by
  unfold routedAfterClose
  induction l with
  | nil =>
    constructor
    · intro _ pre post h; cases pre <;> cases h
    · intro _; rfl
  | cons x l ih =>
    by_cases hx : Obs.isTc x = true
    · have hxe : x = .tc := by cases x <;> simp [Obs.isTc] at hx; rfl
      subst hxe
      simp only [List.dropWhile_cons, Obs.isTc, Bool.not_true, Bool.false_eq_true, ↓reduceIte]
      constructor
      · intro h pre post hl o ho
        have hmem : o ∈ Obs.tc :: l := by
          rw [hl]; exact List.mem_append_right _ (List.mem_cons_of_mem _ ho)
        have := (List.any_eq_false.mp h) o hmem
        simpa using this
      · intro h
        have := h [] l rfl
        have hl : (l.any fun o => Obs.isHp o || isRt o) = false := by
          rw [List.any_eq_false]
          intro o ho
          have := this o ho
          simp [this.1, this.2]
        rw [List.any_cons, hl]; rfl
    · have hx' : Obs.isTc x = false := by simpa using hx
      simp only [List.dropWhile_cons, hx', Bool.not_false, ↓reduceIte]
      rw [ih]
      constructor
      · intro h pre post hl
        cases pre with
        | nil =>
          simp only [List.nil_append, List.cons.injEq] at hl
          rw [hl.1] at hx'; cases hx'
        | cons y pre =>
          simp only [List.cons_append, List.cons.injEq] at hl
          exact h pre post hl.2
      · intro h pre post hl
        exact h (x :: pre) post (by rw [hl]; rfl)

/-- `holdsStrict`, spelled out -/
theorem holdsStrict_iff (sc : Scenario) (obs : List Obs) :
    holdsStrict sc obs = true ↔
      holds sc obs = true ∧
      ∀ pre post, obs = pre ++ Obs.tc :: post →
        ∀ o ∈ post, Obs.isHp o = false ∧ isRt o = false := by
  unfold holdsStrict
  rw [Bool.and_eq_true, ← routedAfterClose_false_iff]
  simp

/-! ### the class `AppOK` is too wide for `holdsStrict` -/

/-- allowed by `AppOK`: close first, record the routing afterwards -/
def cxApp : App := { onHp := fun s => [.close, .note (.rt 1 s.path)] }

theorem cxApp_ok : AppOK cxApp :=
  ⟨fun _ => by simp [cxApp, hpOp, isRtNote, quietOp, List.filter], fun _ => rfl, fun _ => rfl,
   fun _ => rfl, fun _ => rfl⟩

def cxEvents : List Event :=
  [.new, .feed (lit ['G','E','T',' ','/','a',' ','H','T','T','P','/','1','.','1','\r','\n','\r','\n'])]

/-- its history: the routing is recorded after the transport was shut -/
example : (Scenario.run exEnv ⟨cxApp, cxEvents⟩).log
    = [.ev 0, .ev 1, .hp, .tc, .dc, .rt 1 [47, 97]] := by decide +kernel

theorem cx_holds : holds ⟨cxApp, cxEvents⟩ (Scenario.run exEnv ⟨cxApp, cxEvents⟩).log = true := by
  decide +kernel

theorem cx_not_holdsStrict :
    holdsStrict ⟨cxApp, cxEvents⟩ (Scenario.run exEnv ⟨cxApp, cxEvents⟩).log = false := by
  decide +kernel

/-- `holdsStrict_run` cannot be had for `AppOK` -/
theorem not_holdsStrict_run_AppOK :
    ¬ ∀ (env : Env) (app : App) (evs : List Event), AppOK app → evs.all evOK = true →
        holdsStrict ⟨app, evs⟩ (Scenario.run env ⟨app, evs⟩).log = true := by
  intro h
  have := h exEnv cxApp cxEvents cxApp_ok (by decide)
  rw [cx_not_holdsStrict] at this
  cases this

/-! ### non-vacuity -/

/-- Bool check on a scripted application -/
def scriptStrictOK (sc : Script) : Bool := scriptOK sc && (sc.onHp.drop 1).all quietOp

theorem Script.appOKStrict (sc : Script) (h : scriptStrictOK sc = true) : AppOKStrict sc.app := by
  simp only [scriptStrictOK, Bool.and_eq_true] at h
  exact ⟨Script.appOK sc h.1, fun _ => h.2⟩

example : AppOKStrict exScript.app := Script.appOKStrict _ (by decide)

/-- the Server glue of `exApp` (route on the parsed path first, then answer and close) -/
theorem exApp_strict : AppOKStrict exApp := ⟨exApp_ok, fun _ => rfl⟩

/-- two pipelined requests, late API calls, late input: the second request and the late input
    are neither notified nor routed -/
example : holdsStrict ⟨exApp, exEvents⟩ (Scenario.run exEnv ⟨exApp, exEvents⟩).log = true := by
  decide +kernel

example : (Scenario.run exEnv ⟨exApp, exEvents⟩).log.any Obs.isTc = true := by decide +kernel

/-- the same history with the second pipelined request handed to the application after the
    close (what a library serving a second request on the connection would produce) -/
def tamperedLog : List Obs :=
  (Scenario.run exEnv ⟨exApp, exEvents⟩).log ++ [.hp, .rt 1 [47, 98]]

example : routedAfterClose (Scenario.run exEnv ⟨exApp, exEvents⟩).log = false := by decide +kernel
example : routedAfterClose tamperedLog = true := by decide +kernel
example : holdsStrict ⟨exApp, exEvents⟩ tamperedLog = false := by decide +kernel
/-- a routing entry alone after the close is caught by `routedAfterClose` only when it is the
    first one (`holds` counts `rt` but does not place it) -/
example : routedAfterClose [.ev 0, .hp, .tc, .dc, .rt 1 [47, 97]] = true := by decide

end Qhttp.C19

/-! ## The application's own record of having closed the socket: `holdsMarked`

  `holdsMarked` adds two clauses to `holdsStrict`, both about the application's record
  `Obs.misc 50 _` (`mark` in the scenario language): nothing is written after the first record
  (`wroteAfterAppClose`), and a record means the library has closed the transport (`appCloseShuts`).
  Both are facts about the library only when the record is truthful, i.e. written after a call that
  closes the socket.  `marksOK` says so for a list of API calls (a reaction `app.onXx s`):
  every record has a closing call (`close`, `writeError`, `writeRedirect`, `writeJson`) somewhere
  before it in the same list; `evMarksOK` says so for the idle-context calls of the event list:
  every `.api (note record)` event has an `.api closing-call` event somewhere before it.
  (The generators place the record immediately after the closing call, `marksAdjacent` /
  `evMarksAdjacent`; that is a special case: `marksAdjacent_marksOK`, `evMarksAdjacent_evMarksOK`.)

  Why the weaker "somewhere before" suffices in the model: a call on a Socket object that is gone
  records nothing (neither does the record); a closing call on a live one ends in `tcpClose`, after
  which the transport's device is closed for good; `tcpWrite` reaches the wire only through an open
  device; and the device flag is `false` exactly when one `tc` is in the history.

  Without the hypothesis the statement is false (`mxApp`: a reaction that writes the record and
  closes nothing — `not_holdsMarked_run_unmarked`).
-/

namespace Qhttp.C19
open Qhttp

/-- the application writes its record -/
def isMarkOp : ApiOp → Bool
  | .note o => isMark o
  | _ => false

/-- the API calls that close the socket -/
def closesOp : ApiOp → Bool
  | .close => true
  | .err _ _ => true
  | .redir _ _ => true
  | .json _ _ => true
  | _ => false

/-- every record of the list has a closing call before it in the list (`closed`: one was issued
    before the list started) -/
def marksFrom (closed : Bool) : List ApiOp → Bool
  | [] => true
  | op :: rest => (!isMarkOp op || closed) && marksFrom (closed || closesOp op) rest

/-- "marks are placed after closing ops", for one list of API calls -/
def marksOK (ops : List ApiOp) : Bool := marksFrom false ops

/-- the same for the idle-context calls of the event list; other events in between do not matter -/
def evMarksFrom (closed : Bool) : List Event → Bool
  | [] => true
  | .api op :: rest => (!isMarkOp op || closed) && evMarksFrom (closed || closesOp op) rest
  | _ :: rest => evMarksFrom closed rest

def evMarksOK (evs : List Event) : Bool := evMarksFrom false evs

/-- every reaction of the application places its records after closing calls -/
structure AppMarksOK (app : App) : Prop where
  hp  : ∀ s, marksOK (app.onHp s) = true
  rr  : ∀ s, marksOK (app.onRr s) = true
  rcf : ∀ s, marksOK (app.onRcf s) = true
  bw  : ∀ s, marksOK (app.onBw s) = true
  dc  : ∀ s, marksOK (app.onDc s) = true

/-! ### what the generators emit: the record immediately after the closing call -/

/-- every record is immediately preceded by a closing call (`prev`: the call before the list) -/
def marksAdjFrom (prev : Bool) : List ApiOp → Bool
  | [] => true
  | op :: rest => (!isMarkOp op || prev) && marksAdjFrom (closesOp op) rest

def marksAdjacent (ops : List ApiOp) : Bool := marksAdjFrom false ops

/-- every `.api record` event is immediately preceded by an `.api closing-call` event -/
def evMarksAdjFrom (prev : Bool) : List Event → Bool
  | [] => true
  | .api op :: rest => (!isMarkOp op || prev) && evMarksAdjFrom (closesOp op) rest
  | _ :: rest => evMarksAdjFrom false rest

def evMarksAdjacent (evs : List Event) : Bool := evMarksAdjFrom false evs

theorem marksAdjFrom_marksFrom (ops : List ApiOp) (prev closed : Bool)
    (hp : prev = true → closed = true) (h : marksAdjFrom prev ops = true) :
    marksFrom closed ops = true := by
  induction ops generalizing prev closed with
  | nil => rfl
  | cons op ops ih =>
    simp only [marksAdjFrom, marksFrom, Bool.and_eq_true, Bool.or_eq_true,
      Bool.not_eq_true'] at h ⊢
    refine ⟨?_, ih (closesOp op) _ (fun x => by simp [x]) h.2⟩
    rcases h.1 with h1 | h1
    · exact Or.inl h1
    · exact Or.inr (hp h1)

theorem marksAdjacent_marksOK (ops : List ApiOp) (h : marksAdjacent ops = true) :
    marksOK ops = true :=
  marksAdjFrom_marksFrom ops false false id h

theorem evMarksAdjFrom_evMarksFrom (evs : List Event) (prev closed : Bool)
    (hp : prev = true → closed = true) (h : evMarksAdjFrom prev evs = true) :
    evMarksFrom closed evs = true := by
  induction evs generalizing prev closed with
  | nil => rfl
  | cons e evs ih =>
    cases e with
    | api op =>
      simp only [evMarksAdjFrom, evMarksFrom, Bool.and_eq_true, Bool.or_eq_true,
        Bool.not_eq_true'] at h ⊢
      refine ⟨?_, ih (closesOp op) _ (fun x => by simp [x]) h.2⟩
      rcases h.1 with h1 | h1
      · exact Or.inl h1
      · exact Or.inr (hp h1)
    | _ =>
      simp only [evMarksAdjFrom, evMarksFrom] at h ⊢
      exact ih false closed (fun x => by cases x) h

theorem evMarksAdjacent_evMarksOK (evs : List Event) (h : evMarksAdjacent evs = true) :
    evMarksOK evs = true :=
  evMarksAdjFrom_evMarksFrom evs false false id h

/-! ### the definitions above and the ones the lemmas are stated with coincide -/

theorem isMark_eq : isMark = C19L.isMark := by
  funext o; cases o <;> rfl

theorem wroteAfterAppClose_eq (l : List Obs) : wroteAfterAppClose l = C19L.wac l := by
  unfold wroteAfterAppClose C19L.wac
  rw [isMark_eq]

theorem isMarkOp_eq : isMarkOp = C19L.markOp := by
  funext op; cases op <;> simp [isMarkOp, C19L.markOp, isMark_eq]

theorem closesOp_eq : closesOp = C19L.closesOp := by
  funext op; cases op <;> rfl

theorem marksFrom_eq (c : Bool) (ops : List ApiOp) : marksFrom c ops = C19L.marksFrom c ops := by
  induction ops generalizing c with
  | nil => rfl
  | cons op ops ih => simp only [marksFrom, C19L.marksFrom, ih, isMarkOp_eq, closesOp_eq]

/-- a quiet call does not fake a write -/
theorem qOp_nwOp {op : ApiOp} (h : C19L.qOp op = true) : C19L.nwOp op = true := by
  cases op <;> try rfl
  rename_i o
  simp only [C19L.qOp] at h
  simp [C19L.nwOp, (C19L.quiet_facts h).2.2.1]

theorem hOp_nwOp {op : ApiOp} (h : C19L.hOp op = true) : C19L.nwOp op = true := by
  simp only [C19L.hOp, Bool.or_eq_true] at h
  rcases h with h | h
  · cases op <;> simp only [C19L.rtNote, Bool.false_eq_true] at h
    rename_i o
    cases o <;> simp only [Bool.false_eq_true] at h
    rfl
  · exact qOp_nwOp h

theorem all_nwOp_of_qOp {ops : List ApiOp} (h : ops.all C19L.qOp = true) :
    ops.all C19L.nwOp = true := by
  rw [List.all_eq_true] at h ⊢
  exact fun op hop => qOp_nwOp (h op hop)

theorem all_nwOp_of_hOp {ops : List ApiOp} (h : ops.all C19L.hOp = true) :
    ops.all C19L.nwOp = true := by
  rw [List.all_eq_true] at h ⊢
  exact fun op hop => hOp_nwOp (h op hop)

theorem okFrom_of {ops : List ApiOp} (h1 : ops.all C19L.nwOp = true) (h2 : marksOK ops = true) :
    C19L.okFrom false ops = true := by
  unfold marksOK at h2
  rw [marksFrom_eq] at h2
  simp [C19L.okFrom, h1, h2]

theorem AppMarksOK.toL {app : App} (h : AppOK app) (hm : AppMarksOK app) : C19L.AppM app where
  hp := fun s => okFrom_of (all_nwOp_of_hOp (h.toL.hp s).1) (hm.hp s)
  rr := fun s => okFrom_of (all_nwOp_of_qOp (h.toL.rr s)) (hm.rr s)
  rcf := fun s => okFrom_of (all_nwOp_of_qOp (h.toL.rcf s)) (hm.rcf s)
  bw := fun s => okFrom_of (all_nwOp_of_qOp (h.toL.bw s)) (hm.bw s)
  dc := fun s => okFrom_of (all_nwOp_of_qOp (h.toL.dc s)) (hm.dc s)

theorem evsFrom_of (evs : List Event) (c : Bool) (h1 : evs.all evOK = true)
    (h2 : evMarksFrom c evs = true) : C19L.evsFrom c evs = true := by
  induction evs generalizing c with
  | nil => rfl
  | cons e evs ih =>
    simp only [List.all_cons, Bool.and_eq_true] at h1
    cases e with
    | api op =>
      simp only [evMarksFrom, Bool.and_eq_true] at h2
      have hq : C19L.nwOp op = true := by
        have := h1.1
        simp only [evOK, quietOp_eq] at this
        exact qOp_nwOp this
      simp only [C19L.evsFrom, C19L.evOKM, C19L.evC, Bool.and_eq_true]
      rw [← isMarkOp_eq, ← closesOp_eq]
      exact ⟨⟨hq, h2.1⟩, ih _ h1.2 h2.2⟩
    | _ =>
      simp only [evMarksFrom] at h2
      simp only [C19L.evsFrom, C19L.evOKM, C19L.evC, Bool.true_and]
      exact ih _ h1.2 h2

/-! ### the run -/

/-- at the end of every run: nothing was written after the application's first record, and a
    record in the history means the transport has been closed exactly once -/
theorem run_marked (env : Env) (app : App) (evs : List Event)
    (happ : AppOK app) (hevs : evs.all evOK = true)
    (hmk : AppMarksOK app) (hem : evMarksOK evs = true) :
    wroteAfterAppClose (Scenario.run env ⟨app, evs⟩).log = false ∧
    appCloseShuts (Scenario.run env ⟨app, evs⟩).log = true := by
  have hM := C19L.run_MS (env := env) (AppMarksOK.toL happ hmk) evs (evsFrom_of evs false hevs hem)
  have hevs' := hevs
  rw [evOK_eq] at hevs'
  have hK := C19L.run_KS (env := env) happ.toL evs hevs'
  simp only [Scenario.run]
  refine ⟨by rw [wroteAfterAppClose_eq]; exact hM.2, ?_⟩
  unfold appCloseShuts
  rw [isMark_eq]
  cases hm : (Sock.run env app evs).log.any C19L.isMark
  · rfl
  · have := C19L.KS_tc hK (hM.1 hm)
    simp [this]

/-- every environment, every event list, every application of the strict class whose records are
    placed after closing calls: the predicate the driver evaluates holds on the model's history -/
theorem holdsMarked_run (env : Env) (app : App) (evs : List Event)
    (happ : AppOKStrict app) (hevs : evs.all evOK = true)
    (hmk : AppMarksOK app) (hem : evMarksOK evs = true) :
    holdsMarked ⟨app, evs⟩ (Scenario.run env ⟨app, evs⟩).log = true := by
  unfold holdsMarked
  have h := run_marked env app evs happ.ok hevs hmk hem
  rw [holdsStrict_run env app evs happ hevs, h.1, h.2]
  rfl

/-- the form the generators use: every record immediately after a closing call -/
theorem holdsMarked_run_adjacent (env : Env) (app : App) (evs : List Event)
    (happ : AppOKStrict app) (hevs : evs.all evOK = true)
    (hhp : ∀ s, marksAdjacent (app.onHp s) = true) (hrr : ∀ s, marksAdjacent (app.onRr s) = true)
    (hrcf : ∀ s, marksAdjacent (app.onRcf s) = true) (hbw : ∀ s, marksAdjacent (app.onBw s) = true)
    (hdc : ∀ s, marksAdjacent (app.onDc s) = true) (hem : evMarksAdjacent evs = true) :
    holdsMarked ⟨app, evs⟩ (Scenario.run env ⟨app, evs⟩).log = true :=
  holdsMarked_run env app evs happ hevs
    ⟨fun s => marksAdjacent_marksOK _ (hhp s), fun s => marksAdjacent_marksOK _ (hrr s),
     fun s => marksAdjacent_marksOK _ (hrcf s), fun s => marksAdjacent_marksOK _ (hbw s),
     fun s => marksAdjacent_marksOK _ (hdc s)⟩
    (evMarksAdjacent_evMarksOK evs hem)

/-! ### what the two clauses mean -/

theorem isMark_notW {o : Obs} (h : isMark o = true) : Obs.isW o = false := by
  rw [isMark_eq] at h
  exact C19L.mark_notW h

/-- `wroteAfterAppClose l = false` iff no `w` follows any record of the history -/
theorem wroteAfterAppClose_false_iff (l : List Obs) :
    wroteAfterAppClose l = false ↔
      ∀ pre m post, l = pre ++ m :: post → isMark m = true → ∀ o ∈ post, Obs.isW o = false := by
  unfold wroteAfterAppClose
  induction l with
  | nil =>
    constructor
    · intro _ pre m post h; cases pre <;> cases h
    · intro _; rfl
  | cons x l ih =>
    by_cases hx : isMark x = true
    · simp only [List.dropWhile_cons, hx, Bool.not_true, Bool.false_eq_true, ↓reduceIte]
      constructor
      · intro h pre m post hl _ o ho
        have hmem : o ∈ x :: l := by
          rw [hl]; exact List.mem_append_right _ (List.mem_cons_of_mem _ ho)
        exact (List.any_eq_false.mp h) o hmem |> fun t => by simpa using t
      · intro h
        have hl : l.any Obs.isW = false := by
          rw [List.any_eq_false]
          intro o ho
          simp [h [] x l rfl hx o ho]
        rw [List.any_cons, hl, isMark_notW hx]; rfl
    · have hx' : isMark x = false := by simpa using hx
      simp only [List.dropWhile_cons, hx', Bool.not_false, ↓reduceIte]
      rw [ih]
      constructor
      · intro h pre m post hl hm
        cases pre with
        | nil =>
          simp only [List.nil_append, List.cons.injEq] at hl
          rw [← hl.1, hx'] at hm; cases hm
        | cons y pre =>
          simp only [List.cons_append, List.cons.injEq] at hl
          exact h pre m post hl.2 hm
      · intro h pre m post hl
        exact h (x :: pre) m post (by rw [hl]; rfl)

/-- `appCloseShuts`, spelled out -/
theorem appCloseShuts_iff (obs : List Obs) :
    appCloseShuts obs = true ↔ (obs.any isMark = true → Obs.countP Obs.isTc obs = 1) := by
  unfold appCloseShuts
  cases obs.any isMark <;> simp

/-- `holdsMarked`, spelled out -/
theorem holdsMarked_iff (sc : Scenario) (obs : List Obs) :
    holdsMarked sc obs = true ↔
      holdsStrict sc obs = true ∧
      (∀ pre m post, obs = pre ++ m :: post → isMark m = true → ∀ o ∈ post, Obs.isW o = false) ∧
      (obs.any isMark = true → Obs.countP Obs.isTc obs = 1) := by
  unfold holdsMarked
  rw [Bool.and_eq_true, Bool.and_eq_true, ← wroteAfterAppClose_false_iff, ← appCloseShuts_iff]
  simp [and_assoc]

/-- the property's wording: once the application has closed the HTTP socket (a record exists)
    and every written byte has been acknowledged, the client has observed the shutdown, once -/
theorem marked_shutdown (sc : Scenario) (obs : List Obs) (h : holds sc obs = true)
    (hs : appCloseShuts obs = true) (hm : obs.any isMark = true)
    (hp : pending sc.events obs 0 0 = 0) : Obs.countP Obs.isDc obs = 1 :=
  ((holds_iff sc obs).mp h).2.2.2.2.2 ((appCloseShuts_iff obs).mp hs hm) hp

/-- the same at the end of every run of the model -/
theorem marked_shutdown_run (env : Env) (app : App) (evs : List Event)
    (happ : AppOK app) (hevs : evs.all evOK = true)
    (hmk : AppMarksOK app) (hem : evMarksOK evs = true)
    (hm : (Scenario.run env ⟨app, evs⟩).log.any isMark = true)
    (hp : pending evs (Scenario.run env ⟨app, evs⟩).log 0 0 = 0) :
    Obs.countP Obs.isDc (Scenario.run env ⟨app, evs⟩).log = 1 :=
  marked_shutdown ⟨app, evs⟩ _ (holds_run env app evs happ hevs)
    (run_marked env app evs happ hevs hmk hem).2 hm hp

/-! ### non-vacuity -/

/-- Bool check on a scripted application -/
def scriptMarksOK (sc : Script) : Bool :=
  marksOK sc.onHp && marksOK sc.onRr && marksOK sc.onRcf && marksOK sc.onBw && marksOK sc.onDc

theorem Script.appMarksOK (sc : Script) (h : scriptMarksOK sc = true) : AppMarksOK sc.app := by
  simp only [scriptMarksOK, Bool.and_eq_true] at h
  obtain ⟨⟨⟨⟨h1, h2⟩, h3⟩, h4⟩, h5⟩ := h
  exact ⟨fun _ => h1, fun _ => h2, fun _ => h3, fun _ => h4, fun _ => h5⟩

def mark : ApiOp := .note (.misc 50 [])

/-- the Server glue of `exApp`, recording each point at which it has closed the socket -/
def mkApp : App :=
  { onHp := fun s => [.note (.rt 1 s.path), .write (lit ['h','e','l','l','o']), .close, mark],
    onRr := fun _ => [.readAll],
    onBw := fun _ => [.avail],
    onDc := fun _ => [.write (lit ['h','e','l','l','o']), .close, mark] }

theorem mkApp_strict : AppOKStrict mkApp :=
  ⟨⟨fun _ => by simp [mkApp, mark, hpOp, isRtNote, quietOp, quietObs, List.filter],
    fun _ => rfl, fun _ => rfl, fun _ => rfl, fun _ => rfl⟩, fun _ => rfl⟩

theorem mkApp_marks : AppMarksOK mkApp :=
  ⟨fun _ => rfl, fun _ => rfl, fun _ => rfl, fun _ => rfl, fun _ => rfl⟩

def mkScript : Script :=
  { onHp := [.note (.rt 1 [47, 97]), .write (lit ['h','e','l','l','o']), .err 403 none, mark],
    onDc := [.close, mark, .write (lit ['x'])] }

example : AppOKStrict mkScript.app := Script.appOKStrict _ (by decide)
example : AppMarksOK mkScript.app := Script.appMarksOK _ (by decide)
example : marksAdjacent mkScript.onHp = true ∧ marksAdjacent mkScript.onDc = true := by decide

/-- two pipelined requests cut inside the first blank line, then late API calls from idle context
    (each closing call followed by the record), late input, a partial acknowledgement, the peer's
    close and the final acknowledgement -/
def mkEvents : List Event :=
  [.new, .feed (lit ['G','E','T',' ','/','a',' ','H','T','T','P','/','1','.','1','\r','\n','\r']), .feed (lit ['\n','G','E','T',' ','/','b',' ','H','T','T','P','/','1','.','1','\r','\n','\r','\n']),
   .api (.write (lit ['a','f','t','e','r'])), .api .wh, .api (.err 500 none), .api mark,
   .feed (lit ['G','E','T',' ','/','l','a','t','e',' ','H','T','T','P','/','1','.','1','\r','\n','\r','\n']), .ack 5, .api .close, .api mark,
   .peerClose, .ackAll]

example : mkEvents.all evOK = true := by decide
example : evMarksOK mkEvents = true := by decide
example : evMarksAdjacent mkEvents = true := by decide

/-- the hypotheses of `holdsMarked_run` are satisfiable, and its conclusion on this run -/
example : holdsMarked ⟨mkApp, mkEvents⟩ (Scenario.run exEnv ⟨mkApp, mkEvents⟩).log = true :=
  holdsMarked_run exEnv mkApp mkEvents mkApp_strict (by decide) mkApp_marks (by decide)

example : holdsMarked ⟨mkApp, mkEvents⟩ (Scenario.run exEnv ⟨mkApp, mkEvents⟩).log = true := by
  decide +kernel

/-- the run above exercises all three clauses: records are in the history (four of them: the
    `headersParsed` reaction, the `disconnected` reaction, two from idle context), bytes were
    written before the first one, the transport was closed once and the shutdown observed once -/
example :
    let l := (Scenario.run exEnv ⟨mkApp, mkEvents⟩).log
    Obs.countP isMark l = 4 ∧ Obs.countP Obs.isW l = 2 ∧ Obs.countP Obs.isTc l = 1 ∧
    Obs.countP Obs.isDc l = 1 ∧ Obs.countP Obs.isHp l = 1 ∧ pending mkEvents l 0 0 = 0 ∧
    wroteAfterAppClose l = false ∧ appCloseShuts l = true := by
  decide +kernel

/-- an idle connection closed by the application from idle context: written bytes, the close,
    the record, a late write that reaches nothing, and a record attempted after the Socket object
    is gone (it leaves no trace) -/
def idleEvents : List Event :=
  [.new, .api (.write (lit ['i','d','l','e'])), .api .close, .api mark,
   .api (.write (lit ['a','f','t','e','r'])), .ackAll, .turn, .api mark]

example : idleEvents.all evOK = true ∧ evMarksOK idleEvents = true := by decide

example : (Scenario.run exEnv ⟨{}, idleEvents⟩).log
    = [.ev 0, .ev 1, .w (lit ['H','T','T','P','/','1','.','0',' ','2','0','0',' ','O','K','\r','\n','\r','\n']), .w (lit ['i','d','l','e']),
       .ev 2, .tc, .ev 3, .misc 50 [], .ev 4, .ev 5, .dc, .ev 6, .del] := by decide +kernel

example : holdsMarked ⟨{}, idleEvents⟩ (Scenario.run exEnv ⟨{}, idleEvents⟩).log = true := by
  decide +kernel

/-- a history in which the late write reached the wire (what a library that keeps the transport
    usable after `Socket::close` would produce): caught by `wroteAfterAppClose` -/
example : wroteAfterAppClose
    ((Scenario.run exEnv ⟨{}, idleEvents⟩).log ++ [.w (lit ['a','f','t','e','r'])]) = true := by
  decide +kernel

/-- a history in which the application's close did not shut the transport: caught by
    `appCloseShuts` (and by nothing in `holdsStrict`) -/
example : holdsStrict ⟨{}, [.new, .api .close, .api mark]⟩ [.ev 0, .ev 1, .ev 2, .misc 50 []] = true ∧
    appCloseShuts [.ev 0, .ev 1, .ev 2, .misc 50 []] = false ∧
    holdsMarked ⟨{}, [.new, .api .close, .api mark]⟩ [.ev 0, .ev 1, .ev 2, .misc 50 []] = false := by
  decide

/-! ### the hypothesis on the records is needed -/

/-- allowed by `AppOKStrict`: record "I have closed the socket" without closing anything, and
    write afterwards -/
def mxApp : App := { onHp := fun _ => [mark, .write (lit ['x'])] }

theorem mxApp_strict : AppOKStrict mxApp :=
  ⟨⟨fun _ => by simp [mxApp, mark, hpOp, isRtNote, quietOp, quietObs, List.filter],
    fun _ => rfl, fun _ => rfl, fun _ => rfl, fun _ => rfl⟩, fun _ => rfl⟩

example : marksOK (mxApp.onHp {}) = false := by decide

theorem mx_holdsStrict :
    holdsStrict ⟨mxApp, cxEvents⟩ (Scenario.run exEnv ⟨mxApp, cxEvents⟩).log = true := by
  decide +kernel

/-- both new clauses fail on its history -/
theorem mx_clauses :
    wroteAfterAppClose (Scenario.run exEnv ⟨mxApp, cxEvents⟩).log = true ∧
    appCloseShuts (Scenario.run exEnv ⟨mxApp, cxEvents⟩).log = false := by
  decide +kernel

/-- `holdsMarked_run` cannot be had without the hypothesis on the records -/
theorem not_holdsMarked_run_unmarked :
    ¬ ∀ (env : Env) (app : App) (evs : List Event), AppOKStrict app → evs.all evOK = true →
        holdsMarked ⟨app, evs⟩ (Scenario.run env ⟨app, evs⟩).log = true := by
  intro h
  have := h exEnv mxApp cxEvents mxApp_strict (by decide)
  unfold holdsMarked at this
  rw [mx_clauses.1] at this
  simp at this

end Qhttp.C19
