import Qhttp.Model.Http
/-
  C19 — one request per connection; nothing is sent or routed after the close.
-/
namespace Qhttp.C19
open Qhttp

def isRt : Obs → Bool | .rt _ _ => true | _ => false

/-- after the library closed the transport: no byte reaches the wire; once every pending byte is
    acknowledged the client sees the shutdown (`dc`) -/
def afterClose (obs : List Obs) : Bool :=
  let tail := obs.dropWhile (fun o => !Obs.isTc o)
  Obs.countP Obs.isW tail == 0

def holds (sc : Scenario) (obs : List Obs) : Bool :=
  Obs.countP Obs.isHp obs ≤ 1 && Obs.countP isRt obs ≤ 1 && afterClose obs &&
  -- the transport is closed at most once and the shutdown is observed when all is acknowledged
  Obs.countP Obs.isTc obs ≤ 1 && Obs.countP Obs.isDc obs ≤ 1 &&
  (if Obs.countP Obs.isTc obs == 1 &&
      (match sc.events.getLast? with | some .ackAll => true | _ => false) &&
      !(sc.events.any fun e => match e with | .turn => true | _ => false)
   then Obs.countP Obs.isDc obs == 1 else true)

end Qhttp.C19
