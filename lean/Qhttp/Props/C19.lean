import Qhttp.Model.Http
import Qhttp.Lemmas.C19Step
/-
  C19 — one request per connection; nothing is sent or routed after the close.
-/
namespace Qhttp.C19
open Qhttp

def isRt : Obs → Bool | .rt _ _ => true | _ => false

/-- after the library closed the transport: no byte reaches the wire; once every pending byte is
    acknowledged the client sees the shutdown (`dc`) -/
def afterClose (obs : List Obs) : Bool :=
  let tail := obs.dropWhile (fun o => !Obs.isTc o)
  Obs.countP Obs.isW tail == 0

def ackOf (evs : List Event) (k : Nat) (unacked : Nat) : Nat :=
  match evs[k]? with
  | some (.ack n) => min n unacked
  | some .ackAll => unacked
  | _ => 0

/-- bytes written and not acknowledged at the end of the history -/
def pending (evs : List Event) : List Obs → (written acked : Nat) → Nat
  | [], written, acked => written - acked
  | .ev k :: l, written, acked => pending evs l written (acked + ackOf evs k (written - acked))
  | .w b :: l, written, acked => pending evs l (written + b.length) acked
  | _ :: l, written, acked => pending evs l written acked

def holds (sc : Scenario) (obs : List Obs) : Bool :=
  Obs.countP Obs.isHp obs ≤ 1 && Obs.countP isRt obs ≤ 1 && afterClose obs &&
  -- the transport is closed at most once; the shutdown is observed once, and it is observed
  -- whenever the library closed the transport and every written byte has been acknowledged
  Obs.countP Obs.isTc obs ≤ 1 && Obs.countP Obs.isDc obs ≤ 1 &&
  (if Obs.countP Obs.isTc obs == 1 && pending sc.events obs 0 0 == 0
   then Obs.countP Obs.isDc obs == 1 else true)

end Qhttp.C19

/-! ## Theorems -/

namespace Qhttp.C19
open Qhttp

/-- observations an application `note` may record without touching what C19 counts
    (`ev` markers and `w` feed the `pending` walk, the others are counted) -/
def quietObs : Obs → Bool
  | .hp => false | .rt _ _ => false | .w _ => false | .tc => false | .dc => false | .ev _ => false
  | _ => true

/-- an API call that records nothing C19 counts: every call except such a `note` -/
def quietOp : ApiOp → Bool
  | .note o => quietObs o
  | _ => true

def isRtNote : ApiOp → Bool
  | .note (.rt _ _) => true
  | _ => false

/-- what the `headersParsed` slot may do: anything quiet, and record a routing -/
def hpOp (op : ApiOp) : Bool := isRtNote op || quietOp op

/-- the application class: arbitrary reactions (functions of the socket state, any API calls) to
    every signal; the only recorded routing is at most one `rt` per `headersParsed` (Server glue) -/
structure AppOK (app : App) : Prop where
  hp  : ∀ s, (app.onHp s).all hpOp = true ∧ ((app.onHp s).filter isRtNote).length ≤ 1
  rr  : ∀ s, (app.onRr s).all quietOp = true
  rcf : ∀ s, (app.onRcf s).all quietOp = true
  bw  : ∀ s, (app.onBw s).all quietOp = true
  dc  : ∀ s, (app.onDc s).all quietOp = true

/-- API calls from idle context: anything but recording a counted observation -/
def evOK : Event → Bool
  | .api op => quietOp op
  | _ => true

/-- "nothing is routed after the close": no headers-parsed notification and no routing entry
    follows the point where the library shut the transport -/
def routedAfterClose (obs : List Obs) : Bool :=
  let tail := obs.dropWhile (fun o => !Obs.isTc o)
  tail.any fun o => Obs.isHp o || isRt o

/-- the predicate the driver evaluates: `holds` and nothing routed after the close -/
def holdsStrict (sc : Scenario) (obs : List Obs) : Bool := holds sc obs && !routedAfterClose obs

/-! ### the definitions above and the ones the lemmas are stated with coincide -/

theorem isRt_eq : isRt = C19L.isRt := by
  funext o; cases o <;> rfl

theorem afterClose_eq (l : List Obs) : afterClose l = C19L.aftClose l := rfl

theorem ackOf_eq (evs : List Event) : ackOf evs = C19L.ackAt evs := by
  funext k u
  unfold ackOf C19L.ackAt
  cases evs[k]? with
  | none => rfl
  | some e => cases e <;> rfl

/-- `pending` is the difference of the (written, acked) walk -/
theorem pending_eq (evs : List Event) (l : List Obs) (w a : Nat) :
    pending evs l w a
      = (C19L.trkFrom (ackOf evs) l (w, a)).1 - (C19L.trkFrom (ackOf evs) l (w, a)).2 := by
  induction l generalizing w a with
  | nil => rfl
  | cons o l ih =>
    cases o <;> simp only [pending, C19L.trkFrom, List.foldl_cons, C19L.trk1] <;> exact ih _ _

theorem quietObs_eq : quietObs = C19L.quiet := by
  funext o; cases o <;> rfl

theorem quietOp_eq : quietOp = C19L.qOp := by
  funext op; cases op <;> simp [quietOp, C19L.qOp, quietObs_eq]

theorem isRtNote_eq : isRtNote = C19L.rtNote := by
  funext op
  cases op with
  | note o => cases o <;> rfl
  | _ => rfl

theorem hpOp_eq : hpOp = C19L.hOp := by
  funext op; simp [hpOp, C19L.hOp, isRtNote_eq, quietOp_eq]

theorem evOK_eq : evOK = C19L.evOK := by
  funext e; cases e <;> simp [evOK, C19L.evOK, quietOp_eq]

theorem AppOK.toL {app : App} (h : AppOK app) : C19L.AppOK app where
  hp := fun s => by have := h.hp s; rwa [hpOp_eq, isRtNote_eq] at this
  rr := fun s => by have := h.rr s; rwa [quietOp_eq] at this
  rcf := fun s => by have := h.rcf s; rwa [quietOp_eq] at this
  bw := fun s => by have := h.bw s; rwa [quietOp_eq] at this
  dc := fun s => by have := h.dc s; rwa [quietOp_eq] at this

/-- `holds`, spelled out -/
theorem holds_iff (sc : Scenario) (obs : List Obs) :
    holds sc obs = true ↔
      Obs.countP Obs.isHp obs ≤ 1 ∧ Obs.countP isRt obs ≤ 1 ∧ afterClose obs = true ∧
      Obs.countP Obs.isTc obs ≤ 1 ∧ Obs.countP Obs.isDc obs ≤ 1 ∧
      (Obs.countP Obs.isTc obs = 1 → pending sc.events obs 0 0 = 0 →
        Obs.countP Obs.isDc obs = 1) := by
  unfold holds
  simp only [Bool.and_eq_true, decide_eq_true_eq, beq_iff_eq]
  constructor
  · rintro ⟨⟨⟨⟨⟨h1, h2⟩, h3⟩, h4⟩, h5⟩, h6⟩
    refine ⟨h1, h2, h3, h4, h5, fun a b => ?_⟩
    simpa [a, b] using h6
  · rintro ⟨h1, h2, h3, h4, h5, h6⟩
    refine ⟨⟨⟨⟨⟨h1, h2⟩, h3⟩, h4⟩, h5⟩, ?_⟩
    split
    · rename_i hc; exact beq_iff_eq.mpr (h6 hc.1 hc.2)
    · rfl

/-- every environment, every event list, every application of the class -/
theorem holds_run (env : Env) (app : App) (evs : List Event)
    (happ : AppOK app) (hevs : evs.all evOK = true) :
    holds ⟨app, evs⟩ (Scenario.run env ⟨app, evs⟩).log = true := by
  rw [evOK_eq] at hevs
  have h := C19L.KS_final (C19L.run_KS (env := env) happ.toL evs hevs)
  rw [holds_iff]
  simp only [Scenario.run]
  rw [isRt_eq, afterClose_eq, pending_eq, ackOf_eq]
  exact h

/-! ### non-vacuity -/

/-- Bool check on a scripted application -/
def scriptOK (sc : Script) : Bool :=
  sc.onHp.all hpOp && decide ((sc.onHp.filter isRtNote).length ≤ 1) &&
  sc.onRr.all quietOp && sc.onRcf.all quietOp && sc.onBw.all quietOp && sc.onDc.all quietOp

theorem Script.appOK (sc : Script) (h : scriptOK sc = true) : AppOK sc.app := by
  simp only [scriptOK, Bool.and_eq_true, decide_eq_true_eq] at h
  obtain ⟨⟨⟨⟨⟨h1, h2⟩, h3⟩, h4⟩, h5⟩, h6⟩ := h
  exact ⟨fun _ => ⟨h1, h2⟩, fun _ => h3, fun _ => h4, fun _ => h5, fun _ => h6⟩

def exEnv : Env := { url := fun p => some (p, []), errPage := fun _ _ => [60, 62] }

/-- the Server glue: route on the parsed path, answer, close; chatty but quiet elsewhere -/
def exApp : App :=
  { onHp := fun s => [.note (.rt 1 s.path), .write (lit ['h','e','l','l','o']), .close],
    onRr := fun _ => [.readAll],
    onBw := fun _ => [.avail],
    onDc := fun _ => [.write (lit ['h','e','l','l','o']), .close] }

theorem exApp_ok : AppOK exApp :=
  ⟨fun _ => by simp [exApp, hpOp, isRtNote, quietOp, List.filter], fun _ => rfl, fun _ => rfl,
   fun _ => rfl, fun _ => rfl⟩

def exScript : Script :=
  { onHp := [.note (.rt 1 [47, 97]), .write (lit ['h','e','l','l','o']), .close], onDc := [.close] }

example : AppOK exScript.app := Script.appOK _ (by decide)

/-- two pipelined requests cut inside the first blank line, then late API calls, late input,
    a partial acknowledgement, the peer's close and the final acknowledgement -/
def exEvents : List Event :=
  [.new, .feed (lit ['G','E','T',' ','/','a',' ','H','T','T','P','/','1','.','1','\r','\n','\r']), .feed (lit ['\n','G','E','T',' ','/','b',' ','H','T','T','P','/','1','.','1','\r','\n','\r','\n']),
   .api (.write (lit ['a','f','t','e','r'])), .api .wh, .api (.err 500 none),
   .feed (lit ['G','E','T',' ','/','l','a','t','e',' ','H','T','T','P','/','1','.','1','\r','\n','\r','\n']), .ack 5, .peerClose, .ackAll]

example : exEvents.all evOK = true := by decide

example : holds ⟨exApp, exEvents⟩ (Scenario.run exEnv ⟨exApp, exEvents⟩).log = true := by
  decide +kernel

/-- the run above: one request notified, one routing, one close, one shutdown — and the second
    request, the late calls and the late input leave no trace -/
example :
    let l := (Scenario.run exEnv ⟨exApp, exEvents⟩).log
    Obs.countP Obs.isHp l = 1 ∧ Obs.countP isRt l = 1 ∧ Obs.countP Obs.isTc l = 1 ∧
    Obs.countP Obs.isDc l = 1 ∧ Obs.countP Obs.isW l = 2 ∧ pending exEvents l 0 0 = 0 := by
  decide +kernel

end Qhttp.C19
