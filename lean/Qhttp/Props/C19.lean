import Qhttp.Model.Http
/-
  C19 — one request per connection; nothing is sent or routed after the close.
-/
namespace Qhttp.C19
open Qhttp

def isRt : Obs → Bool | .rt _ _ => true | _ => false

/-- after the library closed the transport: no byte reaches the wire; once every pending byte is
    acknowledged the client sees the shutdown (`dc`) -/
def afterClose (obs : List Obs) : Bool :=
  let tail := obs.dropWhile (fun o => !Obs.isTc o)
  Obs.countP Obs.isW tail == 0

def ackOf (evs : List Event) (k : Nat) (unacked : Nat) : Nat :=
  match evs[k]? with
  | some (.ack n) => min n unacked
  | some .ackAll => unacked
  | _ => 0

/-- bytes written and not acknowledged at the end of the history -/
def pending (evs : List Event) : List Obs → (written acked : Nat) → Nat
  | [], written, acked => written - acked
  | .ev k :: l, written, acked => pending evs l written (acked + ackOf evs k (written - acked))
  | .w b :: l, written, acked => pending evs l (written + b.length) acked
  | _ :: l, written, acked => pending evs l written acked

def holds (sc : Scenario) (obs : List Obs) : Bool :=
  Obs.countP Obs.isHp obs ≤ 1 && Obs.countP isRt obs ≤ 1 && afterClose obs &&
  -- the transport is closed at most once; the shutdown is observed once, and it is observed
  -- whenever the library closed the transport and every written byte has been acknowledged
  Obs.countP Obs.isTc obs ≤ 1 && Obs.countP Obs.isDc obs ≤ 1 &&
  (if Obs.countP Obs.isTc obs == 1 && pending sc.events obs 0 0 == 0
   then Obs.countP Obs.isDc obs == 1 else true)

end Qhttp.C19
