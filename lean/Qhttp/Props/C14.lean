import Qhttp.Model.Copier
import Qhttp.Lemmas.C14Run
/-
  C14 — the device copier delivers exactly the requested bytes and signals completion once.
-/
namespace Qhttp.C14
open Qhttp Copier

def writtenOf (obs : List Obs) : Bytes :=
  obs.flatMap fun o => match o with | .misc 1 b => b | _ => []
def isFin : Obs → Bool | .misc 2 _ => true | _ => false
def isErr : Obs → Bool | .misc 3 _ => true | _ => false
def isWrote : Obs → Bool | .misc 1 _ => true | _ => false

def anyFault (c : Cfg) : Bool :=
  c.srcOpenFails || c.dstOpenFails || c.seekFails || c.readFailAt.isSome || c.writeFailAt.isSome

/-- the bytes a copy is asked for: the whole source, or `src[from .. min to (|src|-1)]` -/
def wanted (c : Cfg) : Bytes :=
  match c.range with
  | none => c.src
  | some (f, t) =>
    if f < 0 then [] else
    let f' := f.toNat
    if t < 0 then c.src.drop f' else
    if t < f then [] else (c.src.drop f').take (t.toNat + 1 - f')

def hasStop (evs : List Ev) : Bool := evs.any (· == .stop)
def nTurns (evs : List Ev) : Nat := (evs.filter (· == .turn)).length

/-- position (index in `obs`) of the marker of the first `stop` event, if any -/
def afterStop (evs : List Ev) (obs : List Obs) : List Obs :=
  match evs.findIdx? (· == .stop) with
  | none => []
  | some k => (obs.dropWhile (fun o => o != Obs.ev k)).drop 1

/-- scenario shape: `start` first, then turns (and, for a sequential source, arrivals and one
    eof), at most one `stop`.
     * whatever reaches the destination is a prefix of the wanted bytes (in order, no duplicate);
     * left to run (no stop, no fault, enough turns / eof delivered): exactly the wanted bytes,
       one completion, after the last write; ranges on a sequential source are outside the
       documented domain of setRange();
     * a fault: an error is signalled, followed by one completion;
     * after stop() returned: no further byte, no further completion. -/
def holds (c : Cfg) (evs : List Ev) (obs : List Obs) : Bool :=
  let w := writtenOf obs
  let ranged := c.range.isSome
  let domain := c.block ≥ 1 && !(c.seq && ranged) &&
                (match c.range with | some (f, t) => f ≥ 0 && (t ≥ f || t == -1) && f ≤ c.src.length | none => true)
  if !domain then true else
  w.isPrefixOf (wanted c) &&
  -- completion never precedes a write (unless the application stopped the copy)
  (hasStop evs || Obs.countP isWrote ((obs.dropWhile (fun o => !isFin o)).drop 1) == 0) &&
  -- left to run
  (if !hasStop evs && !anyFault c &&
       (if c.seq then evs.getLast? == some .eof
        else nTurns evs ≥ (wanted c).length / c.block + 2 && evs.head? == some .start)
   then w == wanted c && Obs.countP isFin obs == 1
   else true) &&
  -- faults: error then exactly one completion (random-access block copy and open failures)
  (if anyFault c && !hasStop evs && !c.seq && Obs.countP isErr obs ≥ 1
   then Obs.countP isFin obs == 1 &&
        Obs.countP isErr ((obs.dropWhile (fun o => !isFin o))) == 0
   else true) &&
  -- stop() halts the copy
  (let tail := afterStop evs obs
   -- the completion stop() itself signals is the first `fin` of the tail
   Obs.countP isWrote tail == 0 && Obs.countP isFin tail ≤ 1)


/-! ## Theorems

  The helper lemmas live in `Qhttp/Lemmas/C14*.lean` (namespace `Qhttp.C14L`); they are stated
  about literal copies of the definitions above (Lemmas cannot import this file), identified
  here by `rfl`. -/

theorem writtenOf_eq : writtenOf = C14L.written := rfl
theorem isFin_eq : isFin = C14L.isFin := rfl
theorem isErr_eq : isErr = C14L.isErr := rfl
theorem isWrote_eq : isWrote = C14L.isWrote := rfl
theorem anyFault_eq : anyFault = C14L.anyFault := rfl
theorem wanted_eq : wanted = C14L.wanted := rfl
theorem nTurns_eq : nTurns = C14L.nTurns := rfl

/-- the range part of `holds`' domain: `from` inside the source, `to` = -1 ("to the end") or ≥ `from` -/
def rangeOK (c : Cfg) : Bool :=
  match c.range with
  | some (f, t) => f ≥ 0 && (t ≥ f || t == -1) && f ≤ c.src.length
  | none => true
theorem rangeOK_eq : rangeOK = C14L.rangeOK := rfl

/-- events that neither (re)start nor stop the copy -/
def quiet (r : List Ev) : Bool := r.all fun e => e != .start && e != .stop

theorem quiet_iff {r : List Ev} : quiet r = true ↔ ∀ e ∈ r, e ≠ .start ∧ e ≠ .stop := by
  simp [quiet]

/-! ### 1. random-access source, left to run -/

/-- The block loop's variant.  `C14L.Running c nt s`: the copy is armed for block `nt`, positioned at
    `from + nt * block`, and has written exactly the first `nt * block` bytes of `wanted c`.
    One `nextBlock` either finishes the copy (`C14L.Done`: timer idle, exactly one `fin` with only
    markers after it) or re-arms it with strictly fewer bytes of `wanted` still to copy. -/
theorem block_loop_variant (c : Cfg) (hb : c.block ≥ 1) (hr : rangeOK c = true) (nt : Nat) (s : St)
    (h : C14L.Running c nt s) :
    C14L.Done c (nextBlock c { s with pending := .none }) ∨
    (C14L.Running c (nt + 1) (nextBlock c { s with pending := .none }) ∧
       (wanted c).length - (writtenOf (nextBlock c { s with pending := .none }).log).length <
       (wanted c).length - (writtenOf s.log).length) :=
  C14L.nextBlock_progress c hb (C14L.rangeNF_of_ok c hr) nt s h

/-- in order, no duplication, at every moment: whatever events (other than start/stop) follow
    `start`, and whatever devices fail, the bytes written are a prefix of the wanted bytes -/
theorem prefix_random_access (c : Cfg) (hseq : c.seq = false) (hb : c.block ≥ 1) (hr : rangeOK c = true)
    (r : List Ev) (hq : quiet r = true) :
    writtenOf (Copier.run c (.start :: r)).log <+: wanted c :=
  (C14L.run_ninv c hseq hb (C14L.rangeNF_of_ok c hr) r (quiet_iff.1 hq)).prefix

/-- a random-access copy left to run for at least `|wanted| / block + 2` turns (one more than the
    loop needs): exactly the wanted bytes, exactly one completion and it comes after the last
    write, no error, and the timer is idle (the loop has terminated) -/
theorem exact_random_access (c : Cfg) (hseq : c.seq = false) (hnf : anyFault c = false)
    (hb : c.block ≥ 1) (hr : rangeOK c = true) (n : Nat) (hn : n ≥ (wanted c).length / c.block + 2) :
    let s := Copier.run c (.start :: List.replicate n .turn)
    writtenOf s.log = wanted c ∧
    Obs.countP isFin s.log = 1 ∧
    Obs.countP isErr s.log = 0 ∧
    Obs.countP isWrote ((s.log.dropWhile (fun o => !isFin o)).drop 1) = 0 ∧
    s.pending = .none := by
  intro s
  have hq : ∀ e ∈ List.replicate n Ev.turn, e ≠ .start ∧ e ≠ .stop := by
    intro e he; rw [List.eq_of_mem_replicate he]; simp
  have hinv := C14L.run_ninv c hseq hb (C14L.rangeNF_of_ok c hr) _ hq
  rw [C14L.nTurns_replicate] at hinv
  have hd : C14L.Done c s := hinv.done hb (by rw [wanted_eq] at hn; omega)
  rcases hd.res with ⟨he, hw, _, _⟩ | ⟨_, hf⟩
  · exact ⟨hw, hd.closed.cnt_fin, he, hd.closed.no_wrote_after, hd.pending⟩
  · rw [← anyFault_eq, hnf] at hf; cases hf

/-! ### 2. reversed range -/

/-- `setRange(f, t)` with `0 ≤ t < f ≤ |src|`: nothing is written and completion is signalled
    exactly once.  For `t < f - 1` the (negative-length) write fails, so `err` precedes the `fin`;
    for the empty range `t = f - 1` the copy just completes.  The log is given exactly. -/
theorem reversed_range (c : Cfg) (hseq : c.seq = false) (hnf : anyFault c = false) (f t : Int)
    (hrange : c.range = some (f, t)) (ht0 : 0 ≤ t) (htf : t < f) (hfl : f ≤ c.src.length) (n : Nat) :
    let s := Copier.run c (.start :: List.replicate (n + 1) .turn)
    s.log = [Obs.ev 0, Obs.ev 1] ++ (if t + 1 < f then [err, fin] else [fin]) ++ (List.range' 2 n).map Obs.ev ∧
    writtenOf s.log = [] ∧
    Obs.countP isFin s.log = 1 ∧
    Obs.countP isErr s.log = (if t + 1 < f then 1 else 0) ∧
    s.pending = .none := by
  intro s
  obtain ⟨hl, hp⟩ := C14L.run_reversed c hseq hnf f t hrange ht0 htf hfl n
  have hmk := C14L.range'_map_mk 2 n
  refine ⟨hl, ?_, ?_, ?_, hp⟩
  · show writtenOf s.log = []
    rw [hl, writtenOf_eq, C14L.written_append, C14L.written_append, C14L.written_of_mk hmk]
    split <;> simp [C14L.written, err, fin]
  · show Obs.countP isFin s.log = 1
    rw [hl, isFin_eq, C14L.cnt_append, C14L.cnt_append, C14L.cnt_of_mk C14L.mk_not_fin hmk]
    split <;> simp [C14L.cnt_cons]
  · show Obs.countP isErr s.log = _
    rw [hl, isErr_eq, C14L.cnt_append, C14L.cnt_append, C14L.cnt_of_mk C14L.mk_not_err hmk]
    split <;> simp [C14L.cnt_cons]

/-! ### non-vacuity -/

private def abcdefg : Bytes := [65, 66, 67, 68, 69, 70, 71]
private def cfgR : Cfg := { src := abcdefg, block := 3, range := some (2, 5) }

-- "ABCDEFG", block 3, range (2,5), start + 4 turns: "CDEF" is written, one fin, `holds`
example : writtenOf (Copier.run cfgR [.start, .turn, .turn, .turn, .turn]).log = [67, 68, 69, 70] := by decide
example : Obs.countP isFin (Copier.run cfgR [.start, .turn, .turn, .turn, .turn]).log = 1 := by decide
example : holds cfgR [.start, .turn, .turn, .turn, .turn]
    (Copier.run cfgR [.start, .turn, .turn, .turn, .turn]).log = true := by decide
-- the hypotheses of `exact_random_access` are satisfiable, with a multi-block copy
example : cfgR.seq = false ∧ anyFault cfgR = false ∧ cfgR.block ≥ 1 ∧ rangeOK cfgR = true ∧
    4 ≥ (wanted cfgR).length / cfgR.block + 2 := by decide
-- reversed range (5,2): error then completion, nothing written; empty range (3,2): completion only
example : (Copier.run { cfgR with range := some (5, 2) } [.start, .turn, .turn]).log =
    [.ev 0, .ev 1, err, fin, .ev 2] := by decide
example : (Copier.run { cfgR with range := some (3, 2) } [.start, .turn, .turn]).log =
    [.ev 0, .ev 1, fin, .ev 2] := by decide

end Qhttp.C14
