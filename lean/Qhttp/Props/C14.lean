import Qhttp.Model.Copier
/-
  C14 — the device copier delivers exactly the requested bytes and signals completion once.
-/
namespace Qhttp.C14
open Qhttp Copier

def writtenOf (obs : List Obs) : Bytes :=
  obs.flatMap fun o => match o with | .misc 1 b => b | _ => []
def isFin : Obs → Bool | .misc 2 _ => true | _ => false
def isErr : Obs → Bool | .misc 3 _ => true | _ => false
def isWrote : Obs → Bool | .misc 1 _ => true | _ => false

def anyFault (c : Cfg) : Bool :=
  c.srcOpenFails || c.dstOpenFails || c.seekFails || c.readFailAt.isSome || c.writeFailAt.isSome

/-- the bytes a copy is asked for: the whole source, or `src[from .. min to (|src|-1)]` -/
def wanted (c : Cfg) : Bytes :=
  match c.range with
  | none => c.src
  | some (f, t) =>
    if f < 0 then [] else
    let f' := f.toNat
    if t < 0 then c.src.drop f' else
    if t < f then [] else (c.src.drop f').take (t.toNat + 1 - f')

def hasStop (evs : List Ev) : Bool := evs.any (· == .stop)
def nTurns (evs : List Ev) : Nat := (evs.filter (· == .turn)).length

/-- position (index in `obs`) of the marker of the first `stop` event, if any -/
def afterStop (evs : List Ev) (obs : List Obs) : List Obs :=
  match evs.findIdx? (· == .stop) with
  | none => []
  | some k => (obs.dropWhile (fun o => o != Obs.ev k)).drop 1

/-- scenario shape: `start` first, then turns (and, for a sequential source, arrivals and one
    eof), at most one `stop`.
     * whatever reaches the destination is a prefix of the wanted bytes (in order, no duplicate);
     * left to run (no stop, no fault, enough turns / eof delivered): exactly the wanted bytes,
       one completion, after the last write; ranges on a sequential source are outside the
       documented domain of setRange();
     * a fault: an error is signalled, followed by one completion;
     * after stop() returned: no further byte, no further completion. -/
def holds (c : Cfg) (evs : List Ev) (obs : List Obs) : Bool :=
  let w := writtenOf obs
  let ranged := c.range.isSome
  let domain := c.block ≥ 1 && !(c.seq && ranged) &&
                (match c.range with | some (f, t) => f ≥ 0 && (t ≥ f || t == -1) && f ≤ c.src.length | none => true)
  if !domain then true else
  w.isPrefixOf (wanted c) &&
  -- completion never precedes a write (unless the application stopped the copy)
  (hasStop evs || Obs.countP isWrote ((obs.dropWhile (fun o => !isFin o)).drop 1) == 0) &&
  -- left to run
  (if !hasStop evs && !anyFault c &&
       (if c.seq then evs.getLast? == some .eof
        else nTurns evs ≥ (wanted c).length / c.block + 2 && evs.head? == some .start)
   then w == wanted c && Obs.countP isFin obs == 1
   else true) &&
  -- faults: error then exactly one completion (random-access block copy and open failures)
  (if anyFault c && !hasStop evs && !c.seq && Obs.countP isErr obs ≥ 1
   then Obs.countP isFin obs == 1 &&
        Obs.countP isErr ((obs.dropWhile (fun o => !isFin o))) == 0
   else true) &&
  -- stop() halts the copy
  (let tail := afterStop evs obs
   -- the completion stop() itself signals is the first `fin` of the tail
   Obs.countP isWrote tail == 0 && Obs.countP isFin tail ≤ 1)

end Qhttp.C14
