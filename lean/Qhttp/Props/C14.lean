import Qhttp.Model.Copier
import Qhttp.Model.CopierStopIn
import Qhttp.Lemmas.C14Run
import Qhttp.Lemmas.C14Seq
import Qhttp.Lemmas.C14Open
import Qhttp.Lemmas.C14Restart
import Qhttp.Lemmas.C14StopIn
/-
  C14 — the device copier delivers exactly the requested bytes and signals completion once.
-/
namespace Qhttp.C14
open Qhttp Copier

def writtenOf (obs : List Obs) : Bytes :=
  obs.flatMap fun o => match o with | .misc 1 b => b | _ => []
def isFin : Obs → Bool | .misc 2 _ => true | _ => false
def isErr : Obs → Bool | .misc 3 _ => true | _ => false
def isWrote : Obs → Bool | .misc 1 _ => true | _ => false

def anyFault (c : Cfg) : Bool :=
  c.srcOpenFails || c.dstOpenFails || c.seekFails || c.readFailAt.isSome || c.writeFailAt.isSome

/-- the position of the first byte copied: `start()` seeks to the start of the range only when it
    is > 0; otherwise the copy begins where the random-access source stands (`prePos`: 0 for a
    source nobody has read from, the point reached by earlier reads or by an earlier, stopped copy) -/
def firstPos (c : Cfg) : Nat := if rangeFrom c > 0 then (rangeFrom c).toNat else c.prePos

/-- the bytes a copy is asked for, `p` being the position of the first byte: everything from `p`,
    or `src[p .. min to (|src|-1)]` -/
def wanted (c : Cfg) : Bytes :=
  match c.range with
  | none => c.src.drop c.prePos
  | some (f, t) =>
    if f < 0 then [] else
    let p := if f > 0 then f.toNat else c.prePos
    if t < 0 then c.src.drop p else
    if t < p then [] else (c.src.drop p).take (t.toNat + 1 - p)

/-- the range part of `holds`' domain: the first byte lies inside the source (a `QBuffer` opened
    for reading cannot be positioned past its end: `seek` refuses, and so does the harness), `to`
    is -1 ("to the end") or not before the first byte -/
def rangeOK (c : Cfg) : Bool :=
  match c.range with
  | some (f, t) => f ≥ 0 && (t ≥ firstPos c || t == -1) && firstPos c ≤ c.src.length
  | none => c.prePos ≤ c.src.length

/-- what the destination is to receive: the wanted bytes of a random-access source; a sequential
    source has no position (and no range: outside `setRange()`'s domain): all it delivers -/
def asked (c : Cfg) : Bytes := if c.seq then c.src else wanted c

def hasStop (evs : List Ev) : Bool := evs.any (· == .stop)
def nTurns (evs : List Ev) : Nat := (evs.filter (· == .turn)).length

/-- position (index in `obs`) of the marker of the first `stop` event, if any -/
def afterStop (evs : List Ev) (obs : List Obs) : List Obs :=
  match evs.findIdx? (· == .stop) with
  | none => []
  | some k => (obs.dropWhile (fun o => o != Obs.ev k)).drop 1

/-- scenario shape: `start` first, then turns (and, for a sequential source, arrivals — announced
    by `readyRead()` or not — and one eof), at most one `stop`; the random-access source may stand
    anywhere inside its content when the scenario begins (`prePos`).  (A scenario that starts the
    copy a second time is cut at the second `start` first: `holdsRuns`.)
     * whatever reaches the destination is a prefix of the wanted bytes (in order, no duplicate);
     * left to run (no stop, no fault, enough turns / eof delivered): exactly the wanted bytes,
       one completion, after the last write; ranges on a sequential source are outside the
       documented domain of setRange();
     * a fault: an error is signalled, followed by one completion;
     * after stop() returned: no further byte, no further completion. -/
def holds (c : Cfg) (evs : List Ev) (obs : List Obs) : Bool :=
  let w := writtenOf obs
  let domain := c.block ≥ 1 && (if c.seq then !c.range.isSome else rangeOK c)
  if !domain then true else
  w.isPrefixOf (asked c) &&
  -- completion never precedes a write (unless the application stopped the copy)
  (hasStop evs || Obs.countP isWrote ((obs.dropWhile (fun o => !isFin o)).drop 1) == 0) &&
  -- left to run
  (if !hasStop evs && !anyFault c &&
       (if c.seq then evs.getLast? == some .eof
        else nTurns evs ≥ (wanted c).length / c.block + 2 && evs.head? == some .start)
   then w == asked c && Obs.countP isFin obs == 1
   else true) &&
  -- faults: error then exactly one completion (random-access block copy and open failures)
  (if anyFault c && !hasStop evs && !c.seq && Obs.countP isErr obs ≥ 1
   then Obs.countP isFin obs == 1 &&
        Obs.countP isErr ((obs.dropWhile (fun o => !isFin o))) == 0
   else true) &&
  -- stop() halts the copy
  (let tail := afterStop evs obs
   -- the completion stop() itself signals is the first `fin` of the tail
   Obs.countP isWrote tail == 0 && Obs.countP isFin tail ≤ 1)


/-- a device that cannot be opened -/
def openFault (c : Cfg) : Bool := c.srcOpenFails || c.dstOpenFails

/-- "a failure to open either device signals an error followed by that single completion", for
    every kind of source and whatever the source announces afterwards (arrivals, end of data,
    timer turns): exactly one error, exactly one completion, the error first, nothing copied -/
def holdsOpen (c : Cfg) (evs : List Ev) (obs : List Obs) : Bool :=
  if openFault c && evs.head? == some .start && (evs.filter (· == .start)).length == 1 && !hasStop evs
  then Obs.countP isErr obs == 1 && Obs.countP isFin obs == 1 && Obs.countP isWrote obs == 0 &&
       Obs.countP isErr (obs.dropWhile (fun o => !isFin o)) == 0
  else true

/-- the predicate the driver evaluates -/
def holdsAll (c : Cfg) (evs : List Ev) (obs : List Obs) : Bool := holds c evs obs && holdsOpen c evs obs

/-! ## Theorems

  The helper lemmas live in `Qhttp/Lemmas/C14*.lean` (namespace `Qhttp.C14L`); they are stated
  about literal copies of the definitions above (Lemmas cannot import this file), identified
  here by `rfl`. -/

theorem writtenOf_eq : writtenOf = C14L.written := rfl
theorem isFin_eq : isFin = C14L.isFin := rfl
theorem isErr_eq : isErr = C14L.isErr := rfl
theorem isWrote_eq : isWrote = C14L.isWrote := rfl
theorem anyFault_eq : anyFault = C14L.anyFault := rfl
theorem wanted_eq : wanted = C14L.wanted := rfl
theorem firstPos_eq : firstPos = C14L.firstPos := rfl
theorem nTurns_eq : nTurns = C14L.nTurns := rfl

theorem rangeOK_eq : rangeOK = C14L.rangeOK := rfl

/-- a source nobody has read from (`prePos = 0`): the first byte is the start of the range, … -/
theorem firstPos_fresh (c : Cfg) (h0 : c.prePos = 0) (hf : 0 ≤ rangeFrom c) :
    firstPos c = (rangeFrom c).toNat := by
  unfold firstPos; rw [h0]; split <;> omega
/-- … the wanted bytes are the whole source or `src[from .. min to (|src|-1)]`, … -/
theorem wanted_fresh (c : Cfg) (h0 : c.prePos = 0) :
    wanted c = match c.range with
      | none => c.src
      | some (f, t) =>
        if f < 0 then [] else
        if t < 0 then c.src.drop f.toNat else
        if t < f then [] else (c.src.drop f.toNat).take (t.toNat + 1 - f.toNat) := by
  unfold wanted; rw [h0]
  cases c.range with
  | none => rfl
  | some ft =>
    obtain ⟨f, t⟩ := ft
    simp only []
    have hp : (if f > 0 then f.toNat else 0) = f.toNat := by split <;> omega
    rw [hp]
    by_cases hf : f < 0
    · simp [hf]
    · by_cases ht : t < 0
      · simp [hf, ht]
      · have : (t < (f.toNat : Int)) ↔ t < f := by omega
        simp only [hf, ht, if_false, this]
/-- … and the domain is `0 ≤ from ≤ |src|`, `to = -1` or `to ≥ from` -/
theorem rangeOK_fresh (c : Cfg) (h0 : c.prePos = 0) :
    rangeOK c = match c.range with
      | some (f, t) => decide (f ≥ 0) && (decide (t ≥ f) || t == -1) && decide (f ≤ c.src.length)
      | none => true := by
  unfold rangeOK
  cases hr : c.range with
  | none => simp [h0]
  | some ft =>
    obtain ⟨f, t⟩ := ft
    simp only []
    by_cases hf : f ≥ 0
    · have e1 : rangeFrom c = f := by simp [rangeFrom, hr]
      have hp := firstPos_fresh c h0 (by rw [e1]; exact hf)
      rw [hp, e1]
      have h1 : (t ≥ (f.toNat : Int)) ↔ t ≥ f := by omega
      have h2 : (f.toNat ≤ c.src.length) ↔ f ≤ (c.src.length : Int) := by omega
      simp only [h1, h2]
    · simp [hf]

/-- events that neither (re)start nor stop the copy -/
def quiet (r : List Ev) : Bool := r.all fun e => e != .start && e != .stop

theorem quiet_iff {r : List Ev} : quiet r = true ↔ ∀ e ∈ r, e ≠ .start ∧ e ≠ .stop := by
  simp [quiet]

/-! ### 1. random-access source, left to run -/

/-- The block loop's variant.  `C14L.Running c nt s`: the copy is armed for block `nt`, positioned at
    `from + nt * block`, and has written exactly the first `nt * block` bytes of `wanted c`.
    One `nextBlock` either finishes the copy (`C14L.Done`: timer idle, exactly one `fin` with only
    markers after it) or re-arms it with strictly fewer bytes of `wanted` still to copy. -/
theorem block_loop_variant (c : Cfg) (hb : c.block ≥ 1) (hr : rangeOK c = true) (nt : Nat) (s : St)
    (h : C14L.Running c nt s) :
    C14L.Done c (nextBlock c { s with pending := .none }) ∨
    (C14L.Running c (nt + 1) (nextBlock c { s with pending := .none }) ∧
       (wanted c).length - (writtenOf (nextBlock c { s with pending := .none }).log).length <
       (wanted c).length - (writtenOf s.log).length) :=
  C14L.nextBlock_progress c hb (C14L.rangeNF_of_ok c hr) nt s h

/-- in order, no duplication, at every moment: whatever events (other than start/stop) follow
    `start`, and whatever devices fail, the bytes written are a prefix of the wanted bytes -/
theorem prefix_random_access (c : Cfg) (hseq : c.seq = false) (hb : c.block ≥ 1) (hr : rangeOK c = true)
    (r : List Ev) (hq : quiet r = true) :
    writtenOf (Copier.run c (.start :: r)).log <+: wanted c :=
  (C14L.run_ninv c hseq hb (C14L.rangeNF_of_ok c hr) r (quiet_iff.1 hq)).prefix

/-- a random-access copy left to run for at least `|wanted| / block + 2` turns (one more than the
    loop needs): exactly the wanted bytes, exactly one completion and it comes after the last
    write, no error, and the timer is idle (the loop has terminated) -/
theorem exact_random_access (c : Cfg) (hseq : c.seq = false) (hnf : anyFault c = false)
    (hb : c.block ≥ 1) (hr : rangeOK c = true) (n : Nat) (hn : n ≥ (wanted c).length / c.block + 2) :
    let s := Copier.run c (.start :: List.replicate n .turn)
    writtenOf s.log = wanted c ∧
    Obs.countP isFin s.log = 1 ∧
    Obs.countP isErr s.log = 0 ∧
    Obs.countP isWrote ((s.log.dropWhile (fun o => !isFin o)).drop 1) = 0 ∧
    s.pending = .none := by
  intro s
  have hq : ∀ e ∈ List.replicate n Ev.turn, e ≠ .start ∧ e ≠ .stop := by
    intro e he; rw [List.eq_of_mem_replicate he]; simp
  have hinv := C14L.run_ninv c hseq hb (C14L.rangeNF_of_ok c hr) _ hq
  rw [C14L.nTurns_replicate] at hinv
  have hd : C14L.Done c s := hinv.done hb (by rw [wanted_eq] at hn; omega)
  rcases hd.res with ⟨he, hw, _, _⟩ | ⟨_, hf⟩
  · exact ⟨hw, hd.closed.cnt_fin, he, hd.closed.no_wrote_after, hd.pending⟩
  · rw [← anyFault_eq, hnf] at hf; cases hf

/-! ### 2. reversed range -/

/-- `setRange(f, t)` with `0 ≤ t < p ≤ |src|`, `p` the position of the first byte (`f` if > 0,
    else where the source stands): nothing is written and completion is signalled exactly once.
    For `t < p - 1` the (negative-length) write fails, so `err` precedes the `fin`; for the empty
    range `t = p - 1` the copy just completes.  The log is given exactly. -/
theorem reversed_range (c : Cfg) (hseq : c.seq = false) (hnf : anyFault c = false) (f t : Int)
    (hrange : c.range = some (f, t)) (ht0 : 0 ≤ t) (htf : t < firstPos c) (hfl : firstPos c ≤ c.src.length) (n : Nat) :
    let s := Copier.run c (.start :: List.replicate (n + 1) .turn)
    s.log = [Obs.ev 0, Obs.ev 1] ++ (if t + 1 < firstPos c then [err, fin] else [fin]) ++ (List.range' 2 n).map Obs.ev ∧
    writtenOf s.log = [] ∧
    Obs.countP isFin s.log = 1 ∧
    Obs.countP isErr s.log = (if t + 1 < firstPos c then 1 else 0) ∧
    s.pending = .none := by
  intro s
  obtain ⟨hl, hp⟩ := C14L.run_reversed c hseq hnf f t hrange ht0 htf hfl n
  have hmk := C14L.range'_map_mk 2 n
  rw [← firstPos_eq] at hl
  refine ⟨hl, ?_, ?_, ?_, hp⟩
  · show writtenOf s.log = []
    rw [hl, writtenOf_eq, C14L.written_append, C14L.written_append, C14L.written_of_mk hmk]
    split <;> simp [C14L.written, err, fin]
  · show Obs.countP isFin s.log = 1
    rw [hl, isFin_eq, C14L.cnt_append, C14L.cnt_append, C14L.cnt_of_mk C14L.mk_not_fin hmk]
    split <;> simp [C14L.cnt_cons]
  · show Obs.countP isErr s.log = _
    rw [hl, isErr_eq, C14L.cnt_append, C14L.cnt_append, C14L.cnt_of_mk C14L.mk_not_err hmk]
    split <;> simp [C14L.cnt_cons]

/-- the same for a range whose start is > 0 (`start()` seeks there, wherever the source stood):
    `setRange(f, t)` with `0 ≤ t < f ≤ |src|`, for every `prePos` -/
theorem reversed_range_seek (c : Cfg) (hseq : c.seq = false) (hnf : anyFault c = false) (f t : Int)
    (hrange : c.range = some (f, t)) (ht0 : 0 ≤ t) (htf : t < f) (hfl : f ≤ c.src.length) (n : Nat) :
    let s := Copier.run c (.start :: List.replicate (n + 1) .turn)
    s.log = [Obs.ev 0, Obs.ev 1] ++ (if t + 1 < f then [err, fin] else [fin]) ++ (List.range' 2 n).map Obs.ev ∧
    writtenOf s.log = [] ∧
    Obs.countP isFin s.log = 1 ∧
    Obs.countP isErr s.log = (if t + 1 < f then 1 else 0) ∧
    s.pending = .none := by
  have e1 : rangeFrom c = f := by simp [rangeFrom, hrange]
  have hp : (firstPos c : Int) = f := by
    unfold firstPos; rw [e1, if_pos (by omega)]; omega
  have := reversed_range c hseq hnf f t hrange ht0 (by rw [hp]; exact htf) (by omega) n
  rw [hp] at this
  exact this

/-! ### 3. sequential source -/

/-- the bytes an event makes available on a sequential source -/
def pieceOf : Ev → Bytes | .arrive b => b | .arriveQ b => b | _ => []
/-- everything that arrived, announced by `readyRead()` or not, in order -/
def arrivedOf (evs : List Ev) : Bytes := evs.flatMap pieceOf
theorem arrivedOf_eq : arrivedOf = C14L.arrived := rfl

/-- only arrivals (announced by `readyRead()` or quiet) and event-loop turns -/
def feedOnly (r : List Ev) : Bool :=
  r.all fun e => match e with | .arrive _ => true | .arriveQ _ => true | .turn => true | _ => false

theorem feedOnly_iff {r : List Ev} (h : feedOnly r = true) : ∀ e ∈ r, e ≠ .start ∧ e ≠ .stop ∧ e ≠ .eof := by
  intro e he
  have := List.all_eq_true.1 h e he
  cases e <;> simp_all

/-- a sequential source delivering its data in arbitrary pieces — each announced by `readyRead()`
    (`arrive`) or just appended to what the source holds (`arriveQ`: e.g. a last piece that comes
    together with the end of the stream) —, interleaved with arbitrary event-loop turns, then
    end-of-data: exactly the arrived bytes (the quiet ones included) are written, no error,
    exactly one completion, and it is the very last observation (after the last write) -/
theorem sequential (c : Cfg) (hseq : c.seq = true) (hnf : anyFault c = false)
    (r : List Ev) (hr : feedOnly r = true) :
    let s := Copier.run c (.start :: (r ++ [.eof]))
    writtenOf s.log = arrivedOf r ∧
    Obs.countP isFin s.log = 1 ∧
    Obs.countP isErr s.log = 0 ∧
    s.log.getLast? = some fin := by
  intro s
  obtain ⟨hcl, _, h3⟩ := C14L.run_seq_eof c hseq r (feedOnly_iff hr)
  obtain ⟨hw, he, L, hL⟩ := h3 hnf
  refine ⟨hw, hcl.cnt_fin, he, ?_⟩
  show (Copier.run c (.start :: (r ++ [.eof]))).log.getLast? = some fin
  rw [hL]; simp

/-! ### 4. device faults on a random-access copy -/

/-- a device fault that a copy left to run actually meets: a device that does not open, a failing
    seek to a range start > 0, or a failing read / write whose index `k` is that of a block the
    copy gets to (`k = 0`, or `k * block < |wanted|`) -/
def faultReached (c : Cfg) : Bool :=
  c.srcOpenFails || c.dstOpenFails || (c.seekFails && decide (rangeFrom c > 0)) ||
  (match c.readFailAt with | some k => k == 0 || decide (k * c.block < (wanted c).length) | none => false) ||
  (match c.writeFailAt with | some k => k == 0 || decide (k * c.block < (wanted c).length) | none => false)

/-- a random-access copy left to run, whatever devices fail: the timer is idle, exactly one
    completion with nothing but event markers after it, a prefix of the wanted bytes written, and
    either no error and everything written, or exactly one error (which precedes the completion) -/
theorem outcome_random_access (c : Cfg) (hseq : c.seq = false) (hb : c.block ≥ 1) (hr : rangeOK c = true)
    (n : Nat) (hn : n ≥ (wanted c).length / c.block + 2) :
    let s := Copier.run c (.start :: List.replicate n .turn)
    s.pending = .none ∧
    Obs.countP isFin s.log = 1 ∧
    Obs.countP isWrote ((s.log.dropWhile (fun o => !isFin o)).drop 1) = 0 ∧
    Obs.countP isErr (s.log.dropWhile (fun o => !isFin o)) = 0 ∧
    writtenOf s.log <+: wanted c ∧
    ((Obs.countP isErr s.log = 0 ∧ writtenOf s.log = wanted c) ∨ Obs.countP isErr s.log = 1) := by
  intro s
  have hq : ∀ e ∈ List.replicate n Ev.turn, e ≠ .start ∧ e ≠ .stop := by
    intro e he; rw [List.eq_of_mem_replicate he]; simp
  have hinv := C14L.run_ninv c hseq hb (C14L.rangeNF_of_ok c hr) _ hq
  rw [C14L.nTurns_replicate] at hinv
  have hd : C14L.Done c s := hinv.done hb (by rw [wanted_eq] at hn; omega)
  refine ⟨hd.pending, hd.closed.cnt_fin, hd.closed.no_wrote_after, hd.closed.no_err_after, hd.pre, ?_⟩
  rcases hd.res with ⟨he, hw, _, _⟩ | ⟨he, _⟩
  · exact Or.inl ⟨he, hw⟩
  · exact Or.inr he

/-- srcOpenFails / dstOpenFails / seekFails with a range start > 0 / `readFailAt = some k` /
    `writeFailAt = some k` (for a block the copy reaches): exactly one `err`, exactly one `fin`,
    the `err` before the `fin` (none at or after it), no write after the `fin`, and what was
    written is a prefix of `wanted` -/
theorem errors (c : Cfg) (hseq : c.seq = false) (hb : c.block ≥ 1) (hr : rangeOK c = true)
    (hf : faultReached c = true) (n : Nat) (hn : n ≥ (wanted c).length / c.block + 2) :
    let s := Copier.run c (.start :: List.replicate n .turn)
    Obs.countP isErr s.log = 1 ∧
    Obs.countP isFin s.log = 1 ∧
    Obs.countP isErr (s.log.dropWhile (fun o => !isFin o)) = 0 ∧
    Obs.countP isWrote ((s.log.dropWhile (fun o => !isFin o)).drop 1) = 0 ∧
    writtenOf s.log <+: wanted c ∧
    s.pending = .none := by
  intro s
  have hq : ∀ e ∈ List.replicate n Ev.turn, e ≠ .start ∧ e ≠ .stop := by
    intro e he; rw [List.eq_of_mem_replicate he]; simp
  have hnf := C14L.rangeNF_of_ok c hr
  have hinv := C14L.run_ninv c hseq hb hnf _ hq
  rw [C14L.nTurns_replicate] at hinv
  have hd : C14L.Done c s := hinv.done hb (by rw [wanted_eq] at hn; omega)
  refine ⟨?_, hd.closed.cnt_fin, hd.closed.no_err_after, hd.closed.no_wrote_after, hd.pre, hd.pending⟩
  rcases hd.res with ⟨_, _, hsf, hno⟩ | ⟨he, _⟩
  · exfalso
    rw [C14L.startFails_nonseq c hseq hnf] at hsf
    simp only [Bool.or_eq_false_iff, Bool.and_eq_false_iff, decide_eq_false_iff_not] at hsf
    obtain ⟨⟨h1, h2⟩, h3⟩ := hsf
    simp only [faultReached, h1, h2, Bool.false_or, Bool.or_eq_true, Bool.and_eq_true, decide_eq_true_eq] at hf
    rcases hf with (⟨h4, h5⟩ | h4) | h4
    · rcases h3 with h3 | h3
      · exact h3 h5
      · rw [h3] at h4; cases h4
    · cases hk : c.readFailAt with
      | none => rw [hk] at h4; cases h4
      | some k =>
        rw [hk] at h4
        simp only [Bool.or_eq_true, beq_iff_eq, decide_eq_true_eq] at h4
        exact hno k (by simp [C14L.faultAt, hk]) h4
    · cases hk : c.writeFailAt with
      | none => rw [hk] at h4; cases h4
      | some k =>
        rw [hk] at h4
        simp only [Bool.or_eq_true, beq_iff_eq, decide_eq_true_eq] at h4
        exact hno k (by simp [C14L.faultAt, hk]) h4
  · exact he

/-! ### 5. stop() halts the copy -/

theorem findIdx_stop (pre post : List Ev) (hpre : Ev.stop ∉ pre) :
    (pre ++ .stop :: post).findIdx? (· == .stop) = some pre.length := by
  induction pre with
  | nil => simp [List.findIdx?_cons]
  | cons a l ih =>
    have ha : a ≠ .stop := fun e => hpre (by simp [e])
    have hl : Ev.stop ∉ l := fun e => hpre (List.mem_cons_of_mem _ e)
    simp [List.findIdx?_cons, ha, ih hl]

theorem afterStop_run (c : Cfg) (pre post : List Ev) (hpre : Ev.stop ∉ pre) (hpost : quiet post = true) :
    (∃ ms, afterStop (pre ++ .stop :: post) (Copier.run c (pre ++ .stop :: post)).log = fin :: ms ∧
           ∀ o ∈ ms, C14L.isMk o = true) ∧
    writtenOf (Copier.run c (pre ++ .stop :: post)).log = writtenOf (Copier.run c pre).log := by
  obtain ⟨hnot, ms, hl, hms⟩ := C14L.run_stop c pre post (quiet_iff.1 hpost)
  refine ⟨⟨ms, ?_, hms⟩, ?_⟩
  · unfold afterStop
    rw [findIdx_stop pre post hpre]
    simp only []
    rw [hl, C14L.dropWhile_ne_mk hnot]; rfl
  · rw [hl, writtenOf_eq, C14L.written_append, C14L.written_cons, C14L.written_cons (a := fin),
      C14L.written_of_mk hms]
    simp [C14L.written, fin]

/-- for every configuration (any source kind, range, faults — inside or outside the documented
    domain) and every event list `pre ++ stop :: post` whose first `stop` is the one shown and
    where no `start`/`stop` follows it: after the marker of the stop event the log holds exactly
    the `fin` that `stop()` itself signals, then event markers only — no `wrote`, no other `fin`,
    whatever turns, arrivals or eof follow; the destination content is what it was before -/
theorem stop_halts (c : Cfg) (pre post : List Ev) (hpre : Ev.stop ∉ pre) (hpost : quiet post = true) :
    let evs := pre ++ .stop :: post
    let tail := afterStop evs (Copier.run c evs).log
    Obs.countP isWrote tail = 0 ∧ Obs.countP isFin tail = 1 ∧
    writtenOf (Copier.run c evs).log = writtenOf (Copier.run c pre).log := by
  intro evs tail
  obtain ⟨⟨ms, ht, hms⟩, hw⟩ := afterStop_run c pre post hpre hpost
  refine ⟨?_, ?_, hw⟩
  · show Obs.countP isWrote (afterStop evs (Copier.run c evs).log) = 0
    rw [ht, isWrote_eq, C14L.cnt_cons, C14L.cnt_of_mk C14L.mk_not_wrote hms]; rfl
  · show Obs.countP isFin (afterStop evs (Copier.run c evs).log) = 1
    rw [ht, isFin_eq, C14L.cnt_cons, C14L.cnt_of_mk C14L.mk_not_fin hms]; rfl

/-! ### 6. the executable predicate holds on every model run -/

theorem asked_nonseq (c : Cfg) (h : c.seq = false) : asked c = wanted c := by simp [asked, h]
theorem asked_seq (c : Cfg) (h : c.seq = true) : asked c = c.src := by simp [asked, h]

/-- `holds` from its five clauses in mathematical form (inside the documented domain) -/
theorem holds_intro (c : Cfg) (evs : List Ev) (obs : List Obs)
    (h : c.block ≥ 1 → (c.seq = true → c.range = none) → (c.seq = false → rangeOK c = true) →
      (writtenOf obs <+: asked c) ∧
      (hasStop evs = false → Obs.countP isWrote ((obs.dropWhile (fun o => !isFin o)).drop 1) = 0) ∧
      (hasStop evs = false → anyFault c = false →
        (if c.seq then evs.getLast? = some .eof
         else nTurns evs ≥ (wanted c).length / c.block + 2 ∧ evs.head? = some .start) →
        writtenOf obs = asked c ∧ Obs.countP isFin obs = 1) ∧
      (anyFault c = true → hasStop evs = false → c.seq = false → Obs.countP isErr obs ≥ 1 →
        Obs.countP isFin obs = 1 ∧ Obs.countP isErr (obs.dropWhile (fun o => !isFin o)) = 0) ∧
      (Obs.countP isWrote (afterStop evs obs) = 0 ∧ Obs.countP isFin (afterStop evs obs) ≤ 1)) :
    holds c evs obs = true := by
  unfold holds
  simp only []
  cases hdom : (decide (c.block ≥ 1) && (if c.seq then !c.range.isSome else rangeOK c))
  · rfl
  · simp only [Bool.and_eq_true, decide_eq_true_eq] at hdom
    obtain ⟨hb, hd2⟩ := hdom
    have hsr' : c.seq = true → c.range = none := by
      intro hs
      rw [hs] at hd2
      simp only [if_true] at hd2
      cases hh : c.range <;> simp_all
    have hr : c.seq = false → rangeOK c = true := by
      intro hs
      rw [hs] at hd2
      simpa using hd2
    obtain ⟨hA, hB, hC, hD, hE1, hE2⟩ := h hb hsr' hr
    simp only [Bool.not_true, Bool.false_eq_true, if_false]
    refine Bool.and_eq_true_iff.2 ⟨Bool.and_eq_true_iff.2 ⟨Bool.and_eq_true_iff.2 ⟨Bool.and_eq_true_iff.2 ⟨?_, ?_⟩, ?_⟩, ?_⟩,
      Bool.and_eq_true_iff.2 ⟨?_, ?_⟩⟩
    · exact List.isPrefixOf_iff_prefix.2 hA
    · cases hst : hasStop evs
      · rw [hB hst]; rfl
      · rfl
    · generalize hc : (!hasStop evs && !anyFault c && _) = cnd
      cases cnd
      · rfl
      · simp only [Bool.and_eq_true, Bool.not_eq_true'] at hc
        obtain ⟨⟨h1, h2⟩, h3⟩ := hc
        have := hC h1 h2 (by
          cases hs : c.seq
          · rw [hs] at h3; simpa using h3
          · rw [hs] at h3; simpa using h3)
        simp [this.1, this.2]
    · generalize hc : (anyFault c && !hasStop evs && !c.seq && _) = cnd
      cases cnd
      · rfl
      · simp only [Bool.and_eq_true, Bool.not_eq_true', decide_eq_true_eq] at hc
        obtain ⟨⟨⟨h1, h2⟩, h3⟩, h4⟩ := hc
        have := hD h1 h2 h3 h4
        simp [this.1, this.2]
    · rw [hE1]; rfl
    · exact decide_eq_true hE2

/-- scenario shape: `start` first and only there, at most one `stop`; for a sequential source
    additionally: `eof` at most once and only as the last event, the arrivals (`arrive` and the
    quiet `arriveQ`) are (in order) pieces of a prefix of the source content, and all of it when
    the scenario ends with `eof`.  (On a
    random-access source arrivals and eof are no-ops and may occur anywhere.) -/
def shape (c : Cfg) (evs : List Ev) : Bool :=
  match evs with
  | .start :: rest =>
    !rest.contains .start && decide ((rest.filter (· == .stop)).length ≤ 1) &&
    (!c.seq ||
      (!rest.dropLast.contains .eof && (arrivedOf rest).isPrefixOf c.src &&
       (rest.getLast? != some .eof || arrivedOf rest == c.src)))
  | _ => false

theorem snoc_cases {α : Type} (l : List α) : l = [] ∨ ∃ r a, l = r ++ [a] := by
  induction l with
  | nil => exact Or.inl rfl
  | cons x l ih =>
    right
    rcases ih with rfl | ⟨r, a, rfl⟩
    · exact ⟨[], x, rfl⟩
    · exact ⟨x :: r, a, rfl⟩

theorem stop_count_split {r1 r2 : List Ev}
    (h : ((r1 ++ Ev.stop :: r2).filter (· == Ev.stop)).length ≤ 1) : Ev.stop ∉ r1 ∧ Ev.stop ∉ r2 := by
  rw [List.filter_append, List.length_append, List.filter_cons] at h
  simp only [beq_self_eq_true, if_true, List.length_cons] at h
  constructor
  · intro hm
    have : 0 < (r1.filter (· == Ev.stop)).length := List.length_filter_pos_iff.2 ⟨_, hm, by simp⟩
    omega
  · intro hm
    have : 0 < (r2.filter (· == Ev.stop)).length := List.length_filter_pos_iff.2 ⟨_, hm, by simp⟩
    omega

theorem hasStop_iff (evs : List Ev) : hasStop evs = true ↔ Ev.stop ∈ evs := by
  simp [hasStop]

theorem afterStop_none (evs : List Ev) (obs : List Obs) (h : Ev.stop ∉ evs) : afterStop evs obs = [] := by
  unfold afterStop
  have : evs.findIdx? (· == Ev.stop) = none := by
    apply List.findIdx?_eq_none_iff.2
    intro x hx
    cases hh : (x == Ev.stop)
    · rfl
    · have : x = Ev.stop := by simpa using hh
      exact absurd (this ▸ hx) h
  rw [this]

theorem nTurns_start (rest : List Ev) : nTurns (.start :: rest) = C14L.nTurns rest := by
  rw [nTurns_eq, C14L.nTurns_cons]; simp

theorem wanted_none (c : Cfg) (h : c.range = none) : wanted c = c.src.drop c.prePos := by simp [wanted, h]

/-- **C14, main theorem.**  On every model run of the scenario shape — `start`, then any mix of
    event-loop turns, at most one `stop`, and for a sequential source the arrivals of the source
    content in arbitrary pieces, announced or quiet, with `eof` last — for every configuration
    (content, block size, range, source kind, position of the random-access source at the
    beginning, device faults), the executable predicate holds. -/
theorem holds_run (c : Cfg) (evs : List Ev) (hs : shape c evs = true) :
    holds c evs (Copier.run c evs).log = true := by
  cases evs with
  | nil => simp [shape] at hs
  | cons e0 rest =>
  cases e0 with
  | turn => simp [shape] at hs
  | stop => simp [shape] at hs
  | arrive b => simp [shape] at hs
  | eof => simp [shape] at hs
  | arriveQ b => simp [shape] at hs
  | start =>
  simp only [shape, Bool.and_eq_true, Bool.not_eq_true', decide_eq_true_eq, Bool.or_eq_true,
    List.contains_eq_mem, decide_eq_false_iff_not, bne_iff_ne, ne_eq, beq_iff_eq] at hs
  obtain ⟨⟨h_ns, h_st⟩, h_sq⟩ := hs
  apply holds_intro
  intro hb hsr hr
  by_cases hstop : Ev.stop ∈ rest
  · -- a stop: only the prefix clause and the stop clause are active
    obtain ⟨r1, r2, rfl⟩ := List.append_of_mem hstop
    obtain ⟨hs1, hs2⟩ := stop_count_split h_st
    have hn1 : Ev.start ∉ r1 := fun h => h_ns (List.mem_append_left _ h)
    have hn2 : Ev.start ∉ r2 := fun h => h_ns (List.mem_append_right _ (List.mem_cons_of_mem _ h))
    have hq1 : ∀ e ∈ r1, e ≠ Ev.start ∧ e ≠ Ev.stop :=
      fun e he => ⟨fun h => hn1 (h ▸ he), fun h => hs1 (h ▸ he)⟩
    have hq2 : quiet r2 = true :=
      quiet_iff.2 fun e he => ⟨fun h => hn2 (h ▸ he), fun h => hs2 (h ▸ he)⟩
    have hpre : Ev.stop ∉ (Ev.start :: r1) := by simp [hs1]
    have hevs : Ev.start :: (r1 ++ Ev.stop :: r2) = (Ev.start :: r1) ++ Ev.stop :: r2 := rfl
    have hhas : hasStop (Ev.start :: (r1 ++ Ev.stop :: r2)) = true := by
      rw [hasStop_iff]; simp
    obtain ⟨⟨ms, ht, hms⟩, hw⟩ := afterStop_run c (Ev.start :: r1) r2 hpre hq2
    rw [← hevs] at ht hw
    refine ⟨?_, ?_, ?_, ?_, ?_, ?_⟩
    · rw [hw]
      cases hseq : c.seq
      · rw [asked_nonseq c hseq]
        exact (C14L.run_ninv c hseq hb (C14L.rangeNF_of_ok c (hr hseq)) r1 hq1).prefix
      · rcases h_sq with h | ⟨⟨he, hp⟩, _⟩
        · rw [hseq] at h; cases h
        · have he1 : ∀ e ∈ r1, e ≠ Ev.start ∧ e ≠ Ev.stop ∧ e ≠ Ev.eof := by
            intro e he'
            refine ⟨(hq1 e he').1, (hq1 e he').2, ?_⟩
            intro h; subst h
            apply he
            rw [List.dropLast_append_of_ne_nil (by simp)]
            exact List.mem_append_left _ he'
          have h1 := (C14L.run_sinv c hseq r1 he1).prefix
          rw [asked_seq c hseq]
          refine h1.trans (List.IsPrefix.trans ?_ (List.isPrefixOf_iff_prefix.1 hp))
          rw [arrivedOf_eq, C14L.arrived_append]
          exact List.prefix_append _ _
    · intro h; rw [hhas] at h; cases h
    · intro h; rw [hhas] at h; cases h
    · intro _ h; rw [hhas] at h; cases h
    · rw [ht, isWrote_eq, C14L.cnt_cons, C14L.cnt_of_mk C14L.mk_not_wrote hms]; rfl
    · rw [ht, isFin_eq, C14L.cnt_cons, C14L.cnt_of_mk C14L.mk_not_fin hms]; exact Nat.le_refl _
  · -- left to run
    have hq : ∀ e ∈ rest, e ≠ Ev.start ∧ e ≠ Ev.stop :=
      fun e he => ⟨fun h => h_ns (h ▸ he), fun h => hstop (h ▸ he)⟩
    have hnostop : Ev.stop ∉ (Ev.start :: rest) := by simp [hstop]
    have hhas : hasStop (Ev.start :: rest) = false := by
      cases h : hasStop (Ev.start :: rest)
      · rfl
      · exact absurd ((hasStop_iff _).1 h) hnostop
    have hE : Obs.countP isWrote (afterStop (Ev.start :: rest) (Copier.run c (Ev.start :: rest)).log) = 0 ∧
        Obs.countP isFin (afterStop (Ev.start :: rest) (Copier.run c (Ev.start :: rest)).log) ≤ 1 := by
      rw [afterStop_none _ _ hnostop]; exact ⟨rfl, Nat.zero_le _⟩
    cases hseq : c.seq
    · -- random-access source
      have hnf := C14L.rangeNF_of_ok c (hr hseq)
      have hinv := C14L.run_ninv c hseq hb hnf rest hq
      rw [asked_nonseq c hseq]
      refine ⟨hinv.prefix, ?_, ?_, ?_, hE⟩
      · intro _
        rcases hinv with h | h
        · rw [isFin_eq, C14L.dropWhile_notFin_of_cnt h.nofin]; rfl
        · exact h.closed.no_wrote_after
      · intro _ hfa hcond
        simp only [Bool.false_eq_true, if_false] at hcond
        rw [nTurns_start] at hcond
        have hd := hinv.done hb (by have := hcond.1; rw [wanted_eq] at this; omega)
        rcases hd.res with ⟨_, hw, _, _⟩ | ⟨_, hf⟩
        · exact ⟨hw, hd.closed.cnt_fin⟩
        · rw [← anyFault_eq, hfa] at hf; cases hf
      · intro _ _ _ herr
        rcases hinv with h | h
        · have := h.noerr; rw [isErr_eq] at herr; omega
        · exact ⟨h.closed.cnt_fin, h.closed.no_err_after⟩
    · -- sequential source
      have hrange := hsr hseq
      rcases h_sq with h | ⟨⟨he, hp⟩, hlast⟩
      · rw [hseq] at h; cases h
      have hp' := List.isPrefixOf_iff_prefix.1 hp
      rw [asked_seq c hseq]
      rcases snoc_cases rest with rfl | ⟨r, a, rfl⟩
      · -- just `start`
        have hinv := C14L.run_sinv c hseq [] (by simp)
        refine ⟨hinv.prefix.trans (by simp [C14L.arrived]), ?_, ?_, ?_, hE⟩
        · intro _
          rcases hinv with h | h
          · rw [isFin_eq, C14L.dropWhile_notFin_of_cnt h.nofin]; rfl
          · exact h.closed.no_wrote_after
        · intro _ _ hcond; simp at hcond
        · intro _ _ h; cases h
      · rw [List.dropLast_concat] at he
        rw [List.getLast?_concat] at hlast
        have hre : ∀ e ∈ r, e ≠ Ev.start ∧ e ≠ Ev.stop ∧ e ≠ Ev.eof := fun e he' =>
          ⟨(hq e (List.mem_append_left _ he')).1, (hq e (List.mem_append_left _ he')).2,
           fun h => he (h ▸ he')⟩
        by_cases ha : a = Ev.eof
        · subst ha
          obtain ⟨hcl, hpre, hclean⟩ := C14L.run_seq_eof c hseq r hre
          have harr : arrivedOf (r ++ [Ev.eof]) = C14L.arrived r := by
            rw [arrivedOf_eq, C14L.arrived_append]; simp [C14L.arrived, C14L.pieceOf]
          rw [harr] at hp' hlast
          refine ⟨hpre.trans hp', fun _ => hcl.no_wrote_after, ?_, ?_, hE⟩
          · intro _ hfa _
            refine ⟨?_, hcl.cnt_fin⟩
            rw [writtenOf_eq, (hclean (by rw [← anyFault_eq]; exact hfa)).1]
            rcases hlast with h | h
            · exact absurd rfl h
            · exact h
          · intro _ _ h; cases h
        · have hall : ∀ e ∈ r ++ [a], e ≠ Ev.start ∧ e ≠ Ev.stop ∧ e ≠ Ev.eof := by
            intro e he'
            rcases List.mem_append.1 he' with h | h
            · exact hre e h
            · simp at h; subst h; exact ⟨(hq e he').1, (hq e he').2, ha⟩
          have hinv := C14L.run_sinv c hseq (r ++ [a]) hall
          refine ⟨hinv.prefix.trans hp', ?_, ?_, ?_, hE⟩
          · intro _
            rcases hinv with h | h
            · rw [isFin_eq, C14L.dropWhile_notFin_of_cnt h.nofin]; rfl
            · exact h.closed.no_wrote_after
          · intro _ _ hcond
            simp only [if_true] at hcond
            rw [List.getLast?_cons, List.getLast?_concat] at hcond
            simp at hcond
            exact absurd hcond ha
          · intro _ _ h; cases h

/-! ### non-vacuity -/

private def abcdefg : Bytes := [65, 66, 67, 68, 69, 70, 71]
private def cfgR : Cfg := { src := abcdefg, block := 3, range := some (2, 5) }

-- "ABCDEFG", block 3, range (2,5), start + 4 turns: "CDEF" is written, one fin, `holds`
example : writtenOf (Copier.run cfgR [.start, .turn, .turn, .turn, .turn]).log = [67, 68, 69, 70] := by decide
example : Obs.countP isFin (Copier.run cfgR [.start, .turn, .turn, .turn, .turn]).log = 1 := by decide
example : holds cfgR [.start, .turn, .turn, .turn, .turn]
    (Copier.run cfgR [.start, .turn, .turn, .turn, .turn]).log = true := by decide
-- the hypotheses of `exact_random_access` are satisfiable, with a multi-block copy
example : cfgR.seq = false ∧ anyFault cfgR = false ∧ cfgR.block ≥ 1 ∧ rangeOK cfgR = true ∧
    4 ≥ (wanted cfgR).length / cfgR.block + 2 := by decide
-- reversed range (5,2): error then completion, nothing written; empty range (3,2): completion only
example : (Copier.run { cfgR with range := some (5, 2) } [.start, .turn, .turn]).log =
    [.ev 0, .ev 1, err, fin, .ev 2] := by decide
example : (Copier.run { cfgR with range := some (3, 2) } [.start, .turn, .turn]).log =
    [.ev 0, .ev 1, fin, .ev 2] := by decide

-- a stop after the first turn: "CDE" was written, then stop's `fin`, then nothing
private def evsStop : List Ev := [.start, .turn, .stop, .turn, .turn, .turn]
example : (Copier.run cfgR evsStop).log =
    [.ev 0, .ev 1, wrote [67, 68, 69], .ev 2, fin, .ev 3, .ev 4, .ev 5] := by decide
example : shape cfgR evsStop = true := by decide
example : holds cfgR evsStop (Copier.run cfgR evsStop).log = true := by decide
-- the hypotheses of `stop_halts` are satisfiable (pre = start, turn; post = three turns)
example : Ev.stop ∉ [Ev.start, Ev.turn] ∧ quiet [Ev.turn, Ev.turn, Ev.turn] = true := by decide

-- a sequential source "ABC" delivered as "AB" | "" | "C"
private def cfgS : Cfg := { src := [65, 66, 67], seq := true }
private def evsS : List Ev := [.start, .turn, .arrive [65, 66], .arrive [], .turn, .arrive [67], .eof]
example : (Copier.run cfgS evsS).log =
    [.ev 0, .ev 1, .ev 2, wrote [65, 66], .ev 3, .ev 4, .ev 5, wrote [67], .ev 6, fin] := by decide
example : writtenOf (Copier.run cfgS evsS).log = [65, 66, 67] ∧
    Obs.countP isFin (Copier.run cfgS evsS).log = 1 := by decide
example : cfgS.seq = true ∧ anyFault cfgS = false ∧
    feedOnly [.turn, .arrive [65, 66], .arrive [], .turn, .arrive [67]] = true := by decide
example : shape cfgS evsS = true := by decide
example : holds cfgS evsS (Copier.run cfgS evsS).log = true := by decide
-- a sequential copy stopped between two arrivals
example : shape cfgS [.start, .arrive [65, 66], .stop, .arrive [67], .eof] = true := by decide
example : holds cfgS [.start, .arrive [65, 66], .stop, .arrive [67], .eof]
    (Copier.run cfgS [.start, .arrive [65, 66], .stop, .arrive [67], .eof]).log = true := by decide

-- faults: the second read fails after one block was written; the seek fails
private def cfgF : Cfg := { cfgR with readFailAt := some 1 }
example : faultReached cfgF = true ∧ cfgF.seq = false ∧ rangeOK cfgF = true ∧ cfgF.block ≥ 1 := by decide
example : (Copier.run cfgF [.start, .turn, .turn, .turn, .turn]).log =
    [.ev 0, .ev 1, wrote [67, 68, 69], .ev 2, err, fin, .ev 3, .ev 4] := by decide
example : faultReached { cfgR with seekFails := true } = true := by decide
example : (Copier.run { cfgR with seekFails := true } [.start, .turn]).log = [.ev 0, err, fin, .ev 1] := by decide
example : shape cfgF [.start, .turn, .turn, .turn, .turn] = true ∧
    holds cfgF [.start, .turn, .turn, .turn, .turn]
      (Copier.run cfgF [.start, .turn, .turn, .turn, .turn]).log = true := by decide
-- `shape` rejects what it should: a second start, two stops, eof in the middle of a sequential run
example : shape cfgR [.start, .turn, .start] = false ∧ shape cfgR [.start, .stop, .stop] = false ∧
    shape cfgS [.start, .eof, .arrive [65]] = false ∧ shape cfgS [.start, .arrive [66]] = false := by decide

-- a source that has been read from: "ABCDEFG" standing at 2, block 3: "CDEFG" is copied; with the range
-- (0,4) (no seek): "CDE"; with the range (3,5) `start()` seeks: "DEF" wherever the source stood
private def cfgP : Cfg := { src := abcdefg, block := 3, prePos := 2 }
example : writtenOf (Copier.run cfgP [.start, .turn, .turn, .turn, .turn]).log = [67, 68, 69, 70, 71] ∧
    wanted cfgP = [67, 68, 69, 70, 71] := by decide
example : writtenOf (Copier.run { cfgP with range := some (0, 4) } [.start, .turn, .turn, .turn]).log = [67, 68, 69] ∧
    wanted { cfgP with range := some (0, 4) } = [67, 68, 69] := by decide
example : writtenOf (Copier.run { cfgP with range := some (3, 5), prePos := 6 } [.start, .turn, .turn, .turn]).log = [68, 69, 70] ∧
    wanted { cfgP with range := some (3, 5), prePos := 6 } = [68, 69, 70] := by decide
-- the hypotheses of `exact_random_access` / `errors` are satisfiable with a position > 0 (and `rangeOK`'s
-- side condition "the first byte lies inside the source" with it), on a multi-block copy
example : cfgP.seq = false ∧ anyFault cfgP = false ∧ cfgP.block ≥ 1 ∧ rangeOK cfgP = true ∧ firstPos cfgP = 2 ∧
    4 ≥ (wanted cfgP).length / cfgP.block + 2 := by decide
example : rangeOK { cfgP with range := some (0, 4) } = true ∧ rangeOK { cfgP with prePos := 7 } = true ∧
    rangeOK { cfgP with prePos := 8 } = false ∧ rangeOK { cfgP with range := some (0, 1) } = false := by decide
example : faultReached { cfgP with readFailAt := some 1 } = true ∧
    (Copier.run { cfgP with readFailAt := some 1 } [.start, .turn, .turn, .turn]).log =
      [.ev 0, .ev 1, wrote [67, 68, 69], .ev 2, err, fin, .ev 3] := by decide
example : holds cfgP [.start, .turn, .turn, .turn, .turn] (Copier.run cfgP [.start, .turn, .turn, .turn, .turn]).log = true ∧
    -- a copier that rewinds the source to 0 is rejected
    holds cfgP [.start, .turn, .turn, .turn, .turn]
      [.ev 0, .ev 1, wrote [65, 66, 67], .ev 2, wrote [68, 69, 70], .ev 3, wrote [71], fin, .ev 4] = false := by decide
-- the range (0,2) on a source standing at 5: its end lies before the first byte (error, completion, nothing
-- written); (0,4): the empty range
example : (Copier.run { cfgP with range := some (0, 2), prePos := 5 } [.start, .turn, .turn]).log =
    [.ev 0, .ev 1, err, fin, .ev 2] ∧
    (Copier.run { cfgP with range := some (0, 4), prePos := 5 } [.start, .turn, .turn]).log =
    [.ev 0, .ev 1, fin, .ev 2] := by decide

-- a sequential source "ABC": "A" announced, "BC" arriving quietly with the end of the stream
private def evsQ : List Ev := [.start, .turn, .arrive [65], .arriveQ [66, 67], .eof]
example : (Copier.run cfgS evsQ).log =
    [.ev 0, .ev 1, .ev 2, wrote [65], .ev 3, .ev 4, wrote [66, 67], fin] := by decide
example : feedOnly [.turn, .arrive [65], .arriveQ [66, 67]] = true ∧
    arrivedOf [.turn, .arrive [65], .arriveQ [66, 67]] = [65, 66, 67] := by decide
example : shape cfgS evsQ = true ∧ holds cfgS evsQ (Copier.run cfgS evsQ).log = true ∧
    -- a copier that does not drain the source at the end of the stream is rejected
    holds cfgS evsQ [.ev 0, .ev 1, .ev 2, wrote [65], .ev 3, .ev 4, fin] = false := by decide
-- nothing but quiet arrivals: the timer-triggered read takes the first, the end of the stream the second
example : (Copier.run cfgS [.start, .arriveQ [65, 66], .turn, .arriveQ [67], .eof]).log =
    [.ev 0, .ev 1, .ev 2, wrote [65, 66], .ev 3, .ev 4, wrote [67], fin] := by decide

/-! ### open failures (`holdsOpen`) -/

theorem counts_idle_log (d : List Obs) (hd : d.all C14O.isEv = true) :
    Obs.countP isErr ([Obs.ev 0, err, fin] ++ d) = 1 ∧ Obs.countP isFin ([Obs.ev 0, err, fin] ++ d) = 1 ∧
    Obs.countP isWrote ([Obs.ev 0, err, fin] ++ d) = 0 ∧
    Obs.countP isErr (([Obs.ev 0, err, fin] ++ d).dropWhile (fun o => !isFin o)) = 0 := by
  have h0 : ∀ (p : Obs → Bool), (∀ k, p (Obs.ev k) = false) → (d.filter p).length = 0 := by
    intro p hp
    induction d with
    | nil => rfl
    | cons o d ih =>
      simp only [List.all_cons, Bool.and_eq_true] at hd
      cases o <;> simp_all [C14O.isEv]
  have e1 := h0 isErr (fun _ => rfl)
  have e2 := h0 isFin (fun _ => rfl)
  have e3 := h0 isWrote (fun _ => rfl)
  refine ⟨?_, ?_, ?_, ?_⟩
  · simp [Obs.countP, List.filter_cons, isErr, err, fin, e1]
  · simp [Obs.countP, List.filter_cons, isFin, err, fin, e2]
  · simp [Obs.countP, List.filter_cons, isWrote, err, fin, e3]
  · simp [Obs.countP, List.dropWhile, List.filter_cons, isFin, isErr, err, fin, e1]

/-- **C14 (`holdsOpen_run`)**: for every configuration whose source or destination cannot be
    opened and every event list — arrivals, end of data and timer turns in any number and order
    after the `start` — the model signals exactly one error followed by exactly one completion and
    copies nothing -/
theorem holdsOpen_run (c : Cfg) (evs : List Ev) : holdsOpen c evs (run c evs).log = true := by
  unfold holdsOpen
  split
  · rename_i h
    simp only [Bool.and_eq_true, Bool.not_eq_true', beq_iff_eq] at h
    obtain ⟨⟨⟨hf, hh⟩, hn⟩, hst⟩ := h
    cases evs with
    | nil => simp at hh
    | cons e rest =>
      simp only [List.head?_cons, Option.some.injEq] at hh
      subst hh
      have h1 : ∀ x ∈ rest, x ≠ Ev.start := by
        intro x hx hxe
        subst hxe
        have : ((Ev.start :: rest).filter (· == Ev.start)).length ≥ 2 := by
          have hm : Ev.start ∈ rest.filter (· == Ev.start) := List.mem_filter.2 ⟨hx, by simp⟩
          have := List.length_pos_of_mem hm
          simp [List.filter_cons]; omega
        omega
      have h2 : ∀ x ∈ rest, x ≠ Ev.stop := by
        intro x hx hxe
        subst hxe
        have : hasStop (Ev.start :: rest) = true := by
          simp only [hasStop, List.any_cons, List.any_eq_true, Bool.or_eq_true]
          exact Or.inr ⟨Ev.stop, hx, by decide⟩
        rw [this] at hst; cases hst
      have hidle := C14O.run_idle c rest _ 1 (C14O.start_idle c hf) h1 h2
      have hrun : (run c (Ev.start :: rest)).log = ((rest.foldl (stepK c) ((stepK c (init c, 0) .start).1, 1)).1).log := rfl
      obtain ⟨_, _, d, hl, hd⟩ := hidle
      rw [hrun, hl]
      obtain ⟨a, b, c', d'⟩ := counts_idle_log d hd
      rw [a, b, c', d']; rfl
  · rfl

/-- the open-failure clause is not vacuous: a sequential source whose destination cannot be
    opened, with data and end-of-data announced afterwards -/
example : openFault { src := [1, 2], seq := true, dstOpenFails := true } = true ∧
    holdsOpen { src := [1, 2], seq := true, dstOpenFails := true } [.start, .arrive [1, 2], .turn, .eof]
      [Obs.ev 0, err, fin, Obs.ev 1, err, Obs.ev 2, Obs.ev 3, fin] = false := by decide

/-- **C14 (`holdsAll_run`)**: the predicate the driver evaluates holds on every run of the model
    of the documented shape -/
theorem holdsAll_run (c : Cfg) (evs : List Ev) (hs : shape c evs = true) :
    holdsAll c evs (run c evs).log = true := by
  simp [holdsAll, holds_run c evs hs, holdsOpen_run c evs]

/-! ### reversed ranges (`0 ≤ to < from`): the requested range is empty -/

/-- `start` followed by at least one turn and nothing else -/
def startTurns (evs : List Ev) : Bool :=
  match evs with
  | .start :: r => !r.isEmpty && r.all (· == .turn)
  | _ => false

/-- a range whose end lies before the first byte (its start if > 0, else where the source stands)
    asks for no byte at all: nothing reaches the destination
    and completion is signalled exactly once (random-access source, no injected fault, left to run) -/
def holdsReversed (c : Cfg) (evs : List Ev) (obs : List Obs) : Bool :=
  match c.range with
  | some (_, t) =>
    if !c.seq && !anyFault c && decide (0 ≤ t) && decide (t < firstPos c) && decide (firstPos c ≤ c.src.length) && startTurns evs
    then writtenOf obs == [] && Obs.countP isFin obs == 1
    else true
  | none => true

theorem startTurns_shape (evs : List Ev) (h : startTurns evs = true) :
    ∃ n, evs = .start :: List.replicate (n + 1) .turn := by
  match evs, h with
  | .start :: r, h =>
    simp only [startTurns, Bool.and_eq_true, Bool.not_eq_true', List.all_eq_true, beq_iff_eq] at h
    obtain ⟨hne, hall⟩ := h
    refine ⟨r.length - 1, ?_⟩
    have hlen : r.length - 1 + 1 = r.length := by
      cases r with
      | nil => simp at hne
      | cons _ _ => simp
    rw [hlen]
    congr 1
    exact List.eq_replicate_iff.mpr ⟨rfl, hall⟩

/-- **C14 (`holdsReversed_run`)**: on the model, for every source, block size and reversed range -/
theorem holdsReversed_run (c : Cfg) (evs : List Ev) : holdsReversed c evs (run c evs).log = true := by
  unfold holdsReversed
  split
  · rename_i f t hr
    split
    · rename_i hc
      simp only [Bool.and_eq_true, Bool.not_eq_true', decide_eq_true_eq] at hc
      obtain ⟨⟨⟨⟨⟨hseq, hnf⟩, ht0⟩, htf⟩, hfl⟩, hst⟩ := hc
      obtain ⟨n, rfl⟩ := startTurns_shape evs hst
      obtain ⟨_, hw, hfin, _, _⟩ := reversed_range c hseq hnf f t hr ht0 htf hfl n
      simp [hw, hfin]
    · rfl
  · rfl

/-- not vacuous: the range (2, 0) on a three-byte source; a copy that delivered the tail fails it -/
example : holdsReversed { src := [65, 66, 67], block := 3, range := some (2, 0) } [.start, .turn, .turn]
      (run { src := [65, 66, 67], block := 3, range := some (2, 0) } [.start, .turn, .turn]).log = true ∧
    holdsReversed { src := [65, 66, 67], block := 3, range := some (2, 0) } [.start, .turn, .turn]
      [Obs.ev 0, Obs.ev 1, wrote [67], fin, Obs.ev 2] = false := by decide

/-- the predicate the driver evaluates -/
def holdsEvery (c : Cfg) (evs : List Ev) (obs : List Obs) : Bool := holdsAll c evs obs && holdsReversed c evs obs

/-- **C14 (`holdsEvery_run`)** -/
theorem holdsEvery_run (c : Cfg) (evs : List Ev) (hs : shape c evs = true) :
    holdsEvery c evs (run c evs).log = true := by
  simp [holdsEvery, holdsAll_run c evs hs, holdsReversed_run c evs]


/-! ### 7. `start()` again after `stop()` -/

/-- a range start > 0 makes `start()` seek: where the source stood is irrelevant -/
theorem wanted_seek (c : Cfg) (q : Nat) (h : rangeFrom c > 0) : wanted { c with prePos := q } = wanted c := by
  unfold wanted
  cases hr : c.range with
  | none => simp [rangeFrom, hr] at h
  | some ft =>
    obtain ⟨f, t⟩ := ft
    have hf : f > 0 := by simpa [rangeFrom, hr] using h
    simp only [hf, if_true]

theorem rangeOK_seek (c : Cfg) (q : Nat) (h : rangeFrom c > 0) : rangeOK { c with prePos := q } = rangeOK c := by
  have e1 : firstPos { c with prePos := q } = firstPos c := by
    unfold firstPos
    have : rangeFrom { c with prePos := q } = rangeFrom c := rfl
    rw [this, if_pos h, if_pos h]
  unfold rangeOK
  simp only [e1]
  cases hr : c.range with
  | none => simp [rangeFrom, hr] at h
  | some ft => rfl

/-- **the second run.**  A random-access copier that has run before (events `pre`, whatever they
    were) and whose timer is idle — the stale 0 ms timer of a stopped copy has fired — is started
    again, no device fault injected; `c2` is the configuration whose source stands where `pre`
    left it (`(run c pre).pos`).  Then the observations from the marker of that `start` on
    (`tail`) are those of a first run of `c2`: whatever events other than start/stop follow, the
    bytes written are a prefix of `wanted c2`; left to run they are exactly `wanted c2`, with exactly
    one further completion, after the last write, and no error.
    `rangeOK c2` asks that the first byte of the second run lies inside the source and not beyond
    the end of the range (see `reversed_range` for the other case); it holds in particular when
    the first run was stopped before it reached the end of the range (`restart_resumes`) and, if
    the range start is > 0, whenever `rangeOK c` does (`restart_ranged`). -/
theorem restart (c : Cfg) (hseq : c.seq = false) (hnf : anyFault c = false) (hb : c.block ≥ 1)
    (pre r : List Ev) (hidle : (Copier.run c pre).pending = .none)
    (hr : rangeOK { c with prePos := (Copier.run c pre).pos } = true) (hq : quiet r = true) :
    let c2 : Cfg := { c with prePos := (Copier.run c pre).pos }
    let s := Copier.run c (pre ++ .start :: r)
    let tail := s.log.drop (Copier.run c pre).log.length
    s.log = (Copier.run c pre).log ++ tail ∧
    tail.head? = some (Obs.ev pre.length) ∧ Obs.ev pre.length ∉ (Copier.run c pre).log ∧
    writtenOf tail <+: wanted c2 ∧
    (nTurns r ≥ (wanted c2).length / c.block + 2 →
      writtenOf tail = wanted c2 ∧
      Obs.countP isFin tail = 1 ∧
      Obs.countP isErr tail = 0 ∧
      Obs.countP isWrote ((tail.dropWhile (fun o => !isFin o)).drop 1) = 0 ∧
      s.pending = .none) := by
  intro c2 s tail
  have hnf2 : C14L.RangeNF c2 := C14L.rangeNF_of_ok c2 hr
  obtain ⟨s2, rest, hlog, hpend, hs2, hmk, hinv⟩ :=
    C14L.run_restart c hseq hnf hb pre r hidle hnf2 (quiet_iff.1 hq)
  have htail : tail = s2.log := by
    show (Copier.run c (pre ++ .start :: r)).log.drop _ = _
    rw [hlog, List.drop_left]
  rw [htail]
  refine ⟨hlog, by rw [hs2]; rfl, hmk, hinv.prefix, ?_⟩
  intro hn
  have hd : C14L.Done c2 s2 := hinv.done hb (by
    show C14L.nTurns r ≥ (C14L.wanted c2).length / c.block + 1
    rw [nTurns_eq, wanted_eq] at hn; omega)
  rcases hd.res with ⟨he, hw, _, _⟩ | ⟨_, hf⟩
  · exact ⟨hw, hd.closed.cnt_fin, he, hd.closed.no_wrote_after, by show (Copier.run c _).pending = _; rw [hpend]; exact hd.pending⟩
  · have : C14L.anyFault c2 = C14L.anyFault c := rfl
    rw [this, ← anyFault_eq, hnf] at hf; cases hf

/-- the second run of a copy with a range start > 0: `start()` seeks there again, so — wherever
    the first run was stopped — the second run, left to run, writes exactly the wanted bytes
    again, followed by exactly one further completion -/
theorem restart_ranged (c : Cfg) (hseq : c.seq = false) (hnf : anyFault c = false) (hb : c.block ≥ 1)
    (hfrom : rangeFrom c > 0) (hr : rangeOK c = true)
    (pre r : List Ev) (hidle : (Copier.run c pre).pending = .none) (hq : quiet r = true)
    (hn : nTurns r ≥ (wanted c).length / c.block + 2) :
    let s := Copier.run c (pre ++ .start :: r)
    let tail := s.log.drop (Copier.run c pre).log.length
    s.log = (Copier.run c pre).log ++ tail ∧
    tail.head? = some (Obs.ev pre.length) ∧
    writtenOf tail = wanted c ∧
    Obs.countP isFin tail = 1 ∧
    Obs.countP isErr tail = 0 ∧
    Obs.countP isWrote ((tail.dropWhile (fun o => !isFin o)).drop 1) = 0 ∧
    s.pending = .none := by
  intro s tail
  have hw := wanted_seek c (Copier.run c pre).pos hfrom
  have hr2 : rangeOK { c with prePos := (Copier.run c pre).pos } = true := by
    rw [rangeOK_seek c _ hfrom]; exact hr
  obtain ⟨h1, h2, _, _, h5⟩ := restart c hseq hnf hb pre r hidle hr2 hq
  rw [hw] at h5
  obtain ⟨a, b, d, e, f⟩ := h5 hn
  exact ⟨h1, h2, a, b, d, e, f⟩

/-- the hypothesis "the timer is idle" of `restart` after a `stop()`: one event-loop turn after it
    (the stale timer fires and finds the copier stopped), then anything but `start` — and the
    source still stands where the events before the `stop` left it -/
theorem idle_after_stop (c : Cfg) (pre post : List Ev) (hpost : ∀ e ∈ post, e ≠ .start) :
    (Copier.run c (pre ++ .stop :: .turn :: post)).pending = .none ∧
    (Copier.run c (pre ++ .stop :: .turn :: post)).pos = (Copier.run c pre).pos :=
  C14L.run_stop_turn c pre post hpost

/-- a copy without range start (`rangeFrom ≤ 0`: no seek) whose source stands `d` bytes further:
    it is asked for the wanted bytes minus their first `d` -/
theorem wanted_shift (c : Cfg) (d : Nat) (hfrom : ¬ rangeFrom c > 0) :
    wanted { c with prePos := c.prePos + d } = (wanted c).drop d := by
  unfold wanted
  cases hr : c.range with
  | none => simp only []; rw [List.drop_drop]
  | some ft =>
    obtain ⟨f, t⟩ := ft
    have hf : ¬ f > 0 := by simpa [rangeFrom, hr] using hfrom
    simp only [hf, if_false]
    by_cases hf0 : f < 0
    · simp [hf0]
    · simp only [hf0, if_false]
      by_cases ht : t < 0
      · simp only [ht, if_true]; rw [List.drop_drop]
      · simp only [ht, if_false]
        by_cases h1 : t < (c.prePos : Int)
        · have h2 : t < ((c.prePos + d : Nat) : Int) := by omega
          rw [if_pos h1, if_pos h2, List.drop_nil]
        · rw [if_neg h1]
          by_cases h2 : t < ((c.prePos + d : Nat) : Int)
          · rw [if_pos h2]
            symm
            apply List.drop_eq_nil_of_le
            rw [List.length_take]; omega
          · rw [if_neg h2, List.drop_take, List.drop_drop]
            congr 1
            omega

/-- … and if fewer than `|wanted|` bytes (or none) lie behind, it is in the domain again -/
theorem rangeOK_shift (c : Cfg) (d : Nat) (hr : rangeOK c = true) (hfrom : ¬ rangeFrom c > 0)
    (hd : d = 0 ∨ d < (wanted c).length) : rangeOK { c with prePos := c.prePos + d } = true := by
  have hnf := C14L.rangeNF_of_ok c hr
  have hp : C14L.f0 c = c.prePos := C14L.f0_of_zero c hfrom
  have hlen := C14L.wanted_len_le c hnf
  have hle := hnf.f0_le
  rw [hp] at hlen hle
  rw [← wanted_eq] at hlen
  have hd' : c.prePos + d ≤ c.src.length := by omega
  have hfp : firstPos { c with prePos := c.prePos + d } = c.prePos + d := by
    unfold firstPos
    have : rangeFrom { c with prePos := c.prePos + d } = rangeFrom c := rfl
    rw [this, if_neg hfrom]
  unfold rangeOK
  rw [hfp]
  cases hrg : c.range with
  | none => simpa using hd'
  | some ft =>
    obtain ⟨f, t⟩ := ft
    have e1 : rangeFrom c = f := by simp [rangeFrom, hrg]
    have e2 : rangeTo c = t := by simp [rangeTo, hrg]
    have hf0 := hnf.from_nonneg
    rw [e1] at hf0
    have hto : t = -1 ∨ ((c.prePos + d : Nat) : Int) ≤ t := by
      rcases hnf.to_cases with ⟨h1, _⟩ | ⟨tn, h1, h2, h3⟩
      · left; rw [← e2]; exact h1
      · right
        rw [← e2, h1, hp] at *
        have : (wanted c).length ≤ tn + 1 - c.prePos := by
          rw [wanted_eq, h3, List.length_take]; omega
        omega
    simp only [Bool.and_eq_true, Bool.or_eq_true, decide_eq_true_eq, beq_iff_eq]
    exact ⟨⟨hf0, hto.symm.imp id id⟩, hd'⟩

/-- **stop mid-copy, then resume.**  A fault-free random-access copy without range start
    (`rangeFrom ≤ 0`: `start()` does not seek) is stopped after `m` blocks, with bytes still to copy
    (`m = 0` or `m * block < |wanted|`); at least one event-loop turn later (the stale timer fires)
    it is started again and left to run.  The first run wrote the first `m * block` wanted bytes;
    the second run writes exactly the rest — the source from the position where the first run
    stopped —, followed by exactly one further completion; together: exactly the wanted bytes,
    in order and without duplication. -/
theorem restart_resumes (c : Cfg) (hseq : c.seq = false) (hnf : anyFault c = false) (hb : c.block ≥ 1)
    (hr : rangeOK c = true) (hfrom : ¬ rangeFrom c > 0)
    (m : Nat) (hm : m = 0 ∨ m * c.block < (wanted c).length)
    (post r : List Ev) (hpost : quiet post = true) (hq : quiet r = true)
    (hn : nTurns r ≥ ((wanted c).length - m * c.block) / c.block + 2) :
    let pre := (.start :: List.replicate m .turn) ++ .stop :: .turn :: post
    let s := Copier.run c (pre ++ .start :: r)
    let tail := s.log.drop (Copier.run c pre).log.length
    s.log = (Copier.run c pre).log ++ tail ∧
    writtenOf (Copier.run c pre).log = (wanted c).take (m * c.block) ∧
    writtenOf tail = (wanted c).drop (m * c.block) ∧
    writtenOf s.log = wanted c ∧
    Obs.countP isFin tail = 1 ∧
    Obs.countP isErr tail = 0 ∧
    Obs.countP isWrote ((tail.dropWhile (fun o => !isFin o)).drop 1) = 0 ∧
    s.pending = .none := by
  intro pre s tail
  have hnfr := C14L.rangeNF_of_ok c hr
  have hrun := C14L.run_running c hseq hnf hb hnfr m (by rw [← wanted_eq]; exact hm)
  have hpost' : ∀ e ∈ post, e ≠ Ev.start := fun e he => ((quiet_iff.1 hpost) e he).1
  obtain ⟨hidle, hpos⟩ := idle_after_stop c (.start :: List.replicate m .turn) post hpost'
  have hpos' : (Copier.run c pre).pos = c.prePos + m * c.block := by
    show (Copier.run c ((.start :: List.replicate m .turn) ++ .stop :: .turn :: post)).pos = _
    rw [hpos, hrun.pos, C14L.f0_of_zero c hfrom]
  -- the first run's bytes
  have hstop : Ev.stop ∉ (Ev.start :: List.replicate m Ev.turn) := by
    intro h
    rcases List.mem_cons.1 h with h | h
    · cases h
    · cases List.eq_of_mem_replicate h
  have hq1 : quiet (Ev.turn :: post) = true := by
    apply quiet_iff.2
    intro e he
    rcases List.mem_cons.1 he with h | h
    · subst h; simp
    · exact (quiet_iff.1 hpost) e h
  have hw1 : writtenOf (Copier.run c pre).log = (wanted c).take (m * c.block) := by
    show writtenOf (Copier.run c ((.start :: List.replicate m .turn) ++ .stop :: .turn :: post)).log = _
    rw [(afterStop_run c _ _ hstop hq1).2, writtenOf_eq, hrun.wr, wanted_eq]
  -- the second run
  have hr2 : rangeOK { c with prePos := (Copier.run c pre).pos } = true := by
    rw [hpos']; exact rangeOK_shift c _ hr hfrom (by
      rcases hm with h | h
      · left; rw [h]; simp
      · right; exact h)
  obtain ⟨h1, _, _, _, h5⟩ := restart c hseq hnf hb pre r hidle hr2 hq
  rw [hpos', wanted_shift c _ hfrom] at h5
  obtain ⟨a, b, d, e, f⟩ := h5 (by rw [List.length_drop]; exact hn)
  refine ⟨h1, hw1, a, ?_, b, d, e, f⟩
  show writtenOf (Copier.run c (pre ++ .start :: r)).log = wanted c
  rw [h1, writtenOf_eq, C14L.written_append, ← writtenOf_eq, hw1, a, List.take_append_drop]

/-! #### the executable predicate for scenarios with a second `start` -/

/-- index of the first `start` that is not the head event: the copy is started again -/
def restartAt (evs : List Ev) : Option Nat := ((evs.drop 1).findIdx? (· == .start)).map (· + 1)

/-- the events of the first run … -/
def firstRunEvs (evs : List Ev) : List Ev :=
  match restartAt evs with | none => evs | some k => evs.take k
/-- … and its observations: those before the marker of the second `start` -/
def firstRunObs (evs : List Ev) (obs : List Obs) : List Obs :=
  match restartAt evs with | none => obs | some k => obs.takeWhile (fun o => o != Obs.ev k)

/-- the second run (random-access source, no injected fault, timer idle when `start` is called
    again, no further start/stop): what is observed from the marker of the second `start` on.
    `c2` is the configuration whose source stands where the model's first run left it — the
    implementation's position is not observable, but the bytes of its first run are, and they are
    compared with the model's.  In order and without duplication: a prefix of `wanted c2`; left
    to run: exactly `wanted c2` (the wanted bytes again if the range start is > 0, the source from
    where the first run stopped otherwise), one completion after the last write, no error. -/
def holdsRestart (c : Cfg) (evs : List Ev) (obs : List Obs) : Bool :=
  match restartAt evs with
  | none => true
  | some k =>
    let s1 := Copier.run c (evs.take k)
    let c2 : Cfg := { c with prePos := s1.pos }
    let post := evs.drop (k + 1)
    let tail := obs.dropWhile (fun o => o != Obs.ev k)
    if !c.seq && !anyFault c && decide (c.block ≥ 1) && rangeOK c2 && s1.pending == .none && quiet post
    then (writtenOf tail).isPrefixOf (wanted c2) &&
         (if nTurns post ≥ (wanted c2).length / c.block + 2
          then writtenOf tail == wanted c2 && Obs.countP isFin tail == 1 && Obs.countP isErr tail == 0 &&
               Obs.countP isWrote ((tail.dropWhile (fun o => !isFin o)).drop 1) == 0
          else true)
    else true

/-- the predicate the driver evaluates: the clauses of `holdsEvery` for the first run (they are
    about one `start`, at the head, and do not apply to what follows a second one), `holdsRestart`
    for the second -/
def holdsRuns (c : Cfg) (evs : List Ev) (obs : List Obs) : Bool :=
  holdsEvery c (firstRunEvs evs) (firstRunObs evs obs) && holdsRestart c evs obs

theorem restartAt_spec {evs : List Ev} {k : Nat} (h : restartAt evs = some k) :
    evs = evs.take k ++ .start :: evs.drop (k + 1) ∧ (evs.take k).length = k := by
  unfold restartAt at h
  cases hj : (evs.drop 1).findIdx? (· == Ev.start) with
  | none => rw [hj] at h; cases h
  | some j =>
    rw [hj] at h
    simp only [Option.map_some, Option.some.injEq] at h
    subst h
    obtain ⟨hlt, hp, _⟩ := List.findIdx?_eq_some_iff_getElem.1 hj
    have hlt' : j + 1 < evs.length := by
      rw [List.length_drop] at hlt; omega
    have hget : evs[j + 1] = Ev.start := by
      rw [List.getElem_drop] at hp
      have : evs[1 + j] = evs[j + 1] := by congr 1; omega
      rw [this] at hp
      simpa using hp
    refine ⟨?_, by rw [List.length_take]; omega⟩
    conv => lhs; rw [← List.take_append_drop (j + 1) evs, List.drop_eq_getElem_cons hlt', hget]

/-- the observations of the first run of a model run are the model run of the first run's events -/
theorem firstRunObs_run (c : Cfg) (evs : List Ev) :
    firstRunObs evs (Copier.run c evs).log = (Copier.run c (firstRunEvs evs)).log := by
  unfold firstRunObs firstRunEvs
  cases hk : restartAt evs with
  | none => rfl
  | some k =>
    obtain ⟨hsplit, hlen⟩ := restartAt_spec hk
    simp only []
    obtain ⟨hmk, rest, hl⟩ := C14L.run_split c (evs.take k) .start (evs.drop (k + 1))
    rw [hlen] at hmk hl
    conv => lhs; rw [hsplit]
    rw [hl, C14L.takeWhile_ne_mk hmk]

/-- **C14 (`holdsRestart_run`)**: on every model run, for every configuration and event list -/
theorem holdsRestart_run (c : Cfg) (evs : List Ev) : holdsRestart c evs (Copier.run c evs).log = true := by
  unfold holdsRestart
  cases hk : restartAt evs with
  | none => rfl
  | some k =>
    simp only []
    split
    · rename_i hc
      simp only [Bool.and_eq_true, Bool.not_eq_true', decide_eq_true_eq, beq_iff_eq] at hc
      obtain ⟨⟨⟨⟨⟨hseq, hnf⟩, hb⟩, hr⟩, hidle⟩, hq⟩ := hc
      obtain ⟨hsplit, hlen⟩ := restartAt_spec hk
      obtain ⟨h1, h2, h3, h4, h5⟩ := restart c hseq hnf hb (evs.take k) (evs.drop (k + 1)) hidle hr hq
      rw [← hsplit] at h1 h2 h4 h5
      rw [hlen] at h2 h3
      -- the tail the predicate cuts out is the tail of the theorem
      generalize hT : (Copier.run c evs).log.drop (Copier.run c (evs.take k)).log.length = T at h1 h2 h4 h5
      have hcut : (Copier.run c evs).log.dropWhile (fun o => o != Obs.ev k) = T := by
        cases T with
        | nil => simp at h2
        | cons t T' =>
          simp only [List.head?_cons, Option.some.injEq] at h2
          subst h2
          rw [h1, C14L.dropWhile_ne_mk h3]
      rw [hcut]
      refine Bool.and_eq_true_iff.2 ⟨List.isPrefixOf_iff_prefix.2 h4, ?_⟩
      split
      · rename_i hn
        obtain ⟨a, b, d, e, _⟩ := h5 hn
        rw [a, b, d, e]
        simp
      · rfl
    · rfl

/-- `shape` for scenarios that may start the copy a second time: the first run has the documented
    shape (what follows the second `start` is unconstrained: `holdsRestart` states its own
    conditions) -/
def shapeRuns (c : Cfg) (evs : List Ev) : Bool := shape c (firstRunEvs evs)

/-- **C14 (`holdsRuns_run`)**: the predicate the driver evaluates holds on every run of the model
    whose first run has the documented shape -/
theorem holdsRuns_run (c : Cfg) (evs : List Ev) (hs : shapeRuns c evs = true) :
    holdsRuns c evs (Copier.run c evs).log = true := by
  unfold holdsRuns
  rw [firstRunObs_run, holdsEvery_run c _ hs, holdsRestart_run]
  rfl

/-- without a second `start` the predicate is `holdsEvery` -/
theorem holdsRuns_single (c : Cfg) (evs : List Ev) (obs : List Obs) (h : restartAt evs = none) :
    holdsRuns c evs obs = holdsEvery c evs obs := by
  simp [holdsRuns, firstRunEvs, firstRunObs, holdsRestart, h]

/-! #### non-vacuity: restarts -/

-- "ABCDEFG", block 3, range (2,5): stopped after the first block ("CDE"), restarted two turns later: the
-- second run seeks to 2 again and writes "CDEF", then completes once
private def evsRR : List Ev := [.start, .turn, .stop, .turn, .turn, .start, .turn, .turn, .turn, .turn]
example : (Copier.run cfgR evsRR).log =
    [.ev 0, .ev 1, wrote [67, 68, 69], .ev 2, fin, .ev 3, .ev 4,
     .ev 5, .ev 6, wrote [67, 68, 69], .ev 7, wrote [70], fin, .ev 8, .ev 9] := by decide
example : restartAt evsRR = some 5 ∧ shapeRuns cfgR evsRR = true ∧
    holdsRuns cfgR evsRR (Copier.run cfgR evsRR).log = true := by decide
-- the hypotheses of `restart` / `restart_ranged` are satisfiable (pre = start, turn, stop, turn, turn)
example : cfgR.seq = false ∧ anyFault cfgR = false ∧ cfgR.block ≥ 1 ∧ rangeFrom cfgR > 0 ∧ rangeOK cfgR = true ∧
    (Copier.run cfgR [.start, .turn, .stop, .turn, .turn]).pending = .none ∧
    (Copier.run cfgR [.start, .turn, .stop, .turn, .turn]).pos = 5 ∧
    rangeOK { cfgR with prePos := 5 } = true ∧
    quiet [Ev.turn, .turn, .turn, .turn] = true ∧ nTurns [Ev.turn, .turn, .turn, .turn] ≥ (wanted cfgR).length / cfgR.block + 2 := by
  decide
-- a second run that resumed where the first stopped (no seek) is rejected
example : holdsRuns cfgR evsRR
    [.ev 0, .ev 1, wrote [67, 68, 69], .ev 2, fin, .ev 3, .ev 4, .ev 5, .ev 6, wrote [70], fin, .ev 7, .ev 8, .ev 9] = false := by
  decide
-- no range: the second run resumes — "ABC", then "DEFG"
private def cfgN : Cfg := { src := abcdefg, block := 3 }
example : (Copier.run cfgN evsRR).log =
    [.ev 0, .ev 1, wrote [65, 66, 67], .ev 2, fin, .ev 3, .ev 4,
     .ev 5, .ev 6, wrote [68, 69, 70], .ev 7, wrote [71], fin, .ev 8, .ev 9] := by decide
example : holdsRuns cfgN evsRR (Copier.run cfgN evsRR).log = true ∧
    -- a second run that starts over from byte 0, or that never completes, is rejected
    holdsRuns cfgN evsRR [.ev 0, .ev 1, wrote [65, 66, 67], .ev 2, fin, .ev 3, .ev 4,
      .ev 5, .ev 6, wrote [65, 66, 67], .ev 7, wrote [68, 69, 70], .ev 8, wrote [71], fin, .ev 9] = false ∧
    holdsRuns cfgN evsRR [.ev 0, .ev 1, wrote [65, 66, 67], .ev 2, fin, .ev 3, .ev 4,
      .ev 5, .ev 6, wrote [68, 69, 70], .ev 7, wrote [71], .ev 8, .ev 9] = false := by decide
-- the hypotheses of `restart_resumes` are satisfiable (m = 1 block of 3 out of 7 bytes)
example : cfgN.seq = false ∧ anyFault cfgN = false ∧ cfgN.block ≥ 1 ∧ rangeOK cfgN = true ∧ ¬ rangeFrom cfgN > 0 ∧
    1 * cfgN.block < (wanted cfgN).length ∧ quiet [Ev.turn] = true ∧
    nTurns [Ev.turn, .turn, .turn, .turn] ≥ ((wanted cfgN).length - 1 * cfgN.block) / cfgN.block + 2 := by decide
-- the first run's clauses still see the first run only: a write after the first stop() is rejected
example : holdsRuns cfgN evsRR [.ev 0, .ev 1, wrote [65, 66, 67], .ev 2, fin, .ev 3, wrote [68, 69, 70], .ev 4,
      .ev 5, .ev 6, wrote [68, 69, 70], .ev 7, wrote [71], fin, .ev 8, .ev 9] = false := by decide

/-! ### 8. `stop()` called from inside a write of the destination

  `Copier.runS c k` (Model/CopierStopIn.lean) is the repaired code when the destination's write
  number `k` (counted from 0) reaches a slot that calls `stop()` before `write()` returns; the
  harness produces that with the scenario token `stopin:k`.  `Copier.run` has `stop` only as an
  event between two turns.  `stopInEvs` is the event list the driver compares such a run with;
  `stopin_equiv` proves that the two runs log the same signals in the same order (event markers
  aside: the plain run has one more event), for every random-access configuration — any range,
  any block size (0 included), any device fault. -/

/-- a log without its event markers -/
def noMark (l : List Obs) : List Obs := l.filter fun o => match o with | .ev _ => false | _ => true
theorem noMark_eq : noMark = C14L.noMark := rfl

/-- `stop` placed right after the `k`-th event-loop turn (counted from 0; `seen`: turns passed) -/
def insertStop (k : Nat) : List Ev → Nat → List Ev
  | [], _ => []
  | e :: r, seen =>
    if e == .turn then (if seen == k then e :: .stop :: r else e :: insertStop k r (seen + 1))
    else e :: insertStop k r seen

/-- the plain scenario a `stopin:k` run of `evs` is compared with: write number `k` is made by
    the `(k+1)`-th turn (if the copy gets that far), so `stop` goes right after that turn — unless
    the plain model has logged a completion by then (the copy ended earlier, block `k` was the last
    one, or a device failed): then the completion `stop()` signals would be a second one in the
    plain model while the nested `stop()` pre-empts the copier's own, and the scenario is `evs` -/
def stopInEvs (c : Cfg) (k : Nat) (evs : List Ev) : List Ev :=
  let withStop := insertStop k evs 0
  let upTo := withStop.takeWhile (· != .stop)
  if (Copier.run c upTo).log.any (· == fin) then evs else withStop

theorem insertStop_short (k : Nat) : ∀ (n seen : Nat), seen + n ≤ k →
    insertStop k (List.replicate n Ev.turn) seen = List.replicate n Ev.turn := by
  intro n
  induction n with
  | zero => intro seen _; rfl
  | succ n ih =>
    intro seen h
    have hne : ¬ seen = k := by omega
    rw [List.replicate_succ]
    simp only [insertStop, beq_self_eq_true, if_true, beq_iff_eq, hne, if_false]
    rw [ih (seen + 1) (by omega)]

theorem insertStop_long (k m : Nat) : ∀ (d seen : Nat), seen + d = k →
    insertStop k (List.replicate (d + 1 + m) Ev.turn) seen =
      List.replicate (d + 1) Ev.turn ++ Ev.stop :: List.replicate m Ev.turn := by
  intro d
  induction d with
  | zero =>
    intro seen h
    have he : seen = k := by omega
    rw [show 0 + 1 + m = m + 1 by omega, List.replicate_succ]
    simp [insertStop, he]
  | succ d ih =>
    intro seen h
    have hne : ¬ seen = k := by omega
    rw [show d + 1 + 1 + m = (d + 1 + m) + 1 by omega, List.replicate_succ]
    simp only [insertStop, beq_self_eq_true, if_true, beq_iff_eq, hne, if_false]
    rw [ih (seen + 1) (by omega), List.replicate_succ (n := d + 1)]
    rfl

theorem takeWhile_turns (a : Nat) (r : List Ev) :
    (List.replicate a Ev.turn ++ Ev.stop :: r).takeWhile (· != .stop) = List.replicate a Ev.turn := by
  induction a with
  | zero => simp
  | succ a ih =>
    rw [List.replicate_succ, List.cons_append, List.takeWhile_cons, ih]
    simp

/-- fewer than `k + 1` turns: there is no turn to put `stop` after -/
theorem stopInEvs_short (c : Cfg) (k n : Nat) (h : n ≤ k) :
    stopInEvs c k (.start :: List.replicate n .turn) = .start :: List.replicate n .turn := by
  have e : insertStop k (.start :: List.replicate n .turn) 0 = .start :: List.replicate n .turn := by
    rw [insertStop]
    simp only [show (Ev.start == Ev.turn) = false from rfl, Bool.false_eq_true, if_false]
    rw [insertStop_short k n 0 (by omega)]
  simp only [stopInEvs, e, ite_self]

/-- at least `k + 1` turns: the test is made on the plain run of `start` and `k + 1` turns -/
theorem stopInEvs_long (c : Cfg) (k m : Nat) :
    stopInEvs c k (.start :: List.replicate (k + 1 + m) .turn) =
      if (Copier.run c (.start :: List.replicate (k + 1) .turn)).log.any (· == fin)
      then .start :: List.replicate (k + 1 + m) .turn
      else (.start :: List.replicate (k + 1) .turn) ++ .stop :: List.replicate m .turn := by
  have e : insertStop k (.start :: List.replicate (k + 1 + m) .turn) 0 =
      .start :: (List.replicate (k + 1) .turn ++ .stop :: List.replicate m .turn) := by
    rw [insertStop]
    simp only [show (Ev.start == Ev.turn) = false from rfl, Bool.false_eq_true, if_false]
    rw [insertStop_long k m k 0 (by omega)]
  have e2 : (Ev.start :: (List.replicate (k + 1) Ev.turn ++ Ev.stop :: List.replicate m Ev.turn)).takeWhile (· != .stop) =
      .start :: List.replicate (k + 1) .turn := by
    rw [List.takeWhile_cons, takeWhile_turns]
    simp
  simp only [stopInEvs, e, e2]
  rfl

/-- **equivalence**: `stop()` called from inside write number `k` is observed exactly as the
    plain model's run of `stopInEvs` — the same signals in the same order.  Every random-access
    configuration (any block size, range, position, device faults), every `k`, every number of
    turns; no side condition. -/
theorem stopin_equiv (c : Cfg) (hseq : c.seq = false) (k n : Nat) :
    noMark (Copier.runS c k (.start :: List.replicate n .turn)).log =
    noMark (Copier.run c (stopInEvs c k (.start :: List.replicate n .turn))).log := by
  by_cases hn : n ≤ k
  · rw [stopInEvs_short c k n hn, C14L.runS_short c hseq k n hn]
  · obtain ⟨m, rfl⟩ : ∃ m, n = k + 1 + m := ⟨n - (k + 1), by omega⟩
    rw [stopInEvs_long]
    obtain ⟨_, hcase⟩ := C14L.runS_cases c hseq k m
    rcases hcase with ⟨ho, hl, hl'⟩ | ⟨hr, _, hl⟩
    · have hany : (Copier.run c (.start :: List.replicate (k + 1) .turn)).log.any (· == fin) = true := by
        simp only [List.any_eq_true, beq_iff_eq]
        exact ⟨fin, ho.closed.mem_fin, rfl⟩
      rw [if_pos hany, hl, hl']
    · have hany : ¬ (Copier.run c (.start :: List.replicate (k + 1) .turn)).log.any (· == fin) = true := by
        simp only [List.any_eq_true, beq_iff_eq]
        rintro ⟨o, ho, rfl⟩
        exact C14L.not_mem_fin_of_cnt hr.nofin ho
      rw [if_neg hany, hl]
      have hq : ∀ e ∈ List.replicate m Ev.turn, e ≠ .start ∧ e ≠ .stop := by
        intro e he; rw [List.eq_of_mem_replicate he]; simp
      obtain ⟨_, ms, hrun, hms⟩ := C14L.run_stop c (.start :: List.replicate (k + 1) .turn) (List.replicate m .turn) hq
      rw [hrun, noMark_eq, C14L.noMark_append, C14L.noMark_append, C14L.noMark_cons_fin, C14L.noMark_cons_ev,
        C14L.noMark_cons_fin, C14L.noMark_of_mk hms, C14L.noMark_of_mk (C14L.range'_map_mk _ _)]

/-- with fewer than `k + 1` turns write `k` is not reached: the very same run -/
theorem stopin_not_reached (c : Cfg) (hseq : c.seq = false) (k n : Nat) (h : n ≤ k) :
    Copier.runS c k (.start :: List.replicate n .turn) = Copier.run c (.start :: List.replicate n .turn) :=
  C14L.runS_short c hseq k n h

theorem writtenOf_noMark (l : List Obs) : writtenOf (noMark l) = writtenOf l := by
  rw [writtenOf_eq, noMark_eq]; exact C14L.written_noMark l

/-- in order, no duplication: whatever write stops the copier, and whatever devices fail, what
    reached the destination is a prefix of the wanted bytes (from the equivalence, `stop_halts`
    and `prefix_random_access`) -/
theorem stopin_prefix (c : Cfg) (hseq : c.seq = false) (hb : c.block ≥ 1) (hr : rangeOK c = true) (k n : Nat) :
    writtenOf (Copier.runS c k (.start :: List.replicate n .turn)).log <+: wanted c := by
  have hq : ∀ j, quiet (List.replicate j Ev.turn) = true := by
    intro j; rw [quiet_iff]; intro e he; rw [List.eq_of_mem_replicate he]; simp
  rw [← writtenOf_noMark, stopin_equiv c hseq k n, writtenOf_noMark]
  by_cases hn : n ≤ k
  · rw [stopInEvs_short c k n hn]
    exact prefix_random_access c hseq hb hr _ (hq n)
  · obtain ⟨m, rfl⟩ : ∃ m, n = k + 1 + m := ⟨n - (k + 1), by omega⟩
    rw [stopInEvs_long]
    split
    · exact prefix_random_access c hseq hb hr _ (hq _)
    · have hpre : Ev.stop ∉ (Ev.start :: List.replicate (k + 1) Ev.turn) := by
        intro hm
        rcases List.mem_cons.1 hm with hm | hm
        · cases hm
        · have := List.eq_of_mem_replicate hm; cases this
      rw [(stop_halts c _ _ hpre (hq m)).2.2]
      exact prefix_random_access c hseq hb hr _ (hq _)

/-- no device fault: the copy is cut after block `k` — exactly the first `min n (k+1)` blocks of
    the wanted bytes were written (`List.take` stops at the end of `wanted`: when the copy has
    fewer than `k + 1` blocks, or block `k` is the last, shorter one, that is all of `wanted`) -/
theorem stopin_written (c : Cfg) (hseq : c.seq = false) (hnf : anyFault c = false) (hb : c.block ≥ 1)
    (hr : rangeOK c = true) (k n : Nat) :
    writtenOf (Copier.runS c k (.start :: List.replicate n .turn)).log =
      (wanted c).take (min n (k + 1) * c.block) := by
  have hnf' : C14L.anyFault c = false := hnf
  have hrn := C14L.rangeNF_of_ok c hr
  by_cases hn : n ≤ k
  · rw [C14L.runS_short c hseq k n hn, Nat.min_eq_left (by omega)]
    exact (C14L.run_qinv c hseq hb hrn hnf' n).written
  · obtain ⟨m, rfl⟩ : ∃ m, n = k + 1 + m := ⟨n - (k + 1), by omega⟩
    rw [Nat.min_eq_right (by omega)]
    have ht := (C14L.run_qinv c hseq hb hrn hnf' (k + 1)).written
    obtain ⟨_, hcase⟩ := C14L.runS_cases c hseq k m
    rcases hcase with ⟨_, hl, _⟩ | ⟨_, _, hl⟩
    · rw [hl, writtenOf_eq, C14L.written_append, C14L.written_of_mk (C14L.range'_map_mk _ _), List.append_nil]
      exact ht
    · rw [hl, writtenOf_eq, C14L.written_append, C14L.written_cons, C14L.written_fin,
        C14L.written_of_mk (C14L.range'_map_mk _ _), List.append_nil, List.append_nil]
      exact ht

/-- … so with at least `k + 1` turns the destination holds `min ((k+1)·block) |wanted|` bytes -/
theorem stopin_written_length (c : Cfg) (hseq : c.seq = false) (hnf : anyFault c = false) (hb : c.block ≥ 1)
    (hr : rangeOK c = true) (k n : Nat) (hk : k < n) :
    (writtenOf (Copier.runS c k (.start :: List.replicate n .turn)).log).length =
      min ((k + 1) * c.block) (wanted c).length := by
  rw [stopin_written c hseq hnf hb hr k n, Nat.min_eq_right (by omega), List.length_take]

/-- exactly ONE completion, and nothing after it.  With at least `k + 1` turns — so that write
    `k` is made if the copy gets that far — and for every random-access configuration (any range,
    block size, device faults): the timer is idle, and the log is closed: one `fin`, only event
    markers after it.  In particular when write `k` is the last block: the copier's own
    `finished()` does not follow the one `stop()` emitted. -/
theorem stopin_closed (c : Cfg) (hseq : c.seq = false) (k n : Nat) (hk : k < n) :
    (Copier.runS c k (.start :: List.replicate n .turn)).pending = .none ∧
    C14L.Closed (Copier.runS c k (.start :: List.replicate n .turn)).log := by
  obtain ⟨m, rfl⟩ : ∃ m, n = k + 1 + m := ⟨n - (k + 1), by omega⟩
  obtain ⟨hp, hcase⟩ := C14L.runS_cases c hseq k m
  refine ⟨hp, ?_⟩
  rcases hcase with ⟨ho, hl, _⟩ | ⟨hr, _, hl⟩
  · rw [hl]; exact ho.closed.append_mk (C14L.range'_map_mk _ _)
  · rw [hl]; exact ⟨_, _, rfl, hr.nofin, C14L.range'_map_mk _ _⟩

/-- the same in the terms of `holds`: one completion; after it no write, no completion; at or
    after it no error -/
theorem stopin_once (c : Cfg) (hseq : c.seq = false) (k n : Nat) (hk : k < n) :
    let s := Copier.runS c k (.start :: List.replicate n .turn)
    s.pending = .none ∧
    Obs.countP isFin s.log = 1 ∧
    Obs.countP isWrote ((s.log.dropWhile (fun o => !isFin o)).drop 1) = 0 ∧
    Obs.countP isFin ((s.log.dropWhile (fun o => !isFin o)).drop 1) = 0 ∧
    Obs.countP isErr (s.log.dropWhile (fun o => !isFin o)) = 0 := by
  intro s
  obtain ⟨hp, hcl⟩ := stopin_closed c hseq k n hk
  refine ⟨hp, hcl.cnt_fin, hcl.no_wrote_after, ?_, hcl.no_err_after⟩
  obtain ⟨l2, e, h2⟩ := hcl.dropWhile
  show Obs.countP isFin ((s.log.dropWhile (fun o => !C14L.isFin o)).drop 1) = 0
  rw [e]; exact C14L.cnt_of_mk C14L.mk_not_fin h2

/-- … and with the markers removed: the log ENDS with its only completion -/
theorem stopin_ends_with_fin (c : Cfg) (hseq : c.seq = false) (k n : Nat) (hk : k < n) :
    ∃ l, noMark (Copier.runS c k (.start :: List.replicate n .turn)).log = l ++ [fin] ∧
         Obs.countP isFin l = 0 :=
  (stopin_closed c hseq k n hk).2.strip

/-- no device fault: no error is signalled -/
theorem stopin_no_error (c : Cfg) (hseq : c.seq = false) (hnf : anyFault c = false) (hb : c.block ≥ 1)
    (hr : rangeOK c = true) (k n : Nat) :
    Obs.countP isErr (Copier.runS c k (.start :: List.replicate n .turn)).log = 0 := by
  have hnf' : C14L.anyFault c = false := hnf
  have hrn := C14L.rangeNF_of_ok c hr
  have hmk : ∀ j m, Obs.countP C14L.isErr ((List.range' j m).map Obs.ev) = 0 :=
    fun j m => C14L.cnt_of_mk C14L.mk_not_err (C14L.range'_map_mk j m)
  by_cases hn : n ≤ k
  · rw [C14L.runS_short c hseq k n hn]
    exact (C14L.run_qinv c hseq hb hrn hnf' n).noerr
  · obtain ⟨m, rfl⟩ : ∃ m, n = k + 1 + m := ⟨n - (k + 1), by omega⟩
    have ht := (C14L.run_qinv c hseq hb hrn hnf' (k + 1)).noerr
    obtain ⟨_, hcase⟩ := C14L.runS_cases c hseq k m
    rcases hcase with ⟨_, hl, _⟩ | ⟨_, _, hl⟩
    · rw [hl, isErr_eq, C14L.cnt_append, ht, hmk]
    · rw [hl, isErr_eq, C14L.cnt_append, C14L.cnt_cons, ht, hmk]; rfl

/-- the case the repair is about — `stop()` from inside the LAST write (`|wanted| ≤ (k+1)·block`;
    or the copy has fewer blocks and write `k` never happens): everything wanted was copied, no
    error, and still exactly one completion with nothing after it -/
theorem stopin_last_block (c : Cfg) (hseq : c.seq = false) (hnf : anyFault c = false) (hb : c.block ≥ 1)
    (hr : rangeOK c = true) (k n : Nat) (hk : k < n) (hlast : (wanted c).length ≤ (k + 1) * c.block) :
    let s := Copier.runS c k (.start :: List.replicate n .turn)
    writtenOf s.log = wanted c ∧
    Obs.countP isErr s.log = 0 ∧
    Obs.countP isFin s.log = 1 ∧
    Obs.countP isWrote ((s.log.dropWhile (fun o => !isFin o)).drop 1) = 0 ∧
    Obs.countP isFin ((s.log.dropWhile (fun o => !isFin o)).drop 1) = 0 ∧
    s.pending = .none := by
  intro s
  obtain ⟨hp, h1, h2, h3, _⟩ := stopin_once c hseq k n hk
  refine ⟨?_, stopin_no_error c hseq hnf hb hr k n, h1, h2, h3, hp⟩
  show writtenOf (Copier.runS c k (.start :: List.replicate n .turn)).log = wanted c
  rw [stopin_written c hseq hnf hb hr k n, Nat.min_eq_right (by omega), List.take_of_length_le hlast]

/-! #### non-vacuity: nested stop -/

-- "ABCDE", block 2 (blocks AB, CD, E), five turns; stop() from inside write 0, 1, 2 (the last block)
private def cfg5 : Cfg := { src := [65, 66, 67, 68, 69], block := 2 }
private def evs5 : List Ev := [.start, .turn, .turn, .turn, .turn, .turn]
example : (Copier.runS cfg5 0 evs5).log =
    [.ev 0, .ev 1, wrote [65, 66], fin, .ev 2, .ev 3, .ev 4, .ev 5] := by decide
example : (Copier.runS cfg5 1 evs5).log =
    [.ev 0, .ev 1, wrote [65, 66], .ev 2, wrote [67, 68], fin, .ev 3, .ev 4, .ev 5] := by decide
-- the last block: one completion (the unrepaired code signalled a second one here)
example : (Copier.runS cfg5 2 evs5).log =
    [.ev 0, .ev 1, wrote [65, 66], .ev 2, wrote [67, 68], .ev 3, wrote [69], fin, .ev 4, .ev 5] ∧
    (Copier.runS cfg5 2 evs5).stopped = true ∧ (Copier.run cfg5 evs5).stopped = false := by decide
-- a write the copy does not get to: the plain run
example : (Copier.runS cfg5 3 evs5).log = (Copier.run cfg5 evs5).log ∧ (Copier.runS cfg5 3 evs5).stopped = false := by decide
-- what the driver compares with: `stop` after turn k, or nothing for the last block / beyond
example : stopInEvs cfg5 0 evs5 = [.start, .turn, .stop, .turn, .turn, .turn, .turn] ∧
    stopInEvs cfg5 1 evs5 = [.start, .turn, .turn, .stop, .turn, .turn, .turn] ∧
    stopInEvs cfg5 2 evs5 = evs5 ∧ stopInEvs cfg5 3 evs5 = evs5 ∧ stopInEvs cfg5 7 evs5 = evs5 := by decide
example : (Copier.run cfg5 (stopInEvs cfg5 1 evs5)).log =
    [.ev 0, .ev 1, wrote [65, 66], .ev 2, wrote [67, 68], .ev 3, fin, .ev 4, .ev 5, .ev 6] := by decide
-- `stopin_equiv`, `stopin_written`, `stopin_once` instantiated (hypotheses: satisfiable)
example : cfg5.seq = false ∧ anyFault cfg5 = false ∧ cfg5.block ≥ 1 ∧ rangeOK cfg5 = true ∧
    evs5 = .start :: List.replicate 5 .turn := by decide
example : ∀ k ∈ [0, 1, 2, 3],
    noMark (Copier.runS cfg5 k evs5).log = noMark (Copier.run cfg5 (stopInEvs cfg5 k evs5)).log := by decide
example : ∀ k ∈ [0, 1, 2, 3],
    writtenOf (Copier.runS cfg5 k evs5).log = (wanted cfg5).take (min 5 (k + 1) * cfg5.block) ∧
    Obs.countP isFin (Copier.runS cfg5 k evs5).log = 1 := by decide
example : writtenOf (Copier.runS cfg5 0 evs5).log = [65, 66] ∧ writtenOf (Copier.runS cfg5 1 evs5).log = [65, 66, 67, 68] ∧
    writtenOf (Copier.runS cfg5 2 evs5).log = [65, 66, 67, 68, 69] ∧ (wanted cfg5).length ≤ (2 + 1) * cfg5.block := by decide
-- ranged: "ABCDEFG", block 3, range (2,5) — wanted "CDEF", blocks CDE and F (cut from FG)
example : (Copier.runS cfgR 0 evs5).log = [.ev 0, .ev 1, wrote [67, 68, 69], fin, .ev 2, .ev 3, .ev 4, .ev 5] ∧
    (Copier.runS cfgR 1 evs5).log = [.ev 0, .ev 1, wrote [67, 68, 69], .ev 2, wrote [70], fin, .ev 3, .ev 4, .ev 5] ∧
    stopInEvs cfgR 0 evs5 = [.start, .turn, .stop, .turn, .turn, .turn, .turn] ∧ stopInEvs cfgR 1 evs5 = evs5 := by decide
example : ∀ k ∈ [0, 1, 2],
    noMark (Copier.runS cfgR k evs5).log = noMark (Copier.run cfgR (stopInEvs cfgR k evs5)).log ∧
    writtenOf (Copier.runS cfgR k evs5).log = (wanted cfgR).take (min 5 (k + 1) * cfgR.block) ∧
    Obs.countP isFin (Copier.runS cfgR k evs5).log = 1 := by decide
-- a device fault at the write that would stop the copier: error, one completion, no nested stop
example : (Copier.runS { cfg5 with writeFailAt := some 1 } 1 evs5).log =
    [.ev 0, .ev 1, wrote [65, 66], .ev 2, err, fin, .ev 3, .ev 4, .ev 5] ∧
    stopInEvs { cfg5 with writeFailAt := some 1 } 1 evs5 = evs5 := by decide

end Qhttp.C14
