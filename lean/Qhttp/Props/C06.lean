import Qhttp.Props.C05
/-
  C06 — middleware is a fail-closed gate in front of all routing.
-/
namespace Qhttp.C06
open Qhttp

def mwsOf (obs : List Obs) : List (Nat × Bool) :=
  obs.filterMap fun o => match o with | .mw i ok => some (i, ok) | _ => none
def mwActs (as : List Act) : List (Nat × Bool) :=
  as.filterMap fun a => match a with | .mw i ok => some (i, ok) | _ => none

def refuser (as : List Act) : Option Nat :=
  (mwActs as).findSome? fun e => if e.2 then none else some e.1

/-- the middleware consulted are exactly those on the route, in attachment order, up to and
    including the first refusal; after a refusal no handler code runs and the only response is
    the refuser's (a 403 carrying its `X-Mw` mark, as the harness's middleware writes) -/
def holds (env : Env) (sc : RouteScn) (obs : List Obs) : Bool :=
  if !C05.accepted env sc then mwsOf obs == [] else
  match sc.acts with
  | none => mwsOf obs == []
  | some as =>
    mwsOf obs == mwActs as &&
    (match refuser as with
     | none => true
     | some id =>
       C05.prs obs == [] &&
       (match Http.parse (Obs.wire obs) with
        | some m =>
          (Http.statusLine m.start).map (·.code) == some 403 &&
          Http.valuesOf RouteScn.X_MW m.headers == [natDigits id] &&
          Http.valuesOf C05.LOCATION m.headers == [] &&
          Http.valuesOf Sock.CONTENT_LENGTH m.headers == [natDigits m.body.length]
        | none => false))

/-! ## Theorems -/

open Qhttp.RouteL

theorem mwActs_map_mwAct (l : List (Nat × Bool)) : mwActs (l.map mwAct) = l := by
  induction l with
  | nil => rfl
  | cons e l ih => simp only [mwActs] at ih; simp [mwActs, mwAct, ih]

theorem mwActs_append (a b : List Act) : mwActs (a ++ b) = mwActs a ++ mwActs b := by
  simp [mwActs, List.filterMap_append]

theorem mwActs_terminal {t : Act} (h : isTerminalAct t = true) : mwActs [t] = [] := by
  cases t <;> simp_all [mwActs, isTerminalAct]

theorem findRefuser_append_of_accept {pre : List (Nat × Bool)} (h : allAccept pre = true) (l : List (Nat × Bool)) :
    (pre ++ l).findSome? (fun e => if e.2 then none else some e.1) =
      l.findSome? (fun e => if e.2 then none else some e.1) := by
  induction pre with
  | nil => rfl
  | cons e pre ih =>
    simp only [allAccept, List.all_cons, Bool.and_eq_true] at h
    simp only [List.cons_append, List.findSome?_cons, h.1, if_true]
    exact ih (by simpa [allAccept] using h.2)

/-- **C06.1 gate**: the middleware consulted are exactly those of the handlers on the route, in
    attachment order, up to and including the first refusal (`chain` is defined independently of
    `route`); after a refusal there is no `.redirect` / `.process` action at all and the run ends
    with that refusal -/
theorem gate (m : Matcher) (n : Node) (path : QStr) :
    mwActs (route m n path) = takeThroughFirstRefusal (chain m n path) ∧
    (∀ id, refuser (route m n path) = some id →
      (∀ a ∈ route m n path, isTerminalAct a = false) ∧
      (route m n path).getLast? = some (.mw id false) ∧
      C05.terminal (route m n path) = none) := by
  constructor
  · rw [route_struct, tailOf, mwActs_append, mwActs_map_mwAct]
    split
    · rw [mwActs_terminal (termOf_terminal m n path)]; simp
    · simp [mwActs]
  · intro id hid
    obtain ⟨pre, hp, ⟨t, ht, hr, hn⟩ | ⟨id', hr, hn⟩⟩ := C05.route_shape m n path
    · exfalso
      rw [refuser, hr, mwActs_append, mwActs_map_mwAct, mwActs_terminal ht, List.append_nil] at hid
      have := findRefuser_append_of_accept hp []
      simp only [List.append_nil] at this
      rw [this] at hid
      cases hid
    · have e : pre.map mwAct ++ [Act.mw id' false] = (pre ++ [(id', false)]).map mwAct := by simp [mwAct]
      have hid' : id' = id := by
        rw [refuser, hr, e, mwActs_map_mwAct, findRefuser_append_of_accept hp] at hid
        simpa using hid
      subst hid'
      rw [hr]
      refine ⟨?_, List.getLast?_concat .., ?_⟩
      · intro a ha
        rw [e] at ha
        obtain ⟨x, _, rfl⟩ := List.mem_map.1 ha
        rfl
      · rw [e]; exact C05.terminal_map_mwAct _

/-- **C06.2 reach**: a terminal action (a handler's redirect, or any handler's `process`) happens
    only if every middleware of every handler on the route was consulted, in order, and accepted -/
theorem reach (m : Matcher) (n : Node) (path : QStr)
    (h : ∃ a ∈ route m n path, isTerminalAct a = true) :
    allAccept (mwActs (route m n path)) = true ∧ mwActs (route m n path) = chain m n path ∧
    refuser (route m n path) = none := by
  have hacc : allAccept (chain m n path) = true := by
    cases hc : allAccept (chain m n path) with
    | true => rfl
    | false =>
      exfalso
      obtain ⟨a, ha, hta⟩ := h
      rw [route_struct, tailOf, hc] at ha
      simp only [Bool.false_eq_true, if_false, List.append_nil] at ha
      obtain ⟨x, _, rfl⟩ := List.mem_map.1 ha
      cases hta
  have hg := (gate m n path).1
  rw [ttfr_of_accept hacc] at hg
  refine ⟨by rw [hg]; exact hacc, hg, ?_⟩
  rw [refuser, hg]
  have := findRefuser_append_of_accept hacc []
  simpa using this

/-- the refuser is the first refusing middleware of the route's chain -/
theorem refuser_route (m : Matcher) (n : Node) (path : QStr) :
    refuser (route m n path) =
      (chain m n path).findSome? (fun e => if e.2 then none else some e.1) := by
  rw [refuser, (gate m n path).1]
  generalize chain m n path = c
  induction c with
  | nil => rfl
  | cons e l ih =>
    obtain ⟨i, ok⟩ := e
    cases ok <;> simp [takeThroughFirstRefusal, ih]

/-! ### 3. end to end -/

theorem mwsOf_append (a b : List Obs) : mwsOf (a ++ b) = mwsOf a ++ mwsOf b := by
  simp [mwsOf, List.filterMap_append]

theorem mwsOf_cons (o : Obs) (l : List Obs) :
    mwsOf (o :: l) = (match o with | .mw i ok => [(i, ok)] | _ => []) ++ mwsOf l := by
  cases o <;> simp [mwsOf]

theorem mwsOf_mwObs (pre : List (Nat × Bool)) : mwsOf (pre.map mwObs) = pre := by
  induction pre with
  | nil => rfl
  | cons e l ih => simp only [List.map_cons, mwsOf_cons, mwObs, ih]; rfl

theorem mwsOf_wObs (b : Bytes) : mwsOf (wObs b) = [] := by unfold wObs; split <;> rfl

theorem mwsOf_err (h : Bytes) (b : Bytes) : mwsOf ([Obs.w h] ++ wObs b ++ [Obs.tc]) = [] := by
  simp only [mwsOf_append, mwsOf_wObs, mwsOf_cons]; simp [mwsOf]

theorem mwsOf_log (pre : List (Nat × Bool)) (x : List Obs) :
    mwsOf ([Obs.ev 0, Obs.ev 1, Obs.hp] ++ (pre.map mwObs ++ x) ++ [Obs.ev 2]) = pre ++ mwsOf x := by
  simp only [mwsOf_append, mwsOf_mwObs, mwsOf_cons]; simp [mwsOf]

theorem not_accepted_bad (env : Env) (sc : RouteScn) (h : C05.accepted env sc = false) {head rest : Bytes}
    (hb : breakOn CRLF2 sc.stream = some (head, rest)) :
    match Parser.parseRequestHeaders head [] with
    | none => True
    | some rh => env.url rh.rawPath = none := by
  cases hp : Parser.parseRequestHeaders head [] with
  | none => trivial
  | some rh =>
    simp only
    cases hu : env.url rh.rawPath with
    | none => rfl
    | some pq =>
      obtain ⟨p, q⟩ := pq
      have := (C05.accepted_iff env sc).2 ⟨head, rest, rh, p, q, hb, hp, hu⟩
      rw [h] at this; cases this

theorem valuesOf_single {name k v : Bytes} (hk : (lower k == lower name) = true) (hv : (44 : UInt8) ∉ v)
    {a b : List (Bytes × Bytes)}
    (ha : ∀ e ∈ a, (lower e.1 == lower name) = false) (hb : ∀ e ∈ b, (lower e.1 == lower name) = false) :
    Http.valuesOf name (a ++ (k, v) :: b) = [v] := by
  have fa : a.filter (fun h => lower h.1 == lower name) = [] := List.filter_eq_nil_iff.2 (by
    intro e he; rw [ha e he]; simp)
  have fb : b.filter (fun h => lower h.1 == lower name) = [] := List.filter_eq_nil_iff.2 (by
    intro e he; rw [hb e he]; simp)
  simp only [Http.valuesOf, List.filter_append, fa, List.nil_append, List.filter_cons, hk, if_true, fb,
    List.flatMap_cons, List.flatMap_nil, List.append_nil]
  exact HB.splitAll_of_not_mem hv

theorem valuesOf_none {name : Bytes} {a : List (Bytes × Bytes)}
    (ha : ∀ e ∈ a, (lower e.1 == lower name) = false) : Http.valuesOf name a = [] := by
  have fa : a.filter (fun h => lower h.1 == lower name) = [] := List.filter_eq_nil_iff.2 (by
    intro e he; rw [ha e he]; simp)
  simp [Http.valuesOf, fa]

theorem natDigits_no_comma (n : Nat) : (44 : UInt8) ∉ natDigits n := HB.natDigits_not_mem _ (Or.inl (by decide))

/-- **C06.3 (`holds_run`)**: for every environment and every `route` scenario — every handler tree,
    matcher, verdict assignment and request target, no side condition — the predicate evaluated on
    implementation traces holds on the run of the model: the middleware observed are exactly those
    of the route up to and including the first refusal, and after a refusal no handler runs and the
    only response is the refuser's 403 -/
theorem holds_run (env : Env) (sc : RouteScn) : holds env sc (Scenario.run env sc.scenario).log = true := by
  unfold holds
  have hrun : Scenario.run env sc.scenario = Sock.run env sc.app [.new, .feed sc.stream, .turn] := rfl
  cases hacc : C05.accepted env sc with
  | false =>
    simp only [Bool.not_false, if_true]
    obtain ⟨head, rest, hb⟩ := C05.stream_breaks sc
    rw [hrun, run_bad env sc.app sc.stream hb (not_accepted_bad env sc hacc hb)]
    simp only [mwsOf_append, mwsOf_cons, mwsOf_wObs]
    simp [mwsOf]
  | true =>
    simp only [Bool.not_true, Bool.false_eq_true, if_false]
    have hlog := C05.run_log env sc hacc
    cases hroot : sc.root with
    | none =>
      rw [hroot] at hlog
      simp only at hlog
      have hacts : sc.acts = none := by simp [RouteScn.acts, serverRoute, hroot]
      rw [hacts, hlog]
      simp only [mwsOf_append, mwsOf_cons, mwsOf_wObs]
      simp [mwsOf]
    | some r =>
      rw [hroot] at hlog
      obtain ⟨pre, t, hpre, hlast, hr, hlog⟩ := hlog
      have hacts : sc.acts = some (route sc.matcher r (sc.p16.drop 1)) := by
        simp [RouteScn.acts, serverRoute, hroot]
      simp only [hacts]
      rw [hlog, mwsOf_log, C05.wire_log, C05.prs_log, hr]
      cases t with
      | redirect id loc =>
        have h1 : mwActs (pre.map mwAct ++ [Act.redirect id loc]) = pre := by
          rw [mwActs_append, mwActs_map_mwAct, mwActs_terminal rfl, List.append_nil]
        have h2 : refuser (pre.map mwAct ++ [Act.redirect id loc]) = none := by
          rw [refuser, h1]; simpa using findRefuser_append_of_accept hpre []
        rw [h1, h2]
        simp only [lastObs, mwsOf_cons]; simp [mwsOf]
      | process id path =>
        have h1 : mwActs (pre.map mwAct ++ [Act.process id path]) = pre := by
          rw [mwActs_append, mwActs_map_mwAct, mwActs_terminal rfl, List.append_nil]
        have h2 : refuser (pre.map mwAct ++ [Act.process id path]) = none := by
          rw [refuser, h1]; simpa using findRefuser_append_of_accept hpre []
        rw [h1, h2]
        simp only [lastObs, mwsOf_cons]
        split <;> (simp only [mwsOf_cons, mwsOf_append, mwsOf_wObs]; simp [mwsOf])
      | mw id ok =>
        have ok' : ok = false := by simpa [C05.isLastAct] using hlast
        subst ok'
        have e : pre.map mwAct ++ [Act.mw id false] = (pre ++ [(id, false)]).map mwAct := by simp [mwAct]
        have h1 : mwActs (pre.map mwAct ++ [Act.mw id false]) = pre ++ [(id, false)] := by
          rw [e, mwActs_map_mwAct]
        have h2 : refuser (pre.map mwAct ++ [Act.mw id false]) = some id := by
          rw [refuser, h1, findRefuser_append_of_accept hpre]; rfl
        rw [h1, h2]
        simp only [lastObs, mwsOf_cons, C05.prs_cons, C05.wire_cons, List.nil_append, mwsOf_err, C05.prs_err,
          C05.wire_err]
        rw [errHeaders_xmw]
        obtain ⟨p1, p2⟩ := parse_headOf (c := 403) (by decide) (reason := statusReason 403) (by decide)
          (hs := [(Sock.CONTENT_LENGTH, natDigits (env.errPage 403 (statusReason 403)).length),
                  (Sock.CONTENT_TYPE, Sock.TEXT_HTML), (RouteScn.X_MW, natDigits id)])
          (by
            intro e he; simp at he
            rcases he with rfl | rfl | rfl
            · exact entryOk_cl _
            · exact entryOk_ct
            · exact entryOk_xmw _) (env.errPage 403 (statusReason 403))
        rw [p1]
        simp only [p2]
        have v1 : Http.valuesOf RouteScn.X_MW
            [(Sock.CONTENT_LENGTH, natDigits (env.errPage 403 (statusReason 403)).length),
              (Sock.CONTENT_TYPE, Sock.TEXT_HTML), (RouteScn.X_MW, natDigits id)] = [natDigits id] := by
          apply valuesOf_single (a := [_, _]) (b := []) (by decide) (natDigits_no_comma id)
          · intro e he; simp at he; rcases he with rfl | rfl <;> (dsimp only; decide)
          · intro e he; cases he
        have v2 : Http.valuesOf C05.LOCATION
            [(Sock.CONTENT_LENGTH, natDigits (env.errPage 403 (statusReason 403)).length),
              (Sock.CONTENT_TYPE, Sock.TEXT_HTML), (RouteScn.X_MW, natDigits id)] = [] := by
          apply valuesOf_none
          intro e he; simp at he; rcases he with rfl | rfl | rfl <;> (dsimp only; decide)
        have v3 : Http.valuesOf Sock.CONTENT_LENGTH
            [(Sock.CONTENT_LENGTH, natDigits (env.errPage 403 (statusReason 403)).length),
              (Sock.CONTENT_TYPE, Sock.TEXT_HTML), (RouteScn.X_MW, natDigits id)] =
            [natDigits (env.errPage 403 (statusReason 403)).length] := by
          apply valuesOf_single (a := []) (b := [_, _]) (by decide) (natDigits_no_comma _)
          · intro e he; cases he
          · intro e he; simp at he; rcases he with rfl | rfl <;> (dsimp only; decide)
        rw [v1, v2, v3]
        simp

/-! ### non-vacuity -/
open Qhttp.C05.Ex in
example : refuser (route toyM (root false true) path) = some 11 ∧
    mwActs (route toyM (root false true) path) = [(0, true), (10, true), (11, false)] ∧
    chain toyM (root false true) path = [(0, true), (10, true), (11, false), (20, true)] := by decide
open Qhttp.C05.Ex in
example : ∃ a ∈ route toyM (root true true) path, isTerminalAct a = true := by decide

open Qhttp.C05.Ex in
example : holds envX (scEx false) (Scenario.run envX (scEx false).scenario).log = true ∧
    holds envX (scEx true) (Scenario.run envX (scEx true).scenario).log = true ∧
    holds envX scNoRoot (Scenario.run envX scNoRoot.scenario).log = true := by decide +kernel
-- `holds` rejects the same refusing run once a handler observation is added after the refusal
open Qhttp.C05.Ex in
example : holds envX (scEx false) ((Scenario.run envX (scEx false).scenario).log ++ [.pr 2 []]) = false := by
  decide +kernel

/-! ### the `soft` scenarios: a refusing middleware answers itself and leaves the connection open -/

open Qhttp.RouteSoftL in
/-- **C06.3 for soft refusals (`holds_run_soft`)**: the same predicate on the run of
    `RouteScn.softScenario`, for every environment and every `route` scenario, no side condition.
    After a soft refusal the client receives exactly the refuser's response (403, its `X-Mw` mark,
    `Content-Length: 6`, "denied"): routing adds nothing, no handler runs, and the request-side
    signals of the connection that stays open carry no routing observation. -/
theorem holds_run_soft (env : Env) (sc : RouteScn) :
    holds env sc (Scenario.run env sc.softScenario).log = true := by
  cases hroot : sc.root with
  | none =>
    rw [softScenario_eq_of_noRoot sc hroot]
    exact holds_run env sc
  | some r =>
    obtain ⟨pre, hpre, ⟨t, ht, hr, _⟩ | ⟨id, hr, _⟩⟩ := route_cases sc.matcher r (sc.p16.drop 1)
    · rw [softScenario_eq_of_terminal sc hroot hpre ht hr]
      exact holds_run env sc
    · unfold holds
      have hrun : Scenario.run env sc.softScenario =
          Sock.run env sc.softApp [.new, .feed sc.stream, .turn] := rfl
      cases hacc : C05.accepted env sc with
      | false =>
        simp only [Bool.not_false, if_true]
        obtain ⟨head, rest, hb⟩ := C05.stream_breaks sc
        rw [hrun, run_bad env sc.softApp sc.stream hb (not_accepted_bad env sc hacc hb)]
        simp only [mwsOf_append, mwsOf_cons, mwsOf_wObs]
        simp [mwsOf]
      | true =>
        simp only [Bool.not_true, Bool.false_eq_true, if_false]
        obtain ⟨head, rest, rh, p, q, hb, hp, hu⟩ := (C05.accepted_iff env sc).1 hacc
        obtain ⟨X, Y, hX, hY, hlog⟩ := run_soft_refusal env sc hroot hpre hr hb hp hu
        have hacts : sc.acts = some (route sc.matcher r (sc.p16.drop 1)) := by
          simp [RouteScn.acts, serverRoute, hroot]
        simp only [hacts]
        rw [hlog, hr]
        have e : pre.map mwAct ++ [Act.mw id false] = (pre ++ [(id, false)]).map mwAct := by simp [mwAct]
        have h1 : mwActs (pre.map mwAct ++ [Act.mw id false]) = pre ++ [(id, false)] := by
          rw [e, mwActs_map_mwAct]
        have h2 : refuser (pre.map mwAct ++ [Act.mw id false]) = some id := by
          rw [refuser, h1, findRefuser_append_of_accept hpre]; rfl
        have mX : mwsOf X = [] := filterMap_quiet _ rfl rfl hX
        have mY : mwsOf Y = [] := filterMap_quiet _ rfl rfl hY
        have pX : C05.prs X = [] := filterMap_quiet _ rfl rfl hX
        have pY : C05.prs Y = [] := filterMap_quiet _ rfl rfl hY
        have m : mwsOf ([Obs.ev 0, Obs.ev 1, Obs.hp] ++ (pre.map mwObs ++ softObs id) ++ X ++ [Obs.ev 2] ++ Y) =
            pre ++ [(id, false)] := by
          simp only [mwsOf_append, mwsOf_mwObs, mX, mY, softObs, mwsOf_cons]; simp [mwsOf]
        have pz : C05.prs ([Obs.ev 0, Obs.ev 1, Obs.hp] ++ (pre.map mwObs ++ softObs id) ++ X ++ [Obs.ev 2] ++ Y) =
            [] := by
          simp only [C05.prs_append, C05.prs_mwObs, pX, pY, softObs, C05.prs_cons]; simp [C05.prs]
        have w : Obs.wire ([Obs.ev 0, Obs.ev 1, Obs.hp] ++ (pre.map mwObs ++ softObs id) ++ X ++ [Obs.ev 2] ++ Y) =
            headOf 403 (statusReason 403) (softHdrs id) ++ RouteScn.DENIED := by
          simp only [wire_append, wire_mwObs, wire_quiet hX, wire_quiet hY, wire_softObs, C05.wire_cons]
          simp [Obs.wire]
        rw [h1, h2, m, pz, w]
        obtain ⟨p1, p2⟩ := parse_headOf (c := 403) (by decide) (reason := statusReason 403) (by decide)
          (hs := softHdrs id) (softHdrs_ok id) RouteScn.DENIED
        rw [p1]
        simp only [p2]
        have v1 : Http.valuesOf RouteScn.X_MW (softHdrs id) = [natDigits id] := by
          apply valuesOf_single (a := [_]) (b := []) (by decide) (natDigits_no_comma id)
          · intro e he; simp at he; subst he; (dsimp only; decide)
          · intro e he; cases he
        have v2 : Http.valuesOf C05.LOCATION (softHdrs id) = [] := by
          apply valuesOf_none
          intro e he; simp [softHdrs] at he; rcases he with rfl | rfl <;> (dsimp only; decide)
        have v3 : Http.valuesOf Sock.CONTENT_LENGTH (softHdrs id) = [natDigits 6] := by
          apply valuesOf_single (a := []) (b := [_]) (by decide) (natDigits_no_comma _)
          · intro e he; cases he
          · intro e he; simp at he; subst he; (dsimp only; decide)
        have hl : RouteScn.DENIED.length = 6 := rfl
        rw [v1, v2, v3, hl]
        simp

/-! non-vacuity: a soft refusal on a concrete run of the model -/
open Qhttp.C05.Ex in
example : refuser (route toyM (.mk 0 [(7, false)] [] .nil true) [120]) = some 7 ∧
    holds envX scSoft (Scenario.run envX scSoft.softScenario).log = true := by decide +kernel
-- the three-level tree, refusal at depth 2, softly
open Qhttp.C05.Ex in
example : holds envX (scEx false) (Scenario.run envX (scEx false).softScenario).log = true := by decide +kernel
-- `holds` rejects the soft run once a handler observation follows the refusal
open Qhttp.C05.Ex in
example : holds envX scSoft ((Scenario.run envX scSoft.softScenario).log ++ [.pr 0 []]) = false := by
  decide +kernel
-- … and once anything more reaches the client after the refuser's body (length no longer matches)
open Qhttp.C05.Ex in
example : holds envX scSoft ((Scenario.run envX scSoft.softScenario).log ++ [.w [33]]) = false := by
  decide +kernel

/-- the same request with bytes after the head (a target that contains the end of the head): the
    connection stays open, so `readyRead` is signalled (at the read and again at the turn) — the
    quiet stretches `X`, `Y` of `RouteSoftL.run_soft_refusal` are not always empty -/
def scSoftBody : RouteScn :=
  { C05.Ex.scSoft with raw := lit ['/','x',' ','H','T','T','P','/','1','.','1','\r','\n','\r','\n','z','z'] }
open Qhttp.C05.Ex in
example : C05.accepted envX scSoftBody = true ∧
    (Scenario.run envX scSoftBody.softScenario).log.filter Obs.isRr = [.rr, .rr] ∧
    holds envX scSoftBody (Scenario.run envX scSoftBody.softScenario).log = true := by decide +kernel

end Qhttp.C06
