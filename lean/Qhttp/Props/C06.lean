import Qhttp.Props.C05
/-
  C06 — middleware is a fail-closed gate in front of all routing.
-/
namespace Qhttp.C06
open Qhttp

def mwsOf (obs : List Obs) : List (Nat × Bool) :=
  obs.filterMap fun o => match o with | .mw i ok => some (i, ok) | _ => none
def mwActs (as : List Act) : List (Nat × Bool) :=
  as.filterMap fun a => match a with | .mw i ok => some (i, ok) | _ => none

def refuser (as : List Act) : Option Nat :=
  (mwActs as).findSome? fun e => if e.2 then none else some e.1

/-- the middleware consulted are exactly those on the route, in attachment order, up to and
    including the first refusal; after a refusal no handler code runs and the only response is
    the refuser's (a 403 carrying its `X-Mw` mark, as the harness's middleware writes) -/
def holds (env : Env) (sc : RouteScn) (obs : List Obs) : Bool :=
  if !C05.accepted env sc then mwsOf obs == [] else
  match sc.acts with
  | none => mwsOf obs == []
  | some as =>
    mwsOf obs == mwActs as &&
    (match refuser as with
     | none => true
     | some id =>
       C05.prs obs == [] &&
       (match Http.parse (Obs.wire obs) with
        | some m =>
          (Http.statusLine m.start).map (·.code) == some 403 &&
          Http.valuesOf RouteScn.X_MW m.headers == [natDigits id] &&
          Http.valuesOf C05.LOCATION m.headers == [] &&
          Http.valuesOf Sock.CONTENT_LENGTH m.headers == [natDigits m.body.length]
        | none => false))

/-! ## Theorems -/

open Qhttp.RouteL

theorem mwActs_map_mwAct (l : List (Nat × Bool)) : mwActs (l.map mwAct) = l := by
  induction l with
  | nil => rfl
  | cons e l ih => simp only [mwActs] at ih; simp [mwActs, mwAct, ih]

theorem mwActs_append (a b : List Act) : mwActs (a ++ b) = mwActs a ++ mwActs b := by
  simp [mwActs, List.filterMap_append]

theorem mwActs_terminal {t : Act} (h : isTerminalAct t = true) : mwActs [t] = [] := by
  cases t <;> simp_all [mwActs, isTerminalAct]

theorem findRefuser_append_of_accept {pre : List (Nat × Bool)} (h : allAccept pre = true) (l : List (Nat × Bool)) :
    (pre ++ l).findSome? (fun e => if e.2 then none else some e.1) =
      l.findSome? (fun e => if e.2 then none else some e.1) := by
  induction pre with
  | nil => rfl
  | cons e pre ih =>
    simp only [allAccept, List.all_cons, Bool.and_eq_true] at h
    simp only [List.cons_append, List.findSome?_cons, h.1, if_true]
    exact ih (by simpa [allAccept] using h.2)

/-- **C06.1 gate**: the middleware consulted are exactly those of the handlers on the route, in
    attachment order, up to and including the first refusal (`chain` is defined independently of
    `route`); after a refusal there is no `.redirect` / `.process` action at all and the run ends
    with that refusal -/
theorem gate (m : Matcher) (n : Node) (path : QStr) :
    mwActs (route m n path) = takeThroughFirstRefusal (chain m n path) ∧
    (∀ id, refuser (route m n path) = some id →
      (∀ a ∈ route m n path, isTerminalAct a = false) ∧
      (route m n path).getLast? = some (.mw id false) ∧
      C05.terminal (route m n path) = none) := by
  constructor
  · rw [route_struct, tailOf, mwActs_append, mwActs_map_mwAct]
    split
    · rw [mwActs_terminal (termOf_terminal m n path)]; simp
    · simp [mwActs]
  · intro id hid
    obtain ⟨pre, hp, ⟨t, ht, hr, hn⟩ | ⟨id', hr, hn⟩⟩ := C05.route_shape m n path
    · exfalso
      rw [refuser, hr, mwActs_append, mwActs_map_mwAct, mwActs_terminal ht, List.append_nil] at hid
      have := findRefuser_append_of_accept hp []
      simp only [List.append_nil] at this
      rw [this] at hid
      cases hid
    · have e : pre.map mwAct ++ [Act.mw id' false] = (pre ++ [(id', false)]).map mwAct := by simp [mwAct]
      have hid' : id' = id := by
        rw [refuser, hr, e, mwActs_map_mwAct, findRefuser_append_of_accept hp] at hid
        simpa using hid
      subst hid'
      rw [hr]
      refine ⟨?_, List.getLast?_concat .., ?_⟩
      · intro a ha
        rw [e] at ha
        obtain ⟨x, _, rfl⟩ := List.mem_map.1 ha
        rfl
      · rw [e]; exact C05.terminal_map_mwAct _

/-- **C06.2 reach**: a terminal action (a handler's redirect, or any handler's `process`) happens
    only if every middleware of every handler on the route was consulted, in order, and accepted -/
theorem reach (m : Matcher) (n : Node) (path : QStr)
    (h : ∃ a ∈ route m n path, isTerminalAct a = true) :
    allAccept (mwActs (route m n path)) = true ∧ mwActs (route m n path) = chain m n path ∧
    refuser (route m n path) = none := by
  have hacc : allAccept (chain m n path) = true := by
    cases hc : allAccept (chain m n path) with
    | true => rfl
    | false =>
      exfalso
      obtain ⟨a, ha, hta⟩ := h
      rw [route_struct, tailOf, hc] at ha
      simp only [Bool.false_eq_true, if_false, List.append_nil] at ha
      obtain ⟨x, _, rfl⟩ := List.mem_map.1 ha
      cases hta
  have hg := (gate m n path).1
  rw [ttfr_of_accept hacc] at hg
  refine ⟨by rw [hg]; exact hacc, hg, ?_⟩
  rw [refuser, hg]
  have := findRefuser_append_of_accept hacc []
  simpa using this

/-- the refuser is the first refusing middleware of the route's chain -/
theorem refuser_route (m : Matcher) (n : Node) (path : QStr) :
    refuser (route m n path) =
      (chain m n path).findSome? (fun e => if e.2 then none else some e.1) := by
  rw [refuser, (gate m n path).1]
  generalize chain m n path = c
  induction c with
  | nil => rfl
  | cons e l ih =>
    obtain ⟨i, ok⟩ := e
    cases ok <;> simp [takeThroughFirstRefusal, ih]

/-! ### non-vacuity -/
open Qhttp.C05.Ex in
example : refuser (route toyM (root false true) path) = some 11 ∧
    mwActs (route toyM (root false true) path) = [(0, true), (10, true), (11, false)] ∧
    chain toyM (root false true) path = [(0, true), (10, true), (11, false), (20, true)] := by decide
open Qhttp.C05.Ex in
example : ∃ a ∈ route toyM (root true true) path, isTerminalAct a = true := by decide

end Qhttp.C06
