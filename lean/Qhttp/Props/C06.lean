import Qhttp.Props.C05
/-
  C06 — middleware is a fail-closed gate in front of all routing.
-/
namespace Qhttp.C06
open Qhttp

def mwsOf (obs : List Obs) : List (Nat × Bool) :=
  obs.filterMap fun o => match o with | .mw i ok => some (i, ok) | _ => none
def mwActs (as : List Act) : List (Nat × Bool) :=
  as.filterMap fun a => match a with | .mw i ok => some (i, ok) | _ => none

def refuser (as : List Act) : Option Nat :=
  (mwActs as).findSome? fun e => if e.2 then none else some e.1

/-- the middleware consulted are exactly those on the route, in attachment order, up to and
    including the first refusal; after a refusal no handler code runs and the only response is
    the refuser's (a 403 carrying its `X-Mw` mark, as the harness's middleware writes) -/
def holds (env : Env) (sc : RouteScn) (obs : List Obs) : Bool :=
  if !C05.accepted env sc then mwsOf obs == [] else
  match sc.acts with
  | none => mwsOf obs == []
  | some as =>
    mwsOf obs == mwActs as &&
    (match refuser as with
     | none => true
     | some id =>
       C05.prs obs == [] &&
       (match Http.parse (Obs.wire obs) with
        | some m =>
          (Http.statusLine m.start).map (·.code) == some 403 &&
          Http.valuesOf RouteScn.X_MW m.headers == [natDigits id] &&
          Http.valuesOf C05.LOCATION m.headers == [] &&
          Http.valuesOf Sock.CONTENT_LENGTH m.headers == [natDigits m.body.length]
        | none => false))

end Qhttp.C06
