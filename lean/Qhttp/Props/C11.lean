import Qhttp.Lemmas.BytesLemmas
import Qhttp.Props.C14
import Qhttp.Props.C16
/-
  C11 — no byte stream or event order makes the engine crash, hang or misbehave (partial).

  What a proof can carry: every handler of the model is a total Lean function (the two loops of
  the library whose bound is not obvious have explicit termination theorems below), every
  positional access the parsers perform is in range, and the translated arithmetic stays inside
  64 bits.  What it cannot: memory safety of the compiled code and of Qt — that part is observed:
  the `sock` scenario language is driven with arbitrary events, bytes and re-entrant reactions
  under ASan+UBSan, and the whole history is compared with the model's.
-/
namespace Qhttp.C11
open Qhttp

/-- the implementation's history shows no sanitizer abort, failed assertion or hang -/
def holds (obs : List Obs) : Bool := !obs.any Obs.isCrash

/-- `Parser::split` terminates for every non-empty delimiter: the model's fuel `|data| + 1` is
    never exhausted — any larger fuel gives the same result (with an empty delimiter and
    `maxSplit == 0` the C++ loop does not terminate; every call site passes a literal) -/
theorem split_terminates (d : Bytes) (hd : d ≠ []) (lim : Option Nat) (xs : Bytes) (extra : Nat) :
    splitF d (xs.length + 1 + extra) lim xs = splitF d (xs.length + 1) lim xs :=
  splitF_fuel hd (by omega) (by omega)

/-- the delimiters at the call sites are non-empty literals -/
theorem call_site_delimiters : CRLF ≠ [] ∧ [SP] ≠ [] ∧ [COLON] ≠ [] := by decide

/-- each cut makes progress: the remainder after a delimiter is strictly shorter -/
theorem split_progress (d xs a r : Bytes) (hd : d ≠ []) (h : breakOn d xs = some (a, r)) :
    r.length < xs.length := breakOn_length_lt hd h

/-- `lines.takeFirst()` in `parseHeaders` is applied to a non-empty list -/
theorem takeFirst_safe (data : Bytes) : split CRLF 0 data ≠ [] := split_ne_nil CRLF 0 data

/-- `parts[0]`, `parts[1]`, `parts[2]` are read only after `parts.count() == 3` was checked: the
    model's `parseHeaders` succeeds only on a three-element list -/
theorem parts_indexed_after_count (data : Bytes) (m : HeaderMap) (p0 p1 p2 : Bytes) (m' : HeaderMap)
    (h : Parser.parseHeaders data m = some (p0, p1, p2, m')) :
    ∃ first lines, split CRLF 0 data = first :: lines ∧ split [SP] 2 first = [p0, p1, p2] := by
  unfold Parser.parseHeaders at h
  split at h
  · cases h
  · rename_i first lines hs
    split at h
    · rename_i a b c hp
      split at h
      · cases h; exact ⟨first, lines, hs, hp⟩
      · cases h
    · cases h

/-- the copier's block loop terminates: each block either finishes the copy or strictly
    decreases the number of wanted bytes still to copy (needs `bufferSize ≥ 1`) -/
theorem copier_block_loop_terminates (c : Copier.Cfg) (hb : c.block ≥ 1) (hr : C14.rangeOK c = true)
    (nt : Nat) (s : Copier.St) (h : C14L.Running c nt s) :
    C14L.Done c (Copier.nextBlock c { s with pending := .none }) ∨
    (C14L.Running c (nt + 1) (Copier.nextBlock c { s with pending := .none }) ∧
       (C14.wanted c).length - (C14.writtenOf (Copier.nextBlock c { s with pending := .none }).log).length <
       (C14.wanted c).length - (C14.writtenOf s.log).length) :=
  C14.block_loop_variant c hb hr nt s h

/-- the Range accessors never leave 64 bits for magnitudes below 2^62 -/
theorem range_arith_64bit (r : Range) (hf : -(2:Int)^62 < r.frm ∧ r.frm < 2^62)
    (ht : -(2:Int)^62 < r.to ∧ r.to < 2^62) (hs : -(2:Int)^62 < r.size ∧ r.size < 2^62) :
    (-(2:Int)^63 < r.size + r.frm ∧ r.size + r.frm < 2^63) ∧
    (-(2:Int)^63 < r.to - r.frm + 1 ∧ r.to - r.frm + 1 < 2^63) ∧
    (-(2:Int)^63 < r.size - r.frm ∧ r.size - r.frm < 2^63) := by
  have h := C16.no_overflow r (2^62) rfl hf ht hs
  refine ⟨⟨by omega, by omega⟩, ⟨by omega, by omega⟩, ⟨by omega, by omega⟩⟩

/-- handling one event always terminates and yields a state: the step functions of the model are
    total functions (no `partial`, no fuel exhaustion observable: `split_terminates`) -/
theorem step_total (env : Env) (app : App) (s : Sock) (e : Event) : ∃ s', Sock.step env app s e = s' :=
  ⟨_, rfl⟩

end Qhttp.C11
