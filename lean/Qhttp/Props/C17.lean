import Qhttp.Model.LocalAuth
/-
  C17 — local token authentication: the token is always advertised, only it is accepted.
-/
namespace Qhttp.C17
open Qhttp LocalAuth

/-- walk the observation list against the operations: after every operation between `create` and
    `destroy` the file exists with mode 0600 and holds the data keys plus a `token` member equal to
    the current token; a request is admitted iff the configured header carries exactly the token;
    after `destroy` the file is gone -/
def walk : List Op → (alive : Bool) → (hdrName : Bytes) → (keys : List Bytes) → List Obs → Bool
  | [], _, _, _, obs => obs.isEmpty
  | op :: ops, alive, hdrName, keys, obs =>
    let alive' := match op with | .create => true | .destroy => false | _ => alive
    let hdr' := match op with
      | .setHeaderName n => if alive then n else hdrName
      | .create => if alive then hdrName else lit ['X','-','A','u','t','h','-','T','o','k','e','n']
      | _ => hdrName
    let keys' := match op with
      | .setData ks => if alive then sortKeys (TOKEN :: ks) else keys
      | .create => if alive then keys else [TOKEN]
      | _ => keys
    -- a request first yields its verdict
    let (okReq, obs) :=
      match op, obs with
      | .req hdr, .misc 11 [v] :: rest =>
        if alive then
          (v == (match hdr with | some (n, tv) => if lower n == lower hdrName && tv == TokVal.exact then (1 : UInt8) else 0 | none => (0 : UInt8)), rest)
        else (false, rest)
      | .req _, o => (!alive, o)
      | _, o => (true, o)
    match obs with
    | .misc 10 d :: rest =>
      okReq &&
      (if alive' then
         (match d with
          | 1 :: 6 :: 0 :: 0 :: 1 :: ks => ks == joinWith [44] keys'
          | _ => false)
       else
         -- before the first instance and after destruction nothing is claimed about a foreign
         -- file except that destruction removes the advertised one
         (match op with | .destroy => d == [] || !alive | _ => true)) &&
      walk ops alive' hdr' keys' rest
    | _ => false

def holds (ops : List Op) (obs : List Obs) : Bool := walk ops false [] [] obs

end Qhttp.C17
