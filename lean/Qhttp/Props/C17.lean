import Qhttp.Model.LocalAuth
import Qhttp.Lemmas.C17Keys
import Qhttp.Lemmas.C17Auth
/-
  C17 — local token authentication: the token is always advertised, only it is accepted.
-/
namespace Qhttp.C17
open Qhttp LocalAuth

/-- walk the observation list against the operations.  The accumulators are what the API history
    alone determines: is an instance alive, its header name, the keys of its in-memory `data`,
    `blocked` (a directory occupies the advertised name, so `LocalFile::open()` fails) and `present`
    (a regular file is at the name: put there by `pre`, or by an `updateFile()` that could open it,
    and not removed by a destructor since).  After every operation:
    * while blocked the snapshot says "no file" (a directory is not the advertised file; nothing
      is demanded about existence: the guarantee presupposes that the file can be created);
    * if an instance is alive and `present` (its last `updateFile()` could open the file and
      nothing removed it since) the file has mode 0600 and holds the data keys plus a `token`
      member equal to the current token;
    * if no file can be there (`present = false`: in particular after `destroy` of a live instance,
      ALSO when the open at construction had failed and a later update created the file) the
      snapshot says "no file";
    * a request is admitted iff the configured header carries exactly the token, blocked or not -/
def walk : List Op → (alive : Bool) → (hdrName : Bytes) → (keys : List Bytes) →
    (blocked : Bool) → (present : Bool) → List Obs → Bool
  | [], _, _, _, _, _, obs => obs.isEmpty
  | op :: ops, alive, hdrName, keys, blocked, present, obs =>
    let alive' := match op with | .create => true | .destroy => false | _ => alive
    let hdr' := match op with
      | .setHeaderName n => if alive then n else hdrName
      | .create => if alive then hdrName else lit ['X','-','A','u','t','h','-','T','o','k','e','n']
      | _ => hdrName
    -- the keys of `data` in memory (written out by every `updateFile()` that can open the file)
    let keys' := match op with
      | .setData ks => if alive then sortKeys (TOKEN :: ks) else keys
      | .create => if alive then keys else [TOKEN]
      | _ => keys
    let blocked' := match op with
      | .block => if blocked || present then blocked else true
      | .unblock => false
      | _ => blocked
    let present' := match op with
      | .pre _ => if alive || blocked then present else true
      | .create => if alive || blocked then present else true      -- `updateFile()` of the constructor
      | .setData _ => if !alive || blocked then present else true   -- `updateFile()`
      | .destroy => if alive then false else present                -- `file.remove()`, unconditionally
      | _ => present
    -- a request first yields its verdict
    let (okReq, obs) :=
      match op, obs with
      | .req hdr, .misc 11 [v] :: rest =>
        if alive then
          (v == (match hdr with | some (n, tv) => if lower n == lower hdrName && tv == TokVal.exact then (1 : UInt8) else 0 | none => (0 : UInt8)), rest)
        else (false, rest)
      | .req _, o => (!alive, o)
      | _, o => (true, o)
    match obs with
    | .misc 10 d :: rest =>
      okReq &&
      (if blocked' || !present' then d == []
       else if alive' then
         (match d with
          | 1 :: 6 :: 0 :: 0 :: 1 :: ks => ks == joinWith [44] keys'
          | _ => false)
       else
         -- a foreign file before an instance exists: nothing is claimed about it
         true) &&
      walk ops alive' hdr' keys' blocked' present' rest
    | _ => false

def holds (ops : List Op) (obs : List Obs) : Bool := walk ops false [] [] false false obs


/-! ## Theorems (proof agent C17)

  Everything below is about the model `LocalAuth` and the predicate `holds` above.
  Helper lemmas: `Qhttp/Lemmas/C17Keys.lean` (`sortKeys`), `Qhttp/Lemmas/C17Auth.lean`
  (projections of `step`, the invariant `LInv`, the history specification `Ghost`/`ghost`).
  Nothing is assumed about the operation sequence: every theorem quantifies over ALL `List Op`
  (any interleaving of umask / pre / create / setData / setHeaderName / req / destroy / block /
  unblock, any umask value, any mode of a pre-existing file).  -/
open Qhttp.C17L

/-! ### `C17.walk` is simulated by `step` -/

/-- the accumulators of `C17.walk` after one operation -/
def nAlive (op : Op) (alive : Bool) : Bool :=
  match op with | .create => true | .destroy => false | _ => alive
def nHdr (op : Op) (alive : Bool) (hdrName : Bytes) : Bytes :=
  match op with
  | .setHeaderName n => if alive then n else hdrName
  | .create => if alive then hdrName else lit ['X','-','A','u','t','h','-','T','o','k','e','n']
  | _ => hdrName
def nKeys (op : Op) (alive : Bool) (keys : List Bytes) : List Bytes :=
  match op with
  | .setData ks => if alive then sortKeys (TOKEN :: ks) else keys
  | .create => if alive then keys else [TOKEN]
  | _ => keys
def nBlocked (op : Op) (blocked present : Bool) : Bool :=
  match op with
  | .block => if blocked || present then blocked else true
  | .unblock => false
  | _ => blocked
def nPresent (op : Op) (alive blocked present : Bool) : Bool :=
  match op with
  | .pre _ => if alive || blocked then present else true
  | .create => if alive || blocked then present else true
  | .setData _ => if !alive || blocked then present else true
  | .destroy => if alive then false else present
  | _ => present

/-- what `C17.walk` demands of the snapshot logged after an operation -/
def snapOk (alive' : Bool) (keys' : List Bytes) (blocked' present' : Bool) (d : Bytes) : Bool :=
  if blocked' || !present' then d == []
  else if alive' then
    (match d with
     | 1 :: 6 :: 0 :: 0 :: 1 :: ks => ks == joinWith [44] keys'
     | _ => false)
  else
    true

/-- the body of `C17.walk` on a non-empty operation list (Lean cannot generate equation lemmas
    for `walk`, so it is unfolded through this copy, equal by `rfl`) -/
def walkBody (op : Op) (ops : List Op) (alive : Bool) (hdrName : Bytes) (keys : List Bytes)
    (blocked present : Bool) (obs : List Obs) : Bool :=
    let alive' := nAlive op alive
    let hdr' := nHdr op alive hdrName
    let keys' := nKeys op alive keys
    let blocked' := nBlocked op blocked present
    let present' := nPresent op alive blocked present
    let (okReq, obs) :=
      match op, obs with
      | .req hdr, .misc 11 [v] :: rest =>
        if alive then
          (v == (match hdr with | some (n, tv) => if lower n == lower hdrName && tv == TokVal.exact then (1 : UInt8) else 0 | none => (0 : UInt8)), rest)
        else (false, rest)
      | .req _, o => (!alive, o)
      | _, o => (true, o)
    match obs with
    | .misc 10 d :: rest =>
      okReq && snapOk alive' keys' blocked' present' d &&
      C17.walk ops alive' hdr' keys' blocked' present' rest
    | _ => false

theorem walk_cons (op : Op) (ops : List Op) (a : Bool) (h : Bytes) (k : List Bytes) (b p : Bool) (obs : List Obs) :
    C17.walk (op :: ops) a h k b p obs = walkBody op ops a h k b p obs := rfl

theorem walk_nil (a : Bool) (h : Bytes) (k : List Bytes) (b p : Bool) (obs : List Obs) :
    C17.walk [] a h k b p obs = obs.isEmpty := rfl

/-- relation between the model state and the accumulators of `C17.walk` -/
def Rel (s : St) (a : Bool) (h : Bytes) (k : List Bytes) (b p : Bool) : Prop :=
  a = s.alive ∧ b = s.blocked ∧ p = s.file.isSome ∧ (s.blocked = true → s.file = none) ∧
  (s.alive = true → h = s.hdrName ∧ (s.file.isSome = true → s.file = some (goodFile k)))

/-- one step keeps the relation -/
theorem Rel_step (s : St) (op : Op) (a : Bool) (h : Bytes) (k : List Bytes) (b p : Bool)
    (hR : Rel s a h k b p) :
    Rel (step s op) (nAlive op a) (nHdr op a h) (nKeys op a k) (nBlocked op b p) (nPresent op a b p) := by
  obtain ⟨ha, hb, hp, hx, hal⟩ := hR
  subst ha hb hp
  refine ⟨?_, ?_, ?_, ?_, ?_⟩
  · rw [step_alive]; cases op <;> rfl
  · rw [step_blocked]; cases op <;> rfl
  · rw [step_file]
    cases op <;> cases hsa : s.alive <;> cases hsb : s.blocked <;> cases hsf : s.file <;>
      simp_all [nPresent]
  · rw [step_blocked, step_file]
    cases op <;> cases hsa : s.alive <;> cases hsb : s.blocked <;> cases hsf : s.file <;>
      simp_all
  · rw [step_alive, step_hdrName, step_file]
    cases op <;> cases hsa : s.alive <;> cases hsb : s.blocked <;> cases hsf : s.file <;>
      simp_all [nHdr, nKeys, DEFHDR]

/-- the snapshot of a state related to the accumulators is what `walk` demands -/
theorem Rel_snap (s : St) (a : Bool) (h : Bytes) (k : List Bytes) (b p : Bool) (hR : Rel s a h k b p) :
    ∃ d, snap s = Obs.misc 10 d ∧ snapOk a k b p d = true := by
  obtain ⟨ha, hb, hp, hx, hal⟩ := hR
  subst ha hb hp
  cases hsb : s.blocked with
  | true => exact ⟨[], snap_blocked s hsb, by simp [snapOk]⟩
  | false =>
    cases hsf : s.file with
    | none => exact ⟨[], snap_none s hsf, by simp [snapOk]⟩
    | some f =>
      cases hsa : s.alive with
      | false =>
        obtain ⟨d, hd⟩ := snap_misc s
        exact ⟨d, hd, by simp [snapOk]⟩
      | true =>
        have := (hal hsa).2 (by simp [hsf])
        exact ⟨_, snap_good s k hsb this, by simp [snapOk]⟩

theorem walk_step (s : St) (op : Op) (a : Bool) (h : Bytes) (k : List Bytes) (b p : Bool)
    (hR : Rel s a h k b p) :
    ∃ a' h' k' b' p', Rel (step s op) a' h' k' b' p' ∧
      ∀ ops rest, C17.walk (op :: ops) a h k b p (verdictOut s op ++ [snap (step s op)] ++ rest)
        = C17.walk ops a' h' k' b' p' rest := by
  have hR' := Rel_step s op a h k b p hR
  refine ⟨_, _, _, _, _, hR', ?_⟩
  intro ops rest
  obtain ⟨d, hd, hok⟩ := Rel_snap _ _ _ _ _ _ hR'
  obtain ⟨ha, hb, hp, hx, hal⟩ := hR
  subst ha hb hp
  rw [hd, walk_cons]
  unfold walkBody
  cases op with
  | req hdr =>
    cases hsa : s.alive with
    | false => rw [hsa] at hok; simp [verdictOut, hsa, hok]
    | true =>
      have hh := (hal hsa).1
      rw [hsa] at hok
      cases hdr with
      | none => simp [verdictOut, hsa, hok, admits]
      | some q =>
        obtain ⟨n, tv⟩ := q
        simp [verdictOut, hsa, hok, admits, hh]
  | _ => simp [verdictOut, hok]

theorem walk_emit (ops : List Op) (s : St) (a : Bool) (h : Bytes) (k : List Bytes) (b p : Bool)
    (hR : Rel s a h k b p) :
    C17.walk ops a h k b p (emit s ops) = true := by
  induction ops generalizing s a h k b p with
  | nil => simp [walk_nil, emit]
  | cons op ops ih =>
    obtain ⟨a', h', k', b', p', hR', hw⟩ := walk_step s op a h k b p hR
    rw [emit, hw ops (emit (step s op) ops)]
    exact ih _ _ _ _ _ _ hR'


/-! ### 5. the main theorem: the driver's predicate holds on every run of the model -/

/-- `holds` is true on the log of EVERY operation sequence; no well-formedness hypothesis is
    needed (`pre` while alive, `req` before `create`, double `create`, `destroy` without
    instance, `block` on an occupied name, `unblock` without obstacle, ... are all no-ops of the
    model that `walk` treats the same way). -/
theorem holds_run (ops : List Op) : C17.holds ops (LocalAuth.run ops).log = true := by
  rw [run_log]
  exact walk_emit ops {} false [] [] false false
    ⟨rfl, rfl, rfl, (by intro h; cases h), (by intro h; cases h)⟩

/-- the same from any state related to the accumulators of `walk` (e.g. mid-run) -/
theorem walk_from (s : St) (ops : List Op) (a : Bool) (h : Bytes) (k : List Bytes) (b p : Bool)
    (hR : Rel s a h k b p) :
    ∃ out, (ops.foldl step s).log = s.log ++ out ∧ walk ops a h k b p out = true :=
  ⟨emit s ops, foldl_log s ops, walk_emit ops s a h k b p hR⟩

/-! ### 1. `file_inv`: the advertised file while an instance is alive -/

theorem LInv_init' : LInv {} := LInv_init

theorem LInv_step' {s : St} (h : LInv s) (op : Op) : LInv (step s op) := LInv_step h op

/-- after every operation of every run (each prefix of a run is a run): a directory and a file are
    never at the name together, and if an instance is alive, a file at the name has mode 0600, a
    `token` member, and keys `sortKeys (TOKEN :: ks)` -/
theorem LInv_run (ops : List Op) : LInv (run ops) := LInv_foldl LInv_init ops

/-- `file_inv`, history form: while an instance is alive and the file could be written (`present`:
    the constructor or a later `setData` found the name free, see `gstep`), the keys are `token`
    plus the keys of the last `setData` since the last effective `create` (`(ghost ops).data`,
    `[]` if none), whatever umask / pre-existing file -/
theorem file_inv (ops : List Op) (h : (run ops).alive = true) (hp : (ghost ops).present = true) :
    (run ops).file =
      some { mode := 0o600, keys := sortKeys (TOKEN :: (ghost ops).data), hasToken := true } := by
  have ag := Agree_run ops
  exact ag.file (ag.alive ▸ h) hp

/-- the hypotheses of `file_inv` are satisfiable, and `present` cannot be dropped: an instance
    constructed while the name is blocked is alive without a file -/
example : (run [.create]).alive = true ∧ (ghost [.create]).present = true := by decide
example : (run [.block, .create]).alive = true ∧ (ghost [.block, .create]).present = false ∧
    (run [.block, .create]).file = none := by decide

/-- the same without reference to the history of the obstacle: whenever an instance is alive and
    there is a file at all, it is the advertised one with the CURRENT data (also when it was
    written only after a failed open at construction) -/
theorem file_inv_of_isSome (ops : List Op) (h : (run ops).alive = true) (hf : (run ops).file.isSome = true) :
    (run ops).file =
      some { mode := 0o600, keys := sortKeys (TOKEN :: (ghost ops).data), hasToken := true } := by
  have ag := Agree_run ops
  exact ag.file (ag.alive ▸ h) (ag.present ▸ hf)

/-- while a directory occupies the name there is no file and the snapshot says so -/
theorem blocked_no_file (ops : List Op) (h : (run ops).blocked = true) :
    (run ops).file = none ∧ snap (run ops) = Obs.misc 10 [] :=
  ⟨(LInv_run ops).1 h, snap_blocked _ h⟩

/-- an `updateFile()` that can open the file publishes it: the constructor ... -/
theorem create_publishes (ops : List Op) (ha : (run ops).alive = false) (hb : (run ops).blocked = false) :
    (run (ops ++ [Op.create])).file = some (goodFile [TOKEN]) := by
  rw [run_snoc, step_file]; simp [ha, hb]

/-- ... and every `setData` on a live instance (also the first one after the obstacle went away) -/
theorem setData_publishes (ops : List Op) (ks : List Bytes) (ha : (run ops).alive = true)
    (hb : (run ops).blocked = false) :
    (run (ops ++ [Op.setData ks])).file = some (goodFile (sortKeys (TOKEN :: ks))) := by
  rw [run_snoc, step_file]; simp [ha, hb]

/-- while the name is blocked `updateFile()` changes nothing on disk -/
theorem blocked_update_noop (s : St) (hb : s.blocked = true) (ks : List Bytes) :
    (step s .create).file = s.file ∧ (step s (.setData ks)).file = s.file := by
  simp [step_file, hb]

/-- the tail of a run after a successful `updateFile()` of a live instance, no `destroy` since -/
theorem ghost_published_tail (g : Ghost) (ha : g.alive = true) (hp : g.present = true) (hx : g.blocked = true → g.present = false)
    (post : List Op) (hpost : ∀ op ∈ post, op ≠ Op.destroy) :
    post.foldl gstep g =
      { alive := true, hdr := lastHdr g.hdr post, data := lastData g.data post, removed := g.removed,
        blocked := false, present := true } := by
  have hb : g.blocked = false := by
    cases hgb : g.blocked with
    | false => rfl
    | true => rw [hx hgb] at hp; cases hp
  exact gstep_alive_tail g ha hp hb post hpost

/-- `file_inv`, explicit form: `pre` leaves no instance alive and the name free, then `create`,
    then any operations except `destroy` (further `create`/`pre`/`block` are no-ops) -/
theorem file_inv_since_create (pre post : List Op) (hpre : (run pre).alive = false)
    (hb : (run pre).blocked = false) (hpost : ∀ op ∈ post, op ≠ Op.destroy) :
    (run (pre ++ Op.create :: post)).alive = true ∧
    (run (pre ++ Op.create :: post)).file =
      some { mode := 0o600, keys := sortKeys (TOKEN :: lastData [] post), hasToken := true } ∧
    (run (pre ++ Op.create :: post)).hdrName = lastHdr DEFHDR post := by
  have ag := Agree_run (pre ++ Op.create :: post)
  have agp := Agree_run pre
  have hg : ghost (pre ++ Op.create :: post) =
      { alive := true, hdr := lastHdr DEFHDR post, data := lastData [] post, removed := false,
        blocked := false, present := true } := by
    have h1 : (ghost pre).alive = false := agp.alive ▸ hpre
    have h1b : (ghost pre).blocked = false := agp.blocked ▸ hb
    have h2 : gstep (ghost pre) Op.create =
        { alive := true, hdr := DEFHDR, data := [], removed := false, blocked := false, present := true } := by
      simp [gstep, h1, h1b]
    simp only [ghost, List.foldl_append, List.foldl_cons]
    rw [show List.foldl gstep {} pre = ghost pre from rfl, h2]
    exact gstep_alive_tail _ rfl rfl rfl post hpost
  have ha : (ghost (pre ++ Op.create :: post)).alive = true := by rw [hg]
  have hp : (ghost (pre ++ Op.create :: post)).present = true := by rw [hg]
  refine ⟨ag.alive.trans ha, ?_, ?_⟩
  · have := ag.file ha hp; rw [hg] at this; exact this
  · have := ag.hdr ha; rw [hg] at this; exact this

/-- `file_inv` after a failed open at construction: an instance is alive (however it got there, e.g.
    constructed while the name was blocked), the name is free, `setData ks`, then any operations
    except `destroy`: the file holds the token and the CURRENT data -/
theorem file_inv_since_update (pre : List Op) (ks : List Bytes) (post : List Op)
    (hpre : (run pre).alive = true) (hb : (run pre).blocked = false)
    (hpost : ∀ op ∈ post, op ≠ Op.destroy) :
    (run (pre ++ Op.setData ks :: post)).alive = true ∧
    (run (pre ++ Op.setData ks :: post)).file =
      some { mode := 0o600, keys := sortKeys (TOKEN :: lastData ks post), hasToken := true } ∧
    (run (pre ++ Op.setData ks :: post)).hdrName = lastHdr (run pre).hdrName post := by
  have ag := Agree_run (pre ++ Op.setData ks :: post)
  have agp := Agree_run pre
  have h1 : (ghost pre).alive = true := agp.alive ▸ hpre
  have h1b : (ghost pre).blocked = false := agp.blocked ▸ hb
  have hg : ghost (pre ++ Op.setData ks :: post) =
      { alive := true, hdr := lastHdr (ghost pre).hdr post, data := lastData ks post,
        removed := (ghost pre).removed, blocked := false, present := true } := by
    have h2 : gstep (ghost pre) (Op.setData ks) =
        { alive := true, hdr := (ghost pre).hdr, data := ks, removed := (ghost pre).removed,
          blocked := false, present := true } := by
      generalize ghost pre = g at h1 h1b
      obtain ⟨ga, gh, gd, gr, gb, gp⟩ := g
      simp only at h1 h1b; subst h1 h1b
      simp [gstep]
    simp only [ghost, List.foldl_append, List.foldl_cons]
    rw [show List.foldl gstep {} pre = ghost pre from rfl, h2]
    exact gstep_alive_tail _ rfl rfl rfl post hpost
  have ha : (ghost (pre ++ Op.setData ks :: post)).alive = true := by rw [hg]
  have hp : (ghost (pre ++ Op.setData ks :: post)).present = true := by rw [hg]
  refine ⟨ag.alive.trans ha, ?_, ?_⟩
  · have := ag.file ha hp; rw [hg] at this; exact this
  · have := ag.hdr ha; rw [hg] at this; rw [this, agp.hdr h1]

/-- its hypotheses hold after a construction whose open failed, once the obstacle is gone -/
example : (run [.block, .create, .unblock]).alive = true ∧ (run [.block, .create, .unblock]).blocked = false ∧
    (run [.block, .create, .unblock]).file = none := by decide

/-- the key list of the file is strictly increasing (so duplicate-free), contains `token`, and
    besides `token` exactly the application's keys -/
theorem file_keys (ops : List Op) (h : (run ops).alive = true) (hp : (ghost ops).present = true) :
    ∃ f, (run ops).file = some f ∧ f.mode = 0o600 ∧ f.hasToken = true ∧
      Sorted f.keys ∧ f.keys.Nodup ∧ ∀ k, k ∈ f.keys ↔ k = TOKEN ∨ k ∈ (ghost ops).data := by
  refine ⟨_, file_inv ops h hp, rfl, rfl, sortKeys_sorted _, sortKeys_nodup _, ?_⟩
  intro k; simp [mem_sortKeys]

/-- every operation appends (a verdict, for a request on a live instance, and) one snapshot -/
theorem log_snoc (ops : List Op) (op : Op) :
    (run (ops ++ [op])).log = (run ops).log ++ verdictOut (run ops) op ++ [snap (run (ops ++ [op]))] := by
  rw [run_snoc, step_log]

/-- snapshot form of `file_inv`: the snapshot of a state with a live instance and its file -/
theorem snap_alive (ops : List Op) (h : (run ops).alive = true) (hp : (ghost ops).present = true) :
    snap (run ops) =
      Obs.misc 10 (1 :: 6 :: 0 :: 0 :: 1 :: joinWith [44] (sortKeys (TOKEN :: (ghost ops).data))) := by
  have ag := Agree_run ops
  have hb : (run ops).blocked = false := by
    cases hgb : (run ops).blocked with
    | false => rfl
    | true => have := ag.excl (ag.blocked ▸ hgb); rw [this] at hp; cases hp
  exact snap_good _ _ hb (file_inv ops h hp)

/-- every `.misc 10 d` logged while alive with the file published has the shape
    `1 :: 6 :: 0 :: 0 :: 1 :: keys`: the log of a run split at an arbitrary operation `op` after
    which an instance is alive and its file is there -/
theorem snapshot_shape (pre : List Op) (op : Op) (post : List Op)
    (h : (run (pre ++ [op])).alive = true) (hp : (ghost (pre ++ [op])).present = true) :
    (run (pre ++ op :: post)).log =
      (run pre).log ++ verdictOut (run pre) op ++
      [Obs.misc 10 (1 :: 6 :: 0 :: 0 :: 1 :: joinWith [44] (sortKeys (TOKEN :: (ghost (pre ++ [op])).data)))] ++
      emit (run (pre ++ [op])) post := by
  have : pre ++ op :: post = (pre ++ [op]) ++ post := by simp
  rw [this, run_append, foldl_log, log_snoc, snap_alive _ h hp]

/-! ### 2. `admit_iff`: only the exact token under the configured header is admitted -/

/-- for every state (reachable or not): admitted iff the header whose name equals the configured
    one up to ASCII/Latin-1 case carries exactly the current token -/
theorem admit_iff (s : St) (hdr : Option (Bytes × TokVal)) :
    admits s hdr = true ↔ ∃ n, hdr = some (n, TokVal.exact) ∧ lower n = lower s.hdrName := by
  cases hdr with
  | none => simp [admits]
  | some p =>
    obtain ⟨n, v⟩ := p
    simp only [admits, Bool.and_eq_true, beq_iff_eq, Option.some.injEq, Prod.mk.injEq]
    constructor
    · rintro ⟨h1, h2⟩; exact ⟨n, ⟨rfl, h2⟩, h1⟩
    · rintro ⟨m, ⟨h1, h2⟩, h3⟩; subst h1; exact ⟨h3, h2⟩

theorem missing_header_refused (s : St) : admits s none = false := rfl

/-- upper-cased, truncated, braces stripped, NUL suffix, BOM prefix, a previous instance's token,
    any other bytes: refused under every header name -/
theorem wrong_value_refused (s : St) (n : Bytes) {v : TokVal} (hv : v ≠ TokVal.exact) :
    admits s (some (n, v)) = false := by
  simp [admits, hv]

theorem upper_refused (s : St) (n : Bytes) : admits s (some (n, .upper)) = false := by simp [admits]
theorem dropLast_refused (s : St) (n : Bytes) : admits s (some (n, .dropLast)) = false := by simp [admits]
theorem braceless_refused (s : St) (n : Bytes) : admits s (some (n, .braceless)) = false := by simp [admits]
theorem nulSuffix_refused (s : St) (n : Bytes) : admits s (some (n, .nulSuffix)) = false := by simp [admits]
theorem bomPrefix_refused (s : St) (n : Bytes) : admits s (some (n, .bomPrefix)) = false := by simp [admits]
/-- the token of an earlier instance is refused.  (That the earlier instance's UUID string really
    differs from the current one is QUuid's property: an ASSUMPTION of the model, observed by the
    harness, not proved here; the model identifies a token with its instance number `inst`.) -/
theorem previous_refused (s : St) (n : Bytes) : admits s (some (n, .previous)) = false := by simp [admits]
theorem other_refused (s : St) (n b : Bytes) : admits s (some (n, .other b)) = false := by simp [admits]

/-- the right token under a different header name is refused -/
theorem wrong_name_refused (s : St) (n : Bytes) (v : TokVal) (hn : lower n ≠ lower s.hdrName) :
    admits s (some (n, v)) = false := by
  simp [admits, hn]

theorem right_header_admitted (s : St) (n : Bytes) (hn : lower n = lower s.hdrName) :
    admits s (some (n, .exact)) = true := by
  simp [admits, hn]

/-- the configured header name is the argument of the last `setHeaderName` since the last
    effective `create` (`X-Auth-Token` if none) -/
theorem hdrName_spec (ops : List Op) (h : (run ops).alive = true) :
    (run ops).hdrName = (ghost ops).hdr := by
  have ag := Agree_run ops
  exact ag.hdr (ag.alive ▸ h)

/-- `admit_iff` on reachable states, in terms of the API history -/
theorem admit_iff_run (ops : List Op) (h : (run ops).alive = true) (hdr : Option (Bytes × TokVal)) :
    admits (run ops) hdr = true ↔ ∃ n, hdr = some (n, TokVal.exact) ∧ lower n = lower (ghost ops).hdr := by
  rw [admit_iff, hdrName_spec ops h]

/-- what a request on a live instance logs: its verdict, then the (unchanged) snapshot -/
theorem req_logged (ops : List Op) (h : (run ops).alive = true) (hdr : Option (Bytes × TokVal)) :
    (run (ops ++ [Op.req hdr])).log =
      (run ops).log ++ [Obs.misc 11 [if admits (run ops) hdr then 1 else 0], snap (run ops)] := by
  rw [log_snoc]
  have : snap (run (ops ++ [Op.req hdr])) = snap (run ops) := by
    simp [snap, run_snoc, step_file, step_blocked]
  simp [verdictOut, h, this]

/-- a request changes nothing but the log -/
theorem req_pure (s : St) (hdr : Option (Bytes × TokVal)) :
    (step s (.req hdr)).alive = s.alive ∧ (step s (.req hdr)).file = s.file ∧
    (step s (.req hdr)).hdrName = s.hdrName ∧ (step s (.req hdr)).inst = s.inst := by
  simp [step_alive, step_file, step_hdrName, step_inst]

/-! ### 3. `removed`: destruction removes the advertised file -/

theorem destroy_dead (s : St) : (step s .destroy).alive = false := by simp [step_alive]

/-- the destructor of a live instance removes the file from EVERY state: nothing about how or when
    the file came into being (at construction, or by a later update after the open at construction
    had failed) is consulted -/
theorem destroy_removes (s : St) (h : s.alive = true) : (step s .destroy).file = none := by
  simp [step_file, h]

/-- ... and leaves a directory at the name where it is (`QFile::remove()` fails on it) -/
theorem destroy_keeps_obstacle (s : St) : (step s .destroy).blocked = s.blocked := by
  simp [step_blocked]

/-- history form: once an instance was destroyed and neither `create` nor an effective `pre`
    happened since, there is no file and no instance -/
theorem removed (ops : List Op) (h : (ghost ops).removed = true) :
    (run ops).file = none ∧ (run ops).alive = false := by
  have ag := Agree_run ops
  exact ⟨(ag.removed h).1, ag.alive.trans (ag.removed h).2⟩

/-- explicit form: destroy a live instance, then anything but `create` / `pre` (in particular
    `block` / `unblock`).  `pre` is ANY history that leaves an instance alive: also one where the
    open at construction failed and a later update created the file. -/
theorem removed_after_destroy (pre post : List Op) (hpre : (run pre).alive = true)
    (hpost : ∀ op ∈ post, op ≠ Op.create ∧ ∀ m, op ≠ Op.pre m) :
    (run (pre ++ Op.destroy :: post)).file = none ∧
    (run (pre ++ Op.destroy :: post)).alive = false := by
  apply removed
  have agp := Agree_run pre
  have h1 : (ghost pre).alive = true := agp.alive ▸ hpre
  simp only [ghost, List.foldl_append, List.foldl_cons]
  have h2 : (gstep (List.foldl gstep {} pre) Op.destroy).alive = false ∧
            (gstep (List.foldl gstep {} pre) Op.destroy).removed = true := by
    rw [show List.foldl gstep {} pre = ghost pre from rfl]
    simp [gstep, h1]
  exact (gstep_dead_tail _ h2.1 h2.2 post hpost).2

/-- (b), stated for the fault path: the instance is constructed while the name is blocked (the
    open at construction fails), ANY operations without `destroy` follow (the obstacle may go
    away, updates may publish the file), then the instance is destroyed: the file is gone, and
    stays gone until the next `create` / `pre` -/
theorem removed_after_destroy_blocked (pre mid post : List Op)
    (hpre : (run pre).alive = false) (hb : (run pre).blocked = true)
    (hmid : ∀ op ∈ mid, op ≠ Op.destroy)
    (hpost : ∀ op ∈ post, op ≠ Op.create ∧ ∀ m, op ≠ Op.pre m) :
    -- the constructor took effect (fresh token, instance alive) but could not publish anything
    (run (pre ++ [Op.create])).inst = (run pre).inst + 1 ∧
    (run (pre ++ [Op.create])).alive = true ∧
    (run (pre ++ [Op.create])).file = none ∧
    -- whatever happened in between, the destructor removes the file
    (run (pre ++ Op.create :: mid ++ Op.destroy :: post)).file = none ∧
    (run (pre ++ Op.create :: mid ++ Op.destroy :: post)).alive = false := by
  have hal : (run (pre ++ Op.create :: mid)).alive = true := by
    have hg : ∀ (l : List Op) (s : St), s.alive = true → (∀ op ∈ l, op ≠ Op.destroy) →
        (l.foldl step s).alive = true := by
      intro l
      induction l with
      | nil => intro s h _; exact h
      | cons o l ih =>
        intro s h hl
        refine ih _ ?_ (fun o' ho' => hl o' (List.mem_cons_of_mem _ ho'))
        have : o ≠ Op.destroy := hl o (by simp)
        rw [step_alive]; cases o <;> simp_all
    have : pre ++ Op.create :: mid = (pre ++ [Op.create]) ++ mid := by simp
    rw [this, run_append]
    exact hg mid _ (by rw [run_snoc, step_alive]) hmid
  have := removed_after_destroy (pre ++ Op.create :: mid) post hal hpost
  refine ⟨?_, ?_, ?_, by simpa [List.append_assoc] using this⟩
  · rw [run_snoc, step_inst]; simp [hpre]
  · rw [run_snoc, step_alive]
  · rw [run_snoc, step_file]; simp [hb, (LInv_run pre).1 hb]

/-- the scenario of the regression this guards against, for every prior history and every data:
    blocked at construction (nothing published), the obstacle goes away, `setData ks` publishes the
    file with the live token, `destroy` removes it -/
theorem published_then_removed (pre : List Op) (ks : List Bytes)
    (hpre : (run pre).alive = false) (hb : (run pre).blocked = true) :
    (run (pre ++ [Op.create])).file = none ∧
    (run (pre ++ [Op.create, Op.unblock])).file = none ∧
    (run (pre ++ [Op.create, Op.unblock, Op.setData ks])).file = some (goodFile (sortKeys (TOKEN :: ks))) ∧
    (run (pre ++ [Op.create, Op.unblock, Op.setData ks, Op.destroy])).file = none := by
  have hf : (run pre).file = none := (LInv_run pre).1 hb
  have e1 : run (pre ++ [Op.create]) = step (run pre) .create := run_snoc _ _
  have e2 : run (pre ++ [Op.create, Op.unblock]) = step (step (run pre) .create) .unblock := by
    have : pre ++ [Op.create, Op.unblock] = (pre ++ [Op.create]) ++ [Op.unblock] := by simp
    rw [this, run_snoc, e1]
  have e3 : run (pre ++ [Op.create, Op.unblock, Op.setData ks]) =
      step (step (step (run pre) .create) .unblock) (.setData ks) := by
    have : pre ++ [Op.create, Op.unblock, Op.setData ks] = (pre ++ [Op.create, Op.unblock]) ++ [Op.setData ks] := by simp
    rw [this, run_snoc, e2]
  have e4 : run (pre ++ [Op.create, Op.unblock, Op.setData ks, Op.destroy]) =
      step (step (step (step (run pre) .create) .unblock) (.setData ks)) .destroy := by
    have : pre ++ [Op.create, Op.unblock, Op.setData ks, Op.destroy] =
        (pre ++ [Op.create, Op.unblock, Op.setData ks]) ++ [Op.destroy] := by simp
    rw [this, run_snoc, e3]
  rw [e1, e2, e3, e4]
  simp [step_file, step_alive, step_blocked, hpre, hb, hf]

/-! ### 4. `inst_fresh`: every effective `create` draws a new token identity -/

theorem create_increments (s : St) (h : s.alive = false) : (step s .create).inst = s.inst + 1 := by
  simp [step_inst, h]

theorem inst_only_create (s : St) {op : Op} (h : op ≠ Op.create) : (step s op).inst = s.inst := by
  rw [step_inst]; cases op <;> simp_all

theorem inst_mono_step (s : St) (op : Op) : s.inst ≤ (step s op).inst := by
  rw [step_inst]; cases op <;> simp; split <;> omega

theorem inst_mono_foldl (s : St) (ops : List Op) : s.inst ≤ (ops.foldl step s).inst := by
  induction ops generalizing s with
  | nil => exact Nat.le_refl _
  | cons op ops ih => exact Nat.le_trans (inst_mono_step s op) (ih _)

theorem inst_mono_run (a c : List Op) : (run a).inst ≤ (run (a ++ c)).inst := by
  rw [run_append]; exact inst_mono_foldl _ _

/-- two instances created one after the other (both `create`s take effect) have different token
    identities; hence `TokVal.previous` never denotes the current token (`previous_refused`).
    Distinctness of the actual UUID strings is QUuid's property and stays an assumption. -/
theorem inst_fresh (a c : List Op) (h1 : (run a).alive = false)
    (h2 : (run (a ++ Op.create :: c)).alive = false) :
    (run (a ++ [Op.create])).inst < (run (a ++ Op.create :: c ++ [Op.create])).inst := by
  have e1 : (run (a ++ [Op.create])).inst = (run a).inst + 1 := by
    rw [run_snoc]; exact create_increments _ h1
  have e2 : (run (a ++ Op.create :: c ++ [Op.create])).inst = (run (a ++ Op.create :: c)).inst + 1 := by
    rw [run_snoc]; exact create_increments _ h2
  have e3 : (run (a ++ [Op.create])).inst ≤ (run (a ++ Op.create :: c)).inst := by
    have := inst_mono_run (a ++ [Op.create]) c
    simpa using this
  omega

/-! ### 6. non-vacuity: a concrete history evaluated in the kernel -/

def HX_MY : Bytes := lit ['X','-','M','y']
def hx_my : Bytes := lit ['x','-','m','y']
def PORT : Bytes := lit ['p','o','r','t']

/-- umask 000, pre 666, create, setData [port], setHeaderName X-My, req (X-My, exact),
    req (X-Auth-Token, exact), req (x-my, upper), destroy -/
def demoOps : List Op :=
  [.umask 0o000, .pre 0o666, .create, .setData [PORT], .setHeaderName HX_MY,
   .req (some (HX_MY, .exact)), .req (some (DEFHDR, .exact)), .req (some (hx_my, .upper)), .destroy]

def liveSnap : Obs :=
  Obs.misc 10 ([1, 6, 0, 0, 1] ++ lit ['p','o','r','t',',','t','o','k','e','n'])

example : (run demoOps).log =
    [ Obs.misc 10 [],                                            -- umask: no file yet
      Obs.misc 10 ([1, 6, 6, 6, 0] ++ lit ['j','u','n','k']),    -- pre: foreign file, mode 666
      Obs.misc 10 ([1, 6, 0, 0, 1] ++ lit ['t','o','k','e','n']),-- create: 0600, token advertised
      liveSnap,                                                  -- setData [port]
      liveSnap,                                                  -- setHeaderName
      Obs.misc 11 [1], liveSnap,                                 -- right name, exact token
      Obs.misc 11 [0], liveSnap,                                 -- exact token under the old name
      Obs.misc 11 [0], liveSnap,                                 -- right name (other case), upper-cased token
      Obs.misc 10 [] ] := by decide                      -- destroy: file gone

example : C17.holds demoOps (run demoOps).log = true := by decide

/-- the predicate is not vacuous: it rejects a log claiming the old header name was admitted -/
example : C17.holds demoOps
    ((run demoOps).log.set 7 (Obs.misc 11 [1])) = false := by decide

/-- ... and one where the file had mode 0644 after `setData` -/
example : C17.holds demoOps
    ((run demoOps).log.set 3 (Obs.misc 10 ([1, 6, 4, 4, 1] ++ lit ['p','o','r','t',',','t','o','k','e','n']))) = false := by
  decide

/-- ... and one where the file survived `destroy` -/
example : C17.holds demoOps ((run demoOps).log.set 11 liveSnap) = false := by decide

/-- degenerate histories (`req` before `create`, `pre` while alive, double `create`, `destroy`
    twice) are covered by `holds_run` as well; a concrete one -/
example : C17.holds [.req none, .destroy, .create, .pre 0o777, .create, .req none, .destroy, .destroy]
    (run [.req none, .destroy, .create, .pre 0o777, .create, .req none, .destroy, .destroy]).log = true := by
  decide

/-! the fault path: `LocalFile::open()` fails at construction -/

/-- block, create (nothing published), unblock, setData [port] (published), destroy (removed) -/
def faultOps : List Op := [.block, .create, .unblock, .setData [PORT], .destroy]

/-- block, create, setData (still nothing), unblock, setData [port], req, destroy, block, create -/
def faultOps2 : List Op :=
  [.block, .create, .setData [], .req (some (DEFHDR, .exact)), .unblock, .setData [PORT],
   .req (some (DEFHDR, .exact)), .destroy, .block, .create, .destroy, .unblock]

example : (run faultOps).log =
    [ Obs.misc 10 [],     -- block: a directory, not the advertised file
      Obs.misc 10 [],     -- create: open fails, nothing written
      Obs.misc 10 [],     -- unblock: nothing there yet
      liveSnap,           -- setData [port]: token + data published, 0600
      Obs.misc 10 [] ] := by decide   -- destroy: removed although the open at construction failed

example : C17.holds faultOps (run faultOps).log = true := by decide
example : C17.holds faultOps2 (run faultOps2).log = true := by decide

/-- the hypotheses of `removed_after_destroy_blocked` / `published_then_removed` are satisfiable -/
example : (run [Op.block]).alive = false ∧ (run [Op.block]).blocked = true := by decide

/-- the predicate rejects a log in which the file survives `destroy` on the fault path (the
    destructor removing the file only when the open at construction succeeded) -/
example : C17.holds faultOps ((run faultOps).log.set 4 liveSnap) = false := by decide

/-- ... one in which the first successful update after the obstacle went away does not publish -/
example : C17.holds faultOps ((run faultOps).log.set 3 (Obs.misc 10 [])) = false := by decide

/-- ... one in which the data of the blocked `setData` were lost (only the token written) -/
example : C17.holds [.block, .create, .setData [PORT], .unblock, .setData [PORT], .destroy]
    [Obs.misc 10 [], Obs.misc 10 [], Obs.misc 10 [], Obs.misc 10 [],
     Obs.misc 10 ([1, 6, 0, 0, 1] ++ lit ['t','o','k','e','n']), Obs.misc 10 []] = false := by decide

/-- ... one that reports the directory as the advertised file -/
example : C17.holds faultOps ((run faultOps).log.set 1 (Obs.misc 10 ([1, 7, 5, 5, 0]))) = false := by decide

/-- ... and one in which a request with the right token is refused while the name is blocked -/
example : C17.holds [.block, .create, .req (some (DEFHDR, .exact))]
    [Obs.misc 10 [], Obs.misc 10 [], Obs.misc 11 [0], Obs.misc 10 []] = false := by decide
example : C17.holds [.block, .create, .req (some (DEFHDR, .exact))]
    [Obs.misc 10 [], Obs.misc 10 [], Obs.misc 11 [1], Obs.misc 10 []] = true := by decide

/-- `block` on an occupied name and `unblock` without obstacle are no-ops -/
example : (run [.create, .block]).blocked = false ∧ (run [.pre 0o644, .block]).blocked = false ∧
    (run [.unblock]).blocked = false ∧ (run [.block, .destroy]).blocked = true ∧
    (run [.block, .create, .destroy]).blocked = true := by decide

example : (ghost faultOps) = { alive := false, hdr := DEFHDR, data := [PORT], removed := true, blocked := false, present := false } := by
  decide

example : (ghost demoOps) = { alive := false, hdr := HX_MY, data := [PORT], removed := true, blocked := false, present := false } := by
  decide

example : (run (demoOps ++ [.create])).inst = 2 := by decide

end Qhttp.C17
