import Qhttp.Model.LocalAuth
import Qhttp.Lemmas.C17Keys
import Qhttp.Lemmas.C17Auth
/-
  C17 — local token authentication: the token is always advertised, only it is accepted.
-/
namespace Qhttp.C17
open Qhttp LocalAuth

/-- walk the observation list against the operations: after every operation between `create` and
    `destroy` the file exists with mode 0600 and holds the data keys plus a `token` member equal to
    the current token; a request is admitted iff the configured header carries exactly the token;
    after `destroy` the file is gone -/
def walk : List Op → (alive : Bool) → (hdrName : Bytes) → (keys : List Bytes) → List Obs → Bool
  | [], _, _, _, obs => obs.isEmpty
  | op :: ops, alive, hdrName, keys, obs =>
    let alive' := match op with | .create => true | .destroy => false | _ => alive
    let hdr' := match op with
      | .setHeaderName n => if alive then n else hdrName
      | .create => if alive then hdrName else lit ['X','-','A','u','t','h','-','T','o','k','e','n']
      | _ => hdrName
    let keys' := match op with
      | .setData ks => if alive then sortKeys (TOKEN :: ks) else keys
      | .create => if alive then keys else [TOKEN]
      | _ => keys
    -- a request first yields its verdict
    let (okReq, obs) :=
      match op, obs with
      | .req hdr, .misc 11 [v] :: rest =>
        if alive then
          (v == (match hdr with | some (n, tv) => if lower n == lower hdrName && tv == TokVal.exact then (1 : UInt8) else 0 | none => (0 : UInt8)), rest)
        else (false, rest)
      | .req _, o => (!alive, o)
      | _, o => (true, o)
    match obs with
    | .misc 10 d :: rest =>
      okReq &&
      (if alive' then
         (match d with
          | 1 :: 6 :: 0 :: 0 :: 1 :: ks => ks == joinWith [44] keys'
          | _ => false)
       else
         -- before the first instance and after destruction nothing is claimed about a foreign
         -- file except that destruction removes the advertised one
         (match op with | .destroy => d == [] || !alive | _ => true)) &&
      walk ops alive' hdr' keys' rest
    | _ => false

def holds (ops : List Op) (obs : List Obs) : Bool := walk ops false [] [] obs


/-! ## Theorems (proof agent C17)

  Everything below is about the FROZEN model `LocalAuth` and the FROZEN predicate `holds`.
  Helper lemmas: `Qhttp/Lemmas/C17Keys.lean` (`sortKeys`), `Qhttp/Lemmas/C17Auth.lean`
  (projections of `step`, the invariant `LInv`, the history specification `Ghost`/`ghost`).
  Nothing is assumed about the operation sequence: every theorem quantifies over ALL `List Op`
  (any interleaving of umask / pre / create / setData / setHeaderName / req / destroy, any umask
  value, any mode of a pre-existing file).  -/
open Qhttp.C17L

/-! ### `C17.walk` is simulated by `step` -/

/-- the body of `C17.walk` on a non-empty operation list (Lean cannot generate equation lemmas
    for `walk`, so it is unfolded through this copy, equal by `rfl`) -/
def walkBody (op : Op) (ops : List Op) (alive : Bool) (hdrName : Bytes) (keys : List Bytes) (obs : List Obs) : Bool :=
    let alive' := match op with | .create => true | .destroy => false | _ => alive
    let hdr' := match op with
      | .setHeaderName n => if alive then n else hdrName
      | .create => if alive then hdrName else lit ['X','-','A','u','t','h','-','T','o','k','e','n']
      | _ => hdrName
    let keys' := match op with
      | .setData ks => if alive then sortKeys (TOKEN :: ks) else keys
      | .create => if alive then keys else [TOKEN]
      | _ => keys
    let (okReq, obs) :=
      match op, obs with
      | .req hdr, .misc 11 [v] :: rest =>
        if alive then
          (v == (match hdr with | some (n, tv) => if lower n == lower hdrName && tv == TokVal.exact then (1 : UInt8) else 0 | none => (0 : UInt8)), rest)
        else (false, rest)
      | .req _, o => (!alive, o)
      | _, o => (true, o)
    match obs with
    | .misc 10 d :: rest =>
      okReq &&
      (if alive' then
         (match d with
          | 1 :: 6 :: 0 :: 0 :: 1 :: ks => ks == joinWith [44] keys'
          | _ => false)
       else
         (match op with | .destroy => d == [] || !alive | _ => true)) &&
      C17.walk ops alive' hdr' keys' rest
    | _ => false

theorem walk_cons (op : Op) (ops : List Op) (a : Bool) (h : Bytes) (k : List Bytes) (obs : List Obs) :
    C17.walk (op :: ops) a h k obs = walkBody op ops a h k obs := rfl

theorem walk_nil (a : Bool) (h : Bytes) (k : List Bytes) (obs : List Obs) :
    C17.walk [] a h k obs = obs.isEmpty := rfl

/-- relation between the model state and the three accumulators of `C17.walk` -/
def Rel (s : St) (a : Bool) (h : Bytes) (k : List Bytes) : Prop :=
  a = s.alive ∧ (s.alive = true → h = s.hdrName ∧ s.file = some (goodFile k))

theorem walk_step (s : St) (op : Op) (a : Bool) (h : Bytes) (k : List Bytes) (hR : Rel s a h k) :
    ∃ a' h' k', Rel (step s op) a' h' k' ∧
      ∀ ops rest, C17.walk (op :: ops) a h k (verdictOut s op ++ [snap (step s op)] ++ rest)
        = C17.walk ops a' h' k' rest := by
  obtain ⟨ha, hR⟩ := hR
  subst ha
  cases hal : s.alive with
  | false =>
    obtain ⟨d, hd⟩ := snap_misc (step s op)
    cases op with
    | create =>
      refine ⟨true, DEFHDR, [TOKEN], ⟨by simp [step_alive], fun _ => ⟨by simp [step_hdrName, hal], by simp [step_file, hal]⟩⟩, ?_⟩
      intro ops rest
      have hs := snap_good (step s .create) [TOKEN] (by simp [step_file, hal])
      rw [hs]
      rw [walk_cons]; unfold walkBody; simp [verdictOut, DEFHDR]
    | req hdr =>
      refine ⟨false, h, k, ⟨by simp [step_alive, hal], by simp [step_alive, hal]⟩, ?_⟩
      intro ops rest
      rw [hd]; rw [walk_cons]; unfold walkBody; simp [verdictOut, hal]
    | destroy =>
      refine ⟨false, h, k, ⟨by simp [step_alive], by simp [step_alive]⟩, ?_⟩
      intro ops rest
      rw [hd]; rw [walk_cons]; unfold walkBody; simp [verdictOut]
    | umask m =>
      refine ⟨false, h, k, ⟨by simp [step_alive, hal], by simp [step_alive, hal]⟩, ?_⟩
      intro ops rest
      rw [hd]; rw [walk_cons]; unfold walkBody; simp [verdictOut]
    | pre m =>
      refine ⟨false, h, k, ⟨by simp [step_alive, hal], by simp [step_alive, hal]⟩, ?_⟩
      intro ops rest
      rw [hd]; rw [walk_cons]; unfold walkBody; simp [verdictOut]
    | setData ks =>
      refine ⟨false, h, k, ⟨by simp [step_alive, hal], by simp [step_alive, hal]⟩, ?_⟩
      intro ops rest
      rw [hd]; rw [walk_cons]; unfold walkBody; simp [verdictOut]
    | setHeaderName n =>
      refine ⟨false, h, k, ⟨by simp [step_alive, hal], by simp [step_alive, hal]⟩, ?_⟩
      intro ops rest
      rw [hd]; rw [walk_cons]; unfold walkBody; simp [verdictOut]
  | true =>
    obtain ⟨hh, hf⟩ := hR hal
    subst hh
    cases op with
    | create =>
      refine ⟨true, s.hdrName, k, ⟨by simp [step_alive], fun _ => ⟨by simp [step_hdrName, hal], by simp [step_file, hal, hf]⟩⟩, ?_⟩
      intro ops rest
      rw [snap_good (step s .create) k (by simp [step_file, hal, hf])]
      rw [walk_cons]; unfold walkBody; simp [verdictOut]
    | req hdr =>
      refine ⟨true, s.hdrName, k, ⟨by simp [step_alive, hal], fun _ => ⟨by simp [step_hdrName], by simp [step_file, hf]⟩⟩, ?_⟩
      intro ops rest
      rw [snap_good (step s (.req hdr)) k (by simp [step_file, hf])]
      cases hdr with
      | none => rw [walk_cons]; unfold walkBody; simp [verdictOut, hal, admits]
      | some p =>
        obtain ⟨n, tv⟩ := p
        rw [walk_cons]; unfold walkBody; simp [verdictOut, hal, admits]
    | destroy =>
      refine ⟨false, s.hdrName, k, ⟨by simp [step_alive], by simp [step_alive]⟩, ?_⟩
      intro ops rest
      rw [snap_none (step s .destroy) (by simp [step_file, hal])]
      rw [walk_cons]; unfold walkBody; simp [verdictOut]
    | umask m =>
      refine ⟨true, s.hdrName, k, ⟨by simp [step_alive, hal], fun _ => ⟨by simp [step_hdrName], by simp [step_file, hf]⟩⟩, ?_⟩
      intro ops rest
      rw [snap_good (step s (.umask m)) k (by simp [step_file, hf])]
      rw [walk_cons]; unfold walkBody; simp [verdictOut]
    | pre m =>
      refine ⟨true, s.hdrName, k, ⟨by simp [step_alive, hal], fun _ => ⟨by simp [step_hdrName], by simp [step_file, hf, hal]⟩⟩, ?_⟩
      intro ops rest
      rw [snap_good (step s (.pre m)) k (by simp [step_file, hf, hal])]
      rw [walk_cons]; unfold walkBody; simp [verdictOut]
    | setData ks =>
      refine ⟨true, s.hdrName, sortKeys (TOKEN :: ks), ⟨by simp [step_alive, hal], fun _ => ⟨by simp [step_hdrName], by simp [step_file, hal]⟩⟩, ?_⟩
      intro ops rest
      rw [snap_good (step s (.setData ks)) (sortKeys (TOKEN :: ks)) (by simp [step_file, hal])]
      rw [walk_cons]; unfold walkBody; simp [verdictOut]
    | setHeaderName n =>
      refine ⟨true, n, k, ⟨by simp [step_alive, hal], fun _ => ⟨by simp [step_hdrName, hal], by simp [step_file, hf]⟩⟩, ?_⟩
      intro ops rest
      rw [snap_good (step s (.setHeaderName n)) k (by simp [step_file, hf])]
      rw [walk_cons]; unfold walkBody; simp [verdictOut]

theorem walk_emit (ops : List Op) (s : St) (a : Bool) (h : Bytes) (k : List Bytes) (hR : Rel s a h k) :
    C17.walk ops a h k (emit s ops) = true := by
  induction ops generalizing s a h k with
  | nil => simp [walk_nil, emit]
  | cons op ops ih =>
    obtain ⟨a', h', k', hR', hw⟩ := walk_step s op a h k hR
    rw [emit, hw ops (emit (step s op) ops)]
    exact ih _ _ _ _ hR'


/-! ### 5. the main theorem: the driver's predicate holds on every run of the model -/

/-- `holds` is true on the log of EVERY operation sequence; no well-formedness hypothesis is
    needed (`pre` while alive, `req` before `create`, double `create`, `destroy` without
    instance, ... are all no-ops of the model that `walk` treats the same way). -/
theorem holds_run (ops : List Op) : C17.holds ops (LocalAuth.run ops).log = true := by
  rw [run_log]
  exact walk_emit ops {} false [] [] ⟨rfl, by intro h; cases h⟩

/-- the same from any state related to the accumulators of `walk` (e.g. mid-run) -/
theorem walk_from (s : St) (ops : List Op) (a : Bool) (h : Bytes) (k : List Bytes) (hR : Rel s a h k) :
    ∃ out, (ops.foldl step s).log = s.log ++ out ∧ walk ops a h k out = true :=
  ⟨emit s ops, foldl_log s ops, walk_emit ops s a h k hR⟩

/-! ### 1. `file_inv`: the advertised file while an instance is alive -/

theorem LInv_init' : LInv {} := LInv_init

theorem LInv_step' {s : St} (h : LInv s) (op : Op) : LInv (step s op) := LInv_step h op

/-- after every operation of every run (each prefix of a run is a run): if an instance is alive,
    the file exists with mode 0600, a `token` member, and keys `sortKeys (TOKEN :: ks)` -/
theorem LInv_run (ops : List Op) : LInv (run ops) := LInv_foldl LInv_init ops

/-- `file_inv`, history form: the keys are `token` plus the keys of the last `setData` since the
    last effective `create` (`(ghost ops).data`, `[]` if none), whatever umask / pre-existing file -/
theorem file_inv (ops : List Op) (h : (run ops).alive = true) :
    (run ops).file =
      some { mode := 0o600, keys := sortKeys (TOKEN :: (ghost ops).data), hasToken := true } := by
  have ag := Agree_run ops
  exact ag.file (ag.alive ▸ h)

/-- `file_inv`, explicit form: `pre` leaves no instance alive, then `create`, then any operations
    except `destroy` (further `create`/`pre` are no-ops) -/
theorem file_inv_since_create (pre post : List Op) (hpre : (run pre).alive = false)
    (hpost : ∀ op ∈ post, op ≠ Op.destroy) :
    (run (pre ++ Op.create :: post)).alive = true ∧
    (run (pre ++ Op.create :: post)).file =
      some { mode := 0o600, keys := sortKeys (TOKEN :: lastData [] post), hasToken := true } ∧
    (run (pre ++ Op.create :: post)).hdrName = lastHdr DEFHDR post := by
  have ag := Agree_run (pre ++ Op.create :: post)
  have agp := Agree_run pre
  have hg : ghost (pre ++ Op.create :: post) =
      { alive := true, hdr := lastHdr DEFHDR post, data := lastData [] post, removed := false } := by
    have h1 : (ghost pre).alive = false := agp.alive ▸ hpre
    have h2 : gstep (ghost pre) Op.create = { alive := true, hdr := DEFHDR, data := [], removed := false } := by
      simp [gstep, h1]
    simp only [ghost, List.foldl_append, List.foldl_cons]
    have := gstep_alive_tail (gstep (List.foldl gstep {} pre) Op.create) (by rw [show List.foldl gstep {} pre = ghost pre from rfl, h2]) post hpost
    rw [this, show List.foldl gstep {} pre = ghost pre from rfl, h2]
  have ha : (ghost (pre ++ Op.create :: post)).alive = true := by rw [hg]
  refine ⟨ag.alive.trans ha, ?_, ?_⟩
  · have := ag.file ha; rw [hg] at this; exact this
  · have := ag.hdr ha; rw [hg] at this; exact this

/-- the key list of the file is strictly increasing (so duplicate-free), contains `token`, and
    besides `token` exactly the application's keys -/
theorem file_keys (ops : List Op) (h : (run ops).alive = true) :
    ∃ f, (run ops).file = some f ∧ f.mode = 0o600 ∧ f.hasToken = true ∧
      Sorted f.keys ∧ f.keys.Nodup ∧ ∀ k, k ∈ f.keys ↔ k = TOKEN ∨ k ∈ (ghost ops).data := by
  refine ⟨_, file_inv ops h, rfl, rfl, sortKeys_sorted _, sortKeys_nodup _, ?_⟩
  intro k; simp [mem_sortKeys]

/-- every operation appends (a verdict, for a request on a live instance, and) one snapshot -/
theorem log_snoc (ops : List Op) (op : Op) :
    (run (ops ++ [op])).log = (run ops).log ++ verdictOut (run ops) op ++ [snap (run (ops ++ [op]))] := by
  rw [run_snoc, step_log]

/-- snapshot form of `file_inv`: the snapshot of a state with a live instance -/
theorem snap_alive (ops : List Op) (h : (run ops).alive = true) :
    snap (run ops) =
      Obs.misc 10 (1 :: 6 :: 0 :: 0 :: 1 :: joinWith [44] (sortKeys (TOKEN :: (ghost ops).data))) :=
  snap_good _ _ (file_inv ops h)

/-- every `.misc 10 d` logged while alive has the shape `1 :: 6 :: 0 :: 0 :: 1 :: keys`: the log
    of a run split at an arbitrary operation `op` after which an instance is alive -/
theorem snapshot_shape (pre : List Op) (op : Op) (post : List Op)
    (h : (run (pre ++ [op])).alive = true) :
    (run (pre ++ op :: post)).log =
      (run pre).log ++ verdictOut (run pre) op ++
      [Obs.misc 10 (1 :: 6 :: 0 :: 0 :: 1 :: joinWith [44] (sortKeys (TOKEN :: (ghost (pre ++ [op])).data)))] ++
      emit (run (pre ++ [op])) post := by
  have : pre ++ op :: post = (pre ++ [op]) ++ post := by simp
  rw [this, run_append, foldl_log, log_snoc, snap_alive _ h]

/-! ### 2. `admit_iff`: only the exact token under the configured header is admitted -/

/-- for every state (reachable or not): admitted iff the header whose name equals the configured
    one up to ASCII/Latin-1 case carries exactly the current token -/
theorem admit_iff (s : St) (hdr : Option (Bytes × TokVal)) :
    admits s hdr = true ↔ ∃ n, hdr = some (n, TokVal.exact) ∧ lower n = lower s.hdrName := by
  cases hdr with
  | none => simp [admits]
  | some p =>
    obtain ⟨n, v⟩ := p
    simp only [admits, Bool.and_eq_true, beq_iff_eq, Option.some.injEq, Prod.mk.injEq]
    constructor
    · rintro ⟨h1, h2⟩; exact ⟨n, ⟨rfl, h2⟩, h1⟩
    · rintro ⟨m, ⟨h1, h2⟩, h3⟩; subst h1; exact ⟨h3, h2⟩

theorem missing_header_refused (s : St) : admits s none = false := rfl

/-- upper-cased, truncated, braces stripped, NUL suffix, BOM prefix, a previous instance's token,
    any other bytes: refused under every header name -/
theorem wrong_value_refused (s : St) (n : Bytes) {v : TokVal} (hv : v ≠ TokVal.exact) :
    admits s (some (n, v)) = false := by
  simp [admits, hv]

theorem upper_refused (s : St) (n : Bytes) : admits s (some (n, .upper)) = false := by simp [admits]
theorem dropLast_refused (s : St) (n : Bytes) : admits s (some (n, .dropLast)) = false := by simp [admits]
theorem braceless_refused (s : St) (n : Bytes) : admits s (some (n, .braceless)) = false := by simp [admits]
theorem nulSuffix_refused (s : St) (n : Bytes) : admits s (some (n, .nulSuffix)) = false := by simp [admits]
theorem bomPrefix_refused (s : St) (n : Bytes) : admits s (some (n, .bomPrefix)) = false := by simp [admits]
/-- the token of an earlier instance is refused.  (That the earlier instance's UUID string really
    differs from the current one is QUuid's property: an ASSUMPTION of the model, observed by the
    harness, not proved here; the model identifies a token with its instance number `inst`.) -/
theorem previous_refused (s : St) (n : Bytes) : admits s (some (n, .previous)) = false := by simp [admits]
theorem other_refused (s : St) (n b : Bytes) : admits s (some (n, .other b)) = false := by simp [admits]

/-- the right token under a different header name is refused -/
theorem wrong_name_refused (s : St) (n : Bytes) (v : TokVal) (hn : lower n ≠ lower s.hdrName) :
    admits s (some (n, v)) = false := by
  simp [admits, hn]

theorem right_header_admitted (s : St) (n : Bytes) (hn : lower n = lower s.hdrName) :
    admits s (some (n, .exact)) = true := by
  simp [admits, hn]

/-- the configured header name is the argument of the last `setHeaderName` since the last
    effective `create` (`X-Auth-Token` if none) -/
theorem hdrName_spec (ops : List Op) (h : (run ops).alive = true) :
    (run ops).hdrName = (ghost ops).hdr := by
  have ag := Agree_run ops
  exact ag.hdr (ag.alive ▸ h)

/-- `admit_iff` on reachable states, in terms of the API history -/
theorem admit_iff_run (ops : List Op) (h : (run ops).alive = true) (hdr : Option (Bytes × TokVal)) :
    admits (run ops) hdr = true ↔ ∃ n, hdr = some (n, TokVal.exact) ∧ lower n = lower (ghost ops).hdr := by
  rw [admit_iff, hdrName_spec ops h]

/-- what a request on a live instance logs: its verdict, then the (unchanged) snapshot -/
theorem req_logged (ops : List Op) (h : (run ops).alive = true) (hdr : Option (Bytes × TokVal)) :
    (run (ops ++ [Op.req hdr])).log =
      (run ops).log ++ [Obs.misc 11 [if admits (run ops) hdr then 1 else 0], snap (run ops)] := by
  rw [log_snoc]
  have : snap (run (ops ++ [Op.req hdr])) = snap (run ops) := by
    simp [snap, run_snoc, step_file]
  simp [verdictOut, h, this]

/-- a request changes nothing but the log -/
theorem req_pure (s : St) (hdr : Option (Bytes × TokVal)) :
    (step s (.req hdr)).alive = s.alive ∧ (step s (.req hdr)).file = s.file ∧
    (step s (.req hdr)).hdrName = s.hdrName ∧ (step s (.req hdr)).inst = s.inst := by
  simp [step_alive, step_file, step_hdrName, step_inst]

/-! ### 3. `removed`: destruction removes the advertised file -/

theorem destroy_dead (s : St) : (step s .destroy).alive = false := by simp [step_alive]

theorem destroy_removes (s : St) (h : s.alive = true) : (step s .destroy).file = none := by
  simp [step_file, h]

/-- history form: once an instance was destroyed and neither `create` nor `pre` took effect
    since, there is no file and no instance -/
theorem removed (ops : List Op) (h : (ghost ops).removed = true) :
    (run ops).file = none ∧ (run ops).alive = false := by
  have ag := Agree_run ops
  exact ⟨(ag.removed h).1, ag.alive.trans (ag.removed h).2⟩

/-- explicit form: destroy a live instance, then anything but `create` / `pre` -/
theorem removed_after_destroy (pre post : List Op) (hpre : (run pre).alive = true)
    (hpost : ∀ op ∈ post, op ≠ Op.create ∧ ∀ m, op ≠ Op.pre m) :
    (run (pre ++ Op.destroy :: post)).file = none ∧
    (run (pre ++ Op.destroy :: post)).alive = false := by
  apply removed
  have agp := Agree_run pre
  have h1 : (ghost pre).alive = true := agp.alive ▸ hpre
  simp only [ghost, List.foldl_append, List.foldl_cons]
  have h2 : (gstep (List.foldl gstep {} pre) Op.destroy).alive = false ∧
            (gstep (List.foldl gstep {} pre) Op.destroy).removed = true := by
    rw [show List.foldl gstep {} pre = ghost pre from rfl]
    simp [gstep, h1]
  rw [gstep_dead_tail _ h2.1 post hpost]
  exact h2.2

/-! ### 4. `inst_fresh`: every effective `create` draws a new token identity -/

theorem create_increments (s : St) (h : s.alive = false) : (step s .create).inst = s.inst + 1 := by
  simp [step_inst, h]

theorem inst_only_create (s : St) {op : Op} (h : op ≠ Op.create) : (step s op).inst = s.inst := by
  rw [step_inst]; cases op <;> simp_all

theorem inst_mono_step (s : St) (op : Op) : s.inst ≤ (step s op).inst := by
  rw [step_inst]; cases op <;> simp; split <;> omega

theorem inst_mono_foldl (s : St) (ops : List Op) : s.inst ≤ (ops.foldl step s).inst := by
  induction ops generalizing s with
  | nil => exact Nat.le_refl _
  | cons op ops ih => exact Nat.le_trans (inst_mono_step s op) (ih _)

theorem inst_mono_run (a c : List Op) : (run a).inst ≤ (run (a ++ c)).inst := by
  rw [run_append]; exact inst_mono_foldl _ _

/-- two instances created one after the other (both `create`s take effect) have different token
    identities; hence `TokVal.previous` never denotes the current token (`previous_refused`).
    Distinctness of the actual UUID strings is QUuid's property and stays an assumption. -/
theorem inst_fresh (a c : List Op) (h1 : (run a).alive = false)
    (h2 : (run (a ++ Op.create :: c)).alive = false) :
    (run (a ++ [Op.create])).inst < (run (a ++ Op.create :: c ++ [Op.create])).inst := by
  have e1 : (run (a ++ [Op.create])).inst = (run a).inst + 1 := by
    rw [run_snoc]; exact create_increments _ h1
  have e2 : (run (a ++ Op.create :: c ++ [Op.create])).inst = (run (a ++ Op.create :: c)).inst + 1 := by
    rw [run_snoc]; exact create_increments _ h2
  have e3 : (run (a ++ [Op.create])).inst ≤ (run (a ++ Op.create :: c)).inst := by
    have := inst_mono_run (a ++ [Op.create]) c
    simpa using this
  omega

/-! ### 6. non-vacuity: a concrete history evaluated in the kernel -/

def HX_MY : Bytes := lit ['X','-','M','y']
def hx_my : Bytes := lit ['x','-','m','y']
def PORT : Bytes := lit ['p','o','r','t']

/-- umask 000, pre 666, create, setData [port], setHeaderName X-My, req (X-My, exact),
    req (X-Auth-Token, exact), req (x-my, upper), destroy -/
def demoOps : List Op :=
  [.umask 0o000, .pre 0o666, .create, .setData [PORT], .setHeaderName HX_MY,
   .req (some (HX_MY, .exact)), .req (some (DEFHDR, .exact)), .req (some (hx_my, .upper)), .destroy]

def liveSnap : Obs :=
  Obs.misc 10 ([1, 6, 0, 0, 1] ++ lit ['p','o','r','t',',','t','o','k','e','n'])

example : (run demoOps).log =
    [ Obs.misc 10 [],                                            -- umask: no file yet
      Obs.misc 10 ([1, 6, 6, 6, 0] ++ lit ['j','u','n','k']),    -- pre: foreign file, mode 666
      Obs.misc 10 ([1, 6, 0, 0, 1] ++ lit ['t','o','k','e','n']),-- create: 0600, token advertised
      liveSnap,                                                  -- setData [port]
      liveSnap,                                                  -- setHeaderName
      Obs.misc 11 [1], liveSnap,                                 -- right name, exact token
      Obs.misc 11 [0], liveSnap,                                 -- exact token under the old name
      Obs.misc 11 [0], liveSnap,                                 -- right name (other case), upper-cased token
      Obs.misc 10 [] ] := by decide                      -- destroy: file gone

example : C17.holds demoOps (run demoOps).log = true := by decide

/-- the predicate is not vacuous: it rejects a log claiming the old header name was admitted -/
example : C17.holds demoOps
    ((run demoOps).log.set 7 (Obs.misc 11 [1])) = false := by decide

/-- ... and one where the file had mode 0644 after `setData` -/
example : C17.holds demoOps
    ((run demoOps).log.set 3 (Obs.misc 10 ([1, 6, 4, 4, 1] ++ lit ['p','o','r','t',',','t','o','k','e','n']))) = false := by
  decide

/-- ... and one where the file survived `destroy` -/
example : C17.holds demoOps ((run demoOps).log.set 11 liveSnap) = false := by decide

/-- degenerate histories (`req` before `create`, `pre` while alive, double `create`, `destroy`
    twice) are covered by `holds_run` as well; a concrete one -/
example : C17.holds [.req none, .destroy, .create, .pre 0o777, .create, .req none, .destroy, .destroy]
    (run [.req none, .destroy, .create, .pre 0o777, .create, .req none, .destroy, .destroy]).log = true := by
  decide

example : (ghost demoOps) = { alive := false, hdr := HX_MY, data := [PORT], removed := true } := by
  decide

example : (run (demoOps ++ [.create])).inst = 2 := by decide

end Qhttp.C17
