import Qhttp.Model.BasicAuth
import Qhttp.Model.Http
import Qhttp.Props.C01
/-
  C09 — basic authentication admits exactly the registered credentials.
-/
namespace Qhttp.C09
open Qhttp BasicAuth

structure AuthScn where
  table : List (Bytes × Bytes)      -- registered (user, password), UTF-8
  realm : Bytes
  head  : Bytes                     -- the request head (bytes before the blank line)

def AuthScn.stream (sc : AuthScn) : Bytes := sc.head ++ CRLF2
def AuthScn.app (sc : AuthScn) : App := { onHp := fun s => ops sc.table sc.realm s }
def AuthScn.scenario (sc : AuthScn) : Scenario := { app := sc.app, events := [.new, .feed sc.stream, .turn] }

/-- the Authorization value the application is shown (C01): most recent header of that name -/
def authValue (env : Env) (sc : AuthScn) : Option Bytes :=
  (C01.expect env sc.head).map fun f => HeaderMap.value AUTHORIZATION f.headers

/-- the property's own reading of "admitted": `Basic` in any letter case, ONE space, a token
    without space that base64-decodes to `user:password` (cut at the first colon) where exactly
    that user is registered with exactly that password -/
def specAdmit (table : List (Bytes × Bytes)) (v : Bytes) : Bool :=
  match breakOn [SP] v with
  | none => false
  | some (s, tok) =>
    lower s == BASIC && !containsByte SP tok &&
    (match breakOn [COLON] (fromBase64 tok) with
     | some (u, p) => lookup table u == some p
     | none => false)

def admitted (obs : List Obs) : Bool := obs.any fun o => match o with | .pr _ _ => true | _ => false

/-- admitted iff the credentials are the registered ones; every refusal is one 401 carrying the
    challenge for the configured realm, closed, and nothing downstream runs -/
def holds (env : Env) (sc : AuthScn) (obs : List Obs) : Bool :=
  match authValue env sc with
  | none => !admitted obs                         -- request rejected (400): never routed
  | some v =>
    if specAdmit sc.table v then admitted obs
    else
      !admitted obs &&
      (match Http.parse (Obs.wire obs) with
       | some m =>
         (Http.statusLine m.start).map (·.code) == some 401 &&
         Http.valuesOf WWW_AUTH m.headers == [challenge sc.realm] &&
         Http.valuesOf Sock.CONTENT_LENGTH m.headers == [natDigits m.body.length]
       | none => false) &&
      obs.any Obs.isTc

end Qhttp.C09
