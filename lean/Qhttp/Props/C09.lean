import Qhttp.Model.BasicAuth
import Qhttp.Model.Http
import Qhttp.Props.C01
import Qhttp.Lemmas.C09Auth
import Qhttp.Lemmas.Base64
import Qhttp.Lemmas.C09Run
/-
  C09 — basic authentication admits exactly the registered credentials.
-/
namespace Qhttp.C09
open Qhttp BasicAuth

structure AuthScn where
  table : List (Bytes × Bytes)      -- registered (user, password), UTF-8
  realm : Bytes
  head  : Bytes                     -- the request head (bytes before the blank line)

def AuthScn.stream (sc : AuthScn) : Bytes := sc.head ++ CRLF2
def AuthScn.app (sc : AuthScn) : App := { onHp := fun s => ops sc.table sc.realm s }
def AuthScn.scenario (sc : AuthScn) : Scenario := { app := sc.app, events := [.new, .feed sc.stream, .turn] }

/-- the Authorization value the application is shown (C01): most recent header of that name -/
def authValue (env : Env) (sc : AuthScn) : Option Bytes :=
  (C01.expect env sc.head).map fun f => HeaderMap.value AUTHORIZATION f.headers

/-- the property's own reading of "admitted": `Basic` in any letter case, ONE space, a token
    without space that base64-decodes to `user:password` (cut at the first colon) where exactly
    that user is registered with exactly that password -/
def specAdmit (table : List (Bytes × Bytes)) (v : Bytes) : Bool :=
  match breakOn [SP] v with
  | none => false
  | some (s, tok) =>
    lower s == BASIC && !containsByte SP tok &&
    (match breakOn [COLON] (fromBase64 tok) with
     | some (u, p) => lookup table u == some p
     | none => false)

def admitted (obs : List Obs) : Bool := obs.any fun o => match o with | .pr _ _ => true | _ => false

/-- admitted iff the credentials are the registered ones; every refusal is one 401 carrying the
    challenge for the configured realm, closed, and nothing downstream runs -/
def holds (env : Env) (sc : AuthScn) (obs : List Obs) : Bool :=
  match authValue env sc with
  | none => !admitted obs                         -- request rejected (400): never routed
  | some v =>
    if specAdmit sc.table v then admitted obs
    else
      !admitted obs &&
      (match Http.parse (Obs.wire obs) with
       | some m =>
         (Http.statusLine m.start).map (·.code) == some 401 &&
         Http.valuesOf WWW_AUTH m.headers == [challenge sc.realm] &&
         Http.valuesOf Sock.CONTENT_LENGTH m.headers == [natDigits m.body.length]
       | none => false) &&
      obs.any Obs.isTc

end Qhttp.C09

/-! ## Theorems (proof agent proofC09) -/
namespace Qhttp.C09
open Qhttp BasicAuth

theorem SP_singleton : ([SP] : Bytes) = [32] := rfl
theorem COLON_ne_nil : ([COLON] : Bytes) ≠ [] := by simp

/-- **the middleware admits exactly what the property says**: `BasicAuthMiddleware::process`'s
    way of taking the header apart (`split(' ')`, two parts, `Parser::split(":", 1)`) and the
    property's reading (cut at the first space, no further space, cut at the first colon) agree
    on every table and every header value -/
theorem verdict_eq_spec (table : List (Bytes × Bytes)) (v : Bytes) :
    BasicAuth.verdict table v = C09.specAdmit table v := by
  unfold verdict specAdmit
  rw [SP_singleton]
  rcases splitChar_cases 32 v with ⟨hb, hs⟩ | ⟨a, r, hb, hm, hs⟩ | ⟨a, r, x, y, l, hb, hm, hs⟩
  · rw [hs, hb]
  · rw [hs, hb]
    simp only
    rw [show containsByte SP r = false from containsByte_eq_false_iff.2 hm, split_one_eq COLON_ne_nil]
    cases breakOn [COLON] (fromBase64 r) <;> simp
  · rw [hs, hb]
    simp only
    rw [show containsByte SP r = true from containsByte_iff.2 hm]
    simp

/-- the verdict for a header of the form `<scheme> SP <token>` without further spaces: decided by
    the first colon of the decoded token and the exact table lookup -/
theorem verdict_shape (table : List (Bytes × Bytes)) {s tok : Bytes} (hs : SP ∉ s) (ht : SP ∉ tok) :
    verdict table (s ++ [SP] ++ tok) =
      (lower s == BASIC &&
        match breakOn [COLON] (fromBase64 tok) with
        | some (u, p) => lookup table u == some p
        | none => false) := by
  rw [verdict_eq_spec]
  unfold specAdmit
  rw [breakOn_singleton tok hs]
  simp only
  rw [show containsByte SP tok = false from containsByte_eq_false_iff.2 ht]
  simp

/-- … and when the decoded token is `u:q` with no colon in `u`: admitted iff `u` is registered
    with exactly `q` -/
theorem verdict_payload (table : List (Bytes × Bytes)) {s tok u q : Bytes} (hs : SP ∉ s)
    (hb : lower s = BASIC) (ht : SP ∉ tok) (hd : fromBase64 tok = u ++ [COLON] ++ q) (hu : COLON ∉ u) :
    verdict table (s ++ [SP] ++ tok) = (lookup table u == some q) := by
  rw [verdict_shape table hs ht, hd, breakOn_singleton q hu, hb]
  simp

/-- **admitted iff**: the header is `scheme SP token`, the scheme is `basic` in any letter case,
    there is no other space, the token decodes (Qt's lenient decoder) to `u:p` cut at the FIRST
    colon, and the table maps exactly `u` to exactly `p` -/
theorem admit_iff (table : List (Bytes × Bytes)) (v : Bytes) :
    verdict table v = true ↔
      ∃ s tok u p, v = s ++ [SP] ++ tok ∧ lower s = BASIC ∧ SP ∉ s ∧ SP ∉ tok ∧
        fromBase64 tok = u ++ [COLON] ++ p ∧ COLON ∉ u ∧ lookup table u = some p := by
  constructor
  · intro h
    rw [verdict_eq_spec] at h
    unfold specAdmit at h
    cases hb : breakOn [SP] v with
    | none => rw [hb] at h; cases h
    | some q =>
      obtain ⟨s, tok⟩ := q
      rw [hb] at h
      simp only [Bool.and_eq_true, Bool.not_eq_true', beq_iff_eq] at h
      obtain ⟨⟨h1, h2⟩, h3⟩ := h
      cases hc : breakOn [COLON] (fromBase64 tok) with
      | none => rw [hc] at h3; cases h3
      | some q =>
        obtain ⟨u, p⟩ := q
        rw [hc] at h3
        exact ⟨s, tok, u, p, breakOn_some hb, h1, breakOn_singleton_not_mem hb,
          containsByte_eq_false_iff.1 h2, breakOn_some hc, breakOn_singleton_not_mem hc,
          by simpa using h3⟩
  · rintro ⟨s, tok, u, p, rfl, h1, h2, h3, h4, h5, h6⟩
    rw [verdict_payload table h2 h1 h3 h4 h5, h6]
    simp

/-! ### valid credentials are always admissible -/

theorem BASIC_SP_eq : lit ['B','a','s','i','c',' '] = lit ['B','a','s','i','c'] ++ [SP] := by decide

/-- the standard encoding of `user:password` after `Basic ` is admitted whenever that pair is
    what the table holds for the user (user names cannot contain ':' — RFC 7617) -/
theorem valid_admitted (table : List (Bytes × Bytes)) {u p : Bytes} (hu : COLON ∉ u)
    (hl : lookup table u = some p) :
    verdict table (lit ['B','a','s','i','c',' '] ++ b64encode (u ++ [COLON] ++ p)) = true := by
  rw [BASIC_SP_eq, verdict_payload table (s := lit ['B','a','s','i','c']) (u := u) (q := p)
    (by decide) (by decide) (SP_not_mem_b64encode _) (b64_roundtrip _) hu, hl]
  simp

/-- any letter case of the scheme -/
theorem valid_admitted_anycase (table : List (Bytes × Bytes)) {s u p : Bytes} (hs : lower s = BASIC)
    (hu : COLON ∉ u) (hl : lookup table u = some p) :
    verdict table (s ++ [SP] ++ b64encode (u ++ [COLON] ++ p)) = true := by
  have hsp : SP ∉ s := by
    intro hm
    have : lower8 SP ∈ lower s := List.mem_map.2 ⟨SP, hm, rfl⟩
    rw [hs] at this
    revert this; decide
  rw [verdict_payload table hsp hs (SP_not_mem_b64encode _) (b64_roundtrip _) hu, hl]
  simp

/-! ### near misses are refused (each for all inputs, then a concrete instance) -/

/-- a password different from the registered one is refused, whatever the difference -/
theorem wrong_password_refused (table : List (Bytes × Bytes)) {s tok u p q : Bytes} (hs : SP ∉ s)
    (ht : SP ∉ tok) (hd : fromBase64 tok = u ++ [COLON] ++ q) (hu : COLON ∉ u)
    (hl : lookup table u = some p) (hne : q ≠ p) :
    verdict table (s ++ [SP] ++ tok) = false := by
  rw [verdict_shape table hs ht, hd, breakOn_singleton q hu]
  simp only
  rw [hl]
  have : (some p == some q) = false := by simpa using fun h : p = q => hne h.symm
  simp [this]

/-- a proper prefix of the password is refused -/
theorem prefix_password_refused (table : List (Bytes × Bytes)) {u p : Bytes} (k : Nat)
    (hk : k < p.length) (hu : COLON ∉ u) (hl : lookup table u = some p) :
    verdict table (lit ['B','a','s','i','c',' '] ++ b64encode (u ++ [COLON] ++ p.take k)) = false := by
  rw [BASIC_SP_eq]
  refine wrong_password_refused table (by decide) (SP_not_mem_b64encode _) (b64_roundtrip _) hu hl ?_
  intro h
  have := congrArg List.length h
  rw [List.length_take] at this
  omega

/-- a password that is right only after case folding is refused -/
theorem case_changed_password_refused (table : List (Bytes × Bytes)) {u p q : Bytes}
    (hq : q ≠ p) (_hfold : lower q = lower p) (hu : COLON ∉ u) (hl : lookup table u = some p) :
    verdict table (lit ['B','a','s','i','c',' '] ++ b64encode (u ++ [COLON] ++ q)) = false := by
  rw [BASIC_SP_eq]
  exact wrong_password_refused table (by decide) (SP_not_mem_b64encode _) (b64_roundtrip _) hu hl hq

/-- the empty password is refused unless it is the registered one -/
theorem empty_password_refused (table : List (Bytes × Bytes)) {u p : Bytes} (hp : p ≠ [])
    (hu : COLON ∉ u) (hl : lookup table u = some p) :
    verdict table (lit ['B','a','s','i','c',' '] ++ b64encode (u ++ [COLON])) = false := by
  rw [BASIC_SP_eq]
  refine wrong_password_refused table (q := []) (by decide) (SP_not_mem_b64encode _) ?_ hu hl
    (fun h => hp h.symm)
  rw [List.append_nil]; exact b64_roundtrip _

/-- another registered user's password is refused -/
theorem other_users_password_refused (table : List (Bytes × Bytes)) {u p u' p' : Bytes}
    (hl : lookup table u = some p) (_hl' : lookup table u' = some p') (hne : p' ≠ p) (hu : COLON ∉ u) :
    verdict table (lit ['B','a','s','i','c',' '] ++ b64encode (u ++ [COLON] ++ p')) = false := by
  rw [BASIC_SP_eq]
  exact wrong_password_refused table (by decide) (SP_not_mem_b64encode _) (b64_roundtrip _) hu hl hne

/-- an unregistered user is refused with any password -/
theorem unknown_user_refused (table : List (Bytes × Bytes)) {s tok u q : Bytes} (hs : SP ∉ s)
    (ht : SP ∉ tok) (hd : fromBase64 tok = u ++ [COLON] ++ q) (hu : COLON ∉ u)
    (hl : lookup table u = none) :
    verdict table (s ++ [SP] ++ tok) = false := by
  rw [verdict_shape table hs ht, hd, breakOn_singleton q hu]
  simp only
  rw [hl]
  simp

/-- an admitted header value contains exactly one space -/
theorem admitted_one_space {table : List (Bytes × Bytes)} {v : Bytes} (h : verdict table v = true) :
    v.count SP = 1 := by
  obtain ⟨s, tok, u, p, rfl, _, hs, ht, _⟩ := (admit_iff _ _).1 h
  simp [List.count_append, List.count_eq_zero.2 hs, List.count_eq_zero.2 ht]

/-- two (or more) spaces: refused, whatever surrounds them -/
theorem two_spaces_refused (table : List (Bytes × Bytes)) (a b c : Bytes) :
    verdict table (a ++ [SP] ++ b ++ [SP] ++ c) = false := by
  cases h : verdict table (a ++ [SP] ++ b ++ [SP] ++ c) with
  | false => rfl
  | true =>
    have := admitted_one_space h
    simp only [List.count_append, List.count_singleton_self] at this
    omega

/-- no space at all (in particular the empty value, i.e. no Authorization header): refused -/
theorem no_space_refused (table : List (Bytes × Bytes)) {v : Bytes} (h : SP ∉ v) :
    verdict table v = false := by
  cases hv : verdict table v with
  | false => rfl
  | true =>
    have := admitted_one_space hv
    rw [List.count_eq_zero.2 h] at this
    cases this

theorem missing_header_refused (table : List (Bytes × Bytes)) : verdict table [] = false := rfl

/-- a payload without a colon is refused -/
theorem missing_colon_refused (table : List (Bytes × Bytes)) (s tok : Bytes)
    (hc : COLON ∉ fromBase64 tok) : verdict table (s ++ [SP] ++ tok) = false := by
  by_cases hs : SP ∈ s
  · obtain ⟨a, b, rfl⟩ := List.mem_iff_append.1 hs
    have := two_spaces_refused table a b tok
    simpa [List.append_assoc] using this
  · by_cases ht : SP ∈ tok
    · obtain ⟨a, b, rfl⟩ := List.mem_iff_append.1 ht
      have := two_spaces_refused table s a b
      simpa [List.append_assoc] using this
    · rw [verdict_shape table hs ht, breakOn_singleton_eq_none_iff.2 hc]
      simp

/-- a scheme other than `basic` (in any case) is refused -/
theorem other_scheme_refused (table : List (Bytes × Bytes)) (s tok : Bytes) (hs : lower s ≠ BASIC) :
    verdict table (s ++ [SP] ++ tok) = false := by
  by_cases hsp : SP ∈ s
  · obtain ⟨a, b, rfl⟩ := List.mem_iff_append.1 hsp
    have := two_spaces_refused table a b tok
    simpa [List.append_assoc] using this
  · by_cases ht : SP ∈ tok
    · obtain ⟨a, b, rfl⟩ := List.mem_iff_append.1 ht
      have := two_spaces_refused table s a b
      simpa [List.append_assoc] using this
    · rw [verdict_shape table hsp ht]
      have : (lower s == BASIC) = false := by simpa using hs
      rw [this]; rfl

/-- `lookup` is whole-string, case-sensitive byte equality: whatever it returns for `u` is a pair
    registered for exactly `u` -/
theorem lookup_exact {table : List (Bytes × Bytes)} {u p : Bytes} (h : lookup table u = some p) :
    (u, p) ∈ table := lookup_some_mem h

/-- admitted ⇒ the decoded pair is literally in the table -/
theorem admitted_registered {table : List (Bytes × Bytes)} {v : Bytes} (h : verdict table v = true) :
    ∃ s tok u p, v = s ++ [SP] ++ tok ∧ fromBase64 tok = u ++ [COLON] ++ p ∧ COLON ∉ u ∧
      (u, p) ∈ table := by
  obtain ⟨s, tok, u, p, h1, _, _, _, h2, h3, h4⟩ := (admit_iff _ _).1 h
  exact ⟨s, tok, u, p, h1, h2, h3, lookup_some_mem h4⟩

/-- nothing is admitted when nobody is registered -/
theorem empty_table_refuses (v : Bytes) : verdict [] v = false := by
  cases h : verdict [] v with
  | false => rfl
  | true =>
    obtain ⟨_, _, _, _, _, _, _, hm⟩ := admitted_registered h
    cases hm

/-! ### the challenge -/

/-- refusal: the middleware records `false`, sets exactly `WWW-Authenticate: Basic realm="<realm>"`
    (replacing) and answers through `writeError(401)`; nothing else -/
theorem challenge_shape_refused (table : List (Bytes × Bytes)) (realm : Bytes) (s : Sock)
    (h : verdict table (HeaderMap.value AUTHORIZATION s.reqHeaders) = false) :
    ops table realm s = [.note (.mw 0 false), .hdr WWW_AUTH (challenge realm) true, .err 401 none] := by
  unfold ops; rw [h]; rfl

/-- admission: the middleware makes no response-side call itself (`mw 0 true` is its return value);
    what follows is the downstream handler (`pr`, 200 "ok", close) -/
theorem challenge_shape_admitted (table : List (Bytes × Bytes)) (realm : Bytes) (s : Sock)
    (h : verdict table (HeaderMap.value AUTHORIZATION s.reqHeaders) = true) :
    ops table realm s = [.note (.mw 0 true), .note (.pr 0 []), .write (lit ['o','k']), .close] := by
  unfold ops; rw [h]; rfl

/-- both paths in one statement, with the challenge spelled out -/
theorem challenge_shape (table : List (Bytes × Bytes)) (realm : Bytes) (s : Sock) :
    (verdict table (HeaderMap.value AUTHORIZATION s.reqHeaders) = false →
       ops table realm s =
         [.note (.mw 0 false),
          .hdr (lit ['W','W','W','-','A','u','t','h','e','n','t','i','c','a','t','e'])
               (lit ['B','a','s','i','c',' ','r','e','a','l','m','=','"'] ++ realm ++ lit ['"']) true,
          .err 401 none]) ∧
    (verdict table (HeaderMap.value AUTHORIZATION s.reqHeaders) = true →
       (∀ op ∈ ops table realm s, (∀ n v r, op ≠ .hdr n v r) ∧ (∀ c r, op ≠ .err c r) ∧
          (∀ c r, op ≠ .status c r)) ∧
       (ops table realm s).head? = some (.note (.mw 0 true))) := by
  refine ⟨fun h => challenge_shape_refused table realm s h, fun h => ?_⟩
  rw [challenge_shape_admitted table realm s h]
  refine ⟨?_, rfl⟩
  intro op hop
  simp only [List.mem_cons, List.not_mem_nil, or_false] at hop
  rcases hop with rfl | rfl | rfl | rfl <;> simp

/-- the realm can be read back from the challenge -/
theorem challenge_injective {r1 r2 : Bytes} (h : challenge r1 = challenge r2) : r1 = r2 := by
  unfold challenge at h
  exact List.append_cancel_left (List.append_cancel_right h)

/-! ### concrete instances (all by `decide`) -/

/-- users and passwords that are prefixes / case variants of each other, an empty password,
    a password containing ':' and a re-registered user (`bob`: the later entry wins) -/
def exTable : List (Bytes × Bytes) :=
  [ (lit ['u','s','e','r'], lit ['p','a','s','s']),
    (lit ['U','s','e','r'], lit ['P','a','s','s']),
    (lit ['u','s','e'],     lit ['p','a']),
    (lit ['n','o','b','o','d','y'], []),
    (lit ['b','o','b'], lit ['o','l','d']),
    (lit ['c','o','l'], lit ['a',':','b']),
    (lit ['b','o','b'], lit ['n','e','w']) ]

def hdr (scheme : List Char) (cred : List Char) : Bytes := lit scheme ++ [SP] ++ b64encode (lit cred)

-- admitted
example : verdict exTable (lit ['B','a','s','i','c',' ','d','X','N','l','c','j','p','w','Y','X','N','z']) = true := by decide
example : verdict exTable (hdr ['B','a','s','i','c'] ['u','s','e','r',':','p','a','s','s']) = true := by decide
example : verdict exTable (hdr ['b','a','s','i','c'] ['u','s','e','r',':','p','a','s','s']) = true := by decide
example : verdict exTable (hdr ['B','A','S','I','C'] ['U','s','e','r',':','P','a','s','s']) = true := by decide
example : verdict exTable (hdr ['B','a','s','i','c'] ['u','s','e',':','p','a']) = true := by decide
example : verdict exTable (hdr ['B','a','s','i','c'] ['n','o','b','o','d','y',':']) = true := by decide
example : verdict exTable (hdr ['B','a','s','i','c'] ['c','o','l',':','a',':','b']) = true := by decide
example : verdict exTable (hdr ['B','a','s','i','c'] ['b','o','b',':','n','e','w']) = true := by decide
-- refused
example : verdict exTable (hdr ['B','a','s','i','c'] ['b','o','b',':','o','l','d']) = false := by decide
example : verdict exTable (hdr ['B','a','s','i','c'] ['u','s','e','r',':','p','a','s']) = false := by decide
example : verdict exTable (hdr ['B','a','s','i','c'] ['u','s','e','r',':','p','a']) = false := by decide
example : verdict exTable (hdr ['B','a','s','i','c'] ['u','s','e','r',':','P','a','s','s']) = false := by decide
example : verdict exTable (hdr ['B','a','s','i','c'] ['u','s','e','r',':','P','A','S','S']) = false := by decide
example : verdict exTable (hdr ['B','a','s','i','c'] ['u','s','e','r',':']) = false := by decide
example : verdict exTable (hdr ['B','a','s','i','c'] ['u','s','e','r',':','p','a','s','s','x']) = false := by decide
example : verdict exTable (hdr ['B','a','s','i','c'] ['U','S','E','R',':','p','a','s','s']) = false := by decide
example : verdict exTable (hdr ['B','a','s','i','c'] ['u','s','e','r','p','a','s','s']) = false := by decide
example : verdict exTable (hdr ['B','a','s','i','c'] ['u','s','e','r']) = false := by decide
example : verdict exTable (hdr ['B','e','a','r','e','r'] ['u','s','e','r',':','p','a','s','s']) = false := by decide
example : verdict exTable (hdr ['B','a','s','i','c','x'] ['u','s','e','r',':','p','a','s','s']) = false := by decide
example : verdict exTable (lit ['B','a','s','i','c',' ',' ','d','X','N','l','c','j','p','w','Y','X','N','z']) = false := by decide
example : verdict exTable (lit ['B','a','s','i','c',' ','d','X','N','l','c','j','p','w','Y','X','N','z',' ']) = false := by decide
example : verdict exTable (lit [' ','B','a','s','i','c',' ','d','X','N','l','c','j','p','w','Y','X','N','z']) = false := by decide
example : verdict exTable (lit ['B','a','s','i','c','\t','d','X','N','l','c','j','p','w','Y','X','N','z']) = false := by decide
example : verdict exTable (lit ['B','a','s','i','c']) = false := by decide
example : verdict exTable [] = false := by decide
example : verdict exTable (lit ['d','X','N','l','c','j','p','w','Y','X','N','z']) = false := by decide
example : verdict [] (lit ['B','a','s','i','c',' ','d','X','N','l','c','j','p','w','Y','X','N','z']) = false := by decide
-- the lenient decoder skips junk inside the token: still exactly user:pass after decoding
example : verdict exTable (lit ['B','a','s','i','c',' ','d','X','N','l','-','c','j','p','w','Y','X','N','z','=','=','=']) = true := by decide
-- the spec agrees on each
example : specAdmit exTable (lit ['B','a','s','i','c',' ','d','X','N','l','c','j','p','w','Y','X','N','z']) = true := by decide
example : specAdmit exTable (lit ['B','a','s','i','c',' ',' ','d','X','N','l','c','j','p','w','Y','X','N','z']) = false := by decide
-- lookup: exact bytes
example : lookup exTable (lit ['u','s','e','r']) = some (lit ['p','a','s','s']) := by decide
example : lookup exTable (lit ['U','s','e','r']) = some (lit ['P','a','s','s']) := by decide
example : lookup exTable (lit ['U','S','E','R']) = none := by decide
example : lookup exTable (lit ['u','s']) = none := by decide
example : lookup exTable (lit ['u','s','e','r','s']) = none := by decide
example : lookup exTable (lit ['b','o','b']) = some (lit ['n','e','w']) := by decide

-- the general theorems' hypotheses are satisfiable (non-vacuity): instances on `exTable`
example : verdict exTable (lit ['B','a','s','i','c',' '] ++ b64encode (lit ['u','s','e','r'] ++ [COLON] ++ lit ['p','a','s','s'])) = true :=
  valid_admitted exTable (by decide) (by decide)
example : verdict exTable (lit ['B','a','s','i','c',' '] ++ b64encode (lit ['u','s','e','r'] ++ [COLON] ++ (lit ['p','a','s','s']).take 3)) = false :=
  prefix_password_refused exTable 3 (by decide) (by decide) (by decide)
example : verdict exTable (lit ['B','a','s','i','c',' '] ++ b64encode (lit ['u','s','e','r'] ++ [COLON] ++ lit ['P','a','s','s'])) = false :=
  case_changed_password_refused exTable (p := lit ['p','a','s','s']) (by decide) (by decide) (by decide) (by decide)
example : verdict exTable (lit ['B','a','s','i','c',' '] ++ b64encode (lit ['u','s','e','r'] ++ [COLON])) = false :=
  empty_password_refused exTable (p := lit ['p','a','s','s']) (by decide) (by decide) (by decide)
example : verdict exTable (lit ['B','a','s','i','c',' '] ++ b64encode (lit ['u','s','e','r'] ++ [COLON] ++ lit ['P','a','s','s'])) = false :=
  other_users_password_refused exTable (u' := lit ['U','s','e','r']) (p := lit ['p','a','s','s']) (by decide) (by decide) (by decide) (by decide)
example : ∃ v, verdict exTable v = true := ⟨_, valid_admitted exTable (u := lit ['u','s','e']) (p := lit ['p','a']) (by decide) (by decide)⟩

/-! ### the executable predicate on every run of the model -/

open C09L in
theorem admitted_append (a c : List Obs) : admitted (a ++ c) = (admitted a || admitted c) := by
  simp [admitted, List.any_append]

/-- scenario shape: `head` really is the text before the first blank line of the stream
    (it does not contain a blank line and does not end in CRLF) -/
def headShape (sc : AuthScn) : Bool := breakOn CRLF2 sc.stream == some (sc.head, [])

/-- sufficient for `headShape`: no CRLFCRLF starts inside `head ++ CR LF CR` -/
theorem headShape_of_not_infix (sc : AuthScn) (h : ¬ CRLF2 <:+: sc.head ++ CRLF2.dropLast) :
    headShape sc = true := by
  unfold headShape AuthScn.stream
  have := breakOn_of_not_infix (d := CRLF2) (a := sc.head) [] (by decide) h
  rw [List.append_nil] at this
  rw [this]; simp

/-- the realm is such that the challenge is one header line carrying one value: no CR (the
    library does not escape it: a CR LF in the realm would start a new header line) and no `", "`
    (the predicate's reader `Http.valuesOf` splits a header value at `", "`; see the report) -/
def realmOk (realm : Bytes) : Bool := !containsByte CR realm && !isInfixB [44, 32] realm

open C09L in
/-- **C09 on the model**: for every environment (URL oracle, error page), every credential table,
    every realm without CR and `", "`, and every request head, the history of the run
    `new; feed (head ++ CRLF CRLF); turn` satisfies the executable predicate that the driver
    evaluates on implementation traces. -/
theorem holds_run (env : Env) (sc : AuthScn) (hh : headShape sc = true) (hr : realmOk sc.realm = true) :
    C09.holds env sc (Scenario.run env sc.scenario).log = true := by
  have hb : breakOn CRLF2 sc.stream = some (sc.head, []) := by simpa [headShape] using hh
  have hrun : Scenario.run env sc.scenario =
      Sock.run env (authApp sc.table sc.realm) [.new, .feed sc.stream, .turn] := rfl
  simp only [realmOk, Bool.and_eq_true, Bool.not_eq_true'] at hr
  obtain ⟨hcr, hcs⟩ := hr
  unfold holds authValue
  cases he : C01.expect env sc.head with
  | none =>
    have hbad : BadHead env sc.head := by
      intro rh hp
      unfold C01.expect at he
      rw [hp] at he
      cases hu : env.url rh.rawPath with
      | none => rfl
      | some pq => obtain ⟨p, q⟩ := pq; simp [hu] at he
    rw [hrun, run_bad env _ sc.stream sc.head [] hb hbad]
    simp only [Option.map_none]
    unfold log400
    split <;> simp [admitted]
  | some f =>
    obtain ⟨rh, p, q, hp, hu, rfl⟩ := (C01.expect_eq_some_iff env sc.head f).1 he
    simp only [Option.map_some]
    rw [← verdict_eq_spec]
    cases hv : verdict sc.table (HeaderMap.value AUTHORIZATION rh.headers) with
    | true =>
      obtain ⟨tail, ht⟩ := run_admitted env sc.table sc.realm sc.stream sc.head [] rh p q hb hp hu hv
      rw [hrun, ht]
      simp [admitted]
    | false =>
      have ht := run_refused env sc.table sc.realm sc.stream sc.head [] rh p q hb hp hu hv
      rw [hrun, ht]
      have hw : Obs.wire ([Obs.ev 0, Obs.ev 1, Obs.hp, Obs.mw 0 false] ++
          (Obs.w (errStart 401 ++ CRLF ++
              Sock.headerLines (errHeaders [(WWW_AUTH, challenge sc.realm)]
                (natDigits (errBody env 401).length)) ++ CRLF) ::
            ((if (errBody env 401).isEmpty then [] else [Obs.w (errBody env 401)]) ++ [Obs.tc])) ++
          [Obs.ev 2]) =
          errStart 401 ++ CRLF ++ Sock.headerLines (errHeaders [(WWW_AUTH, challenge sc.realm)]
            (natDigits (errBody env 401).length)) ++ CRLF ++ errBody env 401 := by
        cases hbody : errBody env 401 with
        | nil => simp [Obs.wire]
        | cons x xs => simp [Obs.wire]
      rw [hw, parse_401 env sc.realm hcr]
      have hadm : admitted ([Obs.ev 0, Obs.ev 1, Obs.hp, Obs.mw 0 false] ++
          (Obs.w (errStart 401 ++ CRLF ++
              Sock.headerLines (errHeaders [(WWW_AUTH, challenge sc.realm)]
                (natDigits (errBody env 401).length)) ++ CRLF) ::
            ((if (errBody env 401).isEmpty then [] else [Obs.w (errBody env 401)]) ++ [Obs.tc])) ++
          [Obs.ev 2]) = false := by
        split <;> simp [admitted]
      have htc : ([Obs.ev 0, Obs.ev 1, Obs.hp, Obs.mw 0 false] ++
          (Obs.w (errStart 401 ++ CRLF ++
              Sock.headerLines (errHeaders [(WWW_AUTH, challenge sc.realm)]
                (natDigits (errBody env 401).length)) ++ CRLF) ::
            ((if (errBody env 401).isEmpty then [] else [Obs.w (errBody env 401)]) ++ [Obs.tc])) ++
          [Obs.ev 2]).any Obs.isTc = true := by
        split <;> simp [Obs.isTc]
      rw [hadm, htc]
      simp only [msg401, statusLine_401, valuesOf_auth_401 _ _ (challenge_no_commaSP hcs),
        valuesOf_cl_401]
      simp

/-! ### `holds_run`: non-vacuity and evaluated runs -/

def exEnv : Env := { url := fun p => some (p, []), errPage := fun _ r => r }
def exHeadAuth (cred : List Char) : Bytes :=
  lit ['G','E','T',' ','/',' ','H','T','T','P','/','1','.','0'] ++ CRLF ++
  lit ['A','u','t','h','o','r','i','z','a','t','i','o','n',':',' ','B','a','s','i','c',' '] ++ b64encode (lit cred)
def exScn (realm : List Char) (head : Bytes) : AuthScn := { table := exTable, realm := lit realm, head := head }

-- hypotheses of `holds_run` on concrete scenarios
example : headShape (exScn ['r'] (exHeadAuth ['u','s','e','r',':','p','a','s','s'])) = true := by decide
example : realmOk (lit ['m','y',' ','r','e','a','l','m',',','"','x','"']) = true := by decide
-- the three cases, evaluated
example : holds exEnv (exScn ['r'] (exHeadAuth ['u','s','e','r',':','p','a','s','s']))
    (Scenario.run exEnv (exScn ['r'] (exHeadAuth ['u','s','e','r',':','p','a','s','s'])).scenario).log = true := by
  decide +kernel
example : admitted
    (Scenario.run exEnv (exScn ['r'] (exHeadAuth ['u','s','e','r',':','p','a','s','s'])).scenario).log = true := by
  decide +kernel
example : holds exEnv (exScn ['r'] (exHeadAuth ['u','s','e','r',':','p','a','s']))
    (Scenario.run exEnv (exScn ['r'] (exHeadAuth ['u','s','e','r',':','p','a','s'])).scenario).log = true := by
  decide +kernel
example : admitted
    (Scenario.run exEnv (exScn ['r'] (exHeadAuth ['u','s','e','r',':','p','a','s'])).scenario).log = false := by
  decide +kernel
example : holds exEnv (exScn ['r'] (lit ['G','A','R','B','A','G','E']))
    (Scenario.run exEnv (exScn ['r'] (lit ['G','A','R','B','A','G','E'])).scenario).log = true := by
  decide +kernel
-- why `realmOk` is a hypothesis: with `", "` in the realm the PREDICATE (not the library) fails
example : holds exEnv (exScn ['a',',',' ','b'] (exHeadAuth ['u','s','e','r',':','p','a','s']))
    (Scenario.run exEnv (exScn ['a',',',' ','b'] (exHeadAuth ['u','s','e','r',':','p','a','s'])).scenario).log = false := by
  decide +kernel
-- why `headShape` is a hypothesis
example : holds exEnv (exScn ['r'] (exHeadAuth ['u','s','e','r',':','p','a','s','s'] ++ CRLF))
    (Scenario.run exEnv (exScn ['r'] (exHeadAuth ['u','s','e','r',':','p','a','s','s'] ++ CRLF)).scenario).log = false := by
  decide +kernel
example : holds exEnv (exScn ['r'] (exHeadAuth ['u','s','e','r',':','p','a','s','s']))
    (Scenario.run exEnv (exScn ['r'] (exHeadAuth ['u','s','e','r',':','p','a','s','s'])).scenario).log = true :=
  holds_run _ _ (by decide) (by decide)

end Qhttp.C09
