import Qhttp.Model.Socket
/-
  Line protocol shared with harness/ (DESIGN.md Appendix B): parsing of scenario, oracle and
  observation tokens, and printing of model observations in the same vocabulary.
  Plain programming; nothing here is used by a theorem.
-/
namespace Qhttp.Proto
open Qhttp

def hexDigit (n : Nat) : Char :=
  if n < 10 then Char.ofNat (48 + n) else Char.ofNat (87 + n)

def hex (bs : Bytes) : String :=
  if bs.isEmpty then "-" else
  String.ofList (bs.flatMap fun c => [hexDigit (c.toNat / 16), hexDigit (c.toNat % 16)])

def hexVal (c : Char) : Option Nat :=
  if '0' ≤ c ∧ c ≤ '9' then some (c.toNat - 48)
  else if 'a' ≤ c ∧ c ≤ 'f' then some (c.toNat - 87)
  else if 'A' ≤ c ∧ c ≤ 'F' then some (c.toNat - 55)
  else none

partial def unhexAux : List Char → Bytes → Option Bytes
  | [], acc => some acc.reverse
  | [_], _ => none
  | a :: c :: rest, acc =>
    match hexVal a, hexVal c with
    | some x, some y => unhexAux rest (UInt8.ofNat (x * 16 + y) :: acc)
    | _, _ => none

def unhex (s : String) : Bytes :=
  if s == "-" || s == "~" then [] else (unhexAux s.toList []).getD []

def toInt (s : String) : Int := s.toInt?.getD 0
def toNat (s : String) : Nat := s.toNat?.getD 0

def fields (s : String) : List String := s.splitOn ":"

/-- `k=v,k=v` (hex) or `-` -/
def pairs (s : String) : List (Bytes × Bytes) :=
  if s == "-" || s == "" then [] else
  (s.splitOn ",").filterMap fun kv =>
    match kv.splitOn "=" with
    | [k, v] => some (unhex k, unhex v)
    | _ => none

def showPairs (m : List (Bytes × Bytes)) : String :=
  if m.isEmpty then "-" else ",".intercalate (m.map fun e => hex e.1 ++ "=" ++ hex e.2)

/-- reason token: `~` null (use the default), `-` empty, else hex -/
def reasonTok (s : String) : Option Bytes := if s == "~" then none else some (unhex s)

def parseApi (tok : String) : Option ApiOp :=
  match fields tok with
  | ["read", n] => some (.read (toNat n))
  | ["readall"] => some .readAll
  | ["avail"] => some .avail
  | ["snap"] => some .snap
  | ["status", c, r] => some (.status (toInt c) (reasonTok r))
  | ["hdr", n, v, m] => some (.hdr (unhex n) (unhex v) (m == "r"))
  | ["hdrs", m] => some (.hdrs (pairs m))
  | ["wh"] => some .wh
  | ["write", b] => some (.write (unhex b))
  | ["err", c, r] => some (.err (toInt c) (reasonTok r))
  | ["redir", p, pm] => some (.redir (unhex p) (pm == "1"))
  | ["json", body, c] => some (.json (unhex body) (toInt c))
  | ["close"] => some .close
  | ["mark"] => some (.note (.misc 50 []))     -- the application records: "by now I have closed the socket"
  | _ => none

def parseEvent (tok : String) : Option Event :=
  match fields tok with
  | ["prebuf", b] => some (.prebuf (unhex b))
  | ["new"] => some .new
  | ["feed", b] => some (.feed (unhex b))
  | ["ack", n] => some (.ack (toNat n))
  | ["ackall"] => some .ackAll
  | ["peerclose"] => some .peerClose
  | ["turn"] => some .turn
  | _ => (parseApi tok).map .api

structure SockScn where
  app : Script := {}
  events : List Event := []
  bad : List String := []
deriving Inhabited

/-- `@sig op op @end` blocks are reactions, everything else is an external event, in order -/
def parseSock (toks : List String) : SockScn := Id.run do
  let mut cur : String := ""
  let mut sc : SockScn := {}
  for t in toks do
    if t.startsWith "@" then
      cur := if t == "@end" then "" else (t.drop 1).toString
    else if cur != "" then
      match parseApi t with
      | some op =>
        let a := sc.app
        sc := { sc with app :=
          if cur == "hp" then { a with onHp := a.onHp ++ [op] }
          else if cur == "rr" then { a with onRr := a.onRr ++ [op] }
          else if cur == "rcf" then { a with onRcf := a.onRcf ++ [op] }
          else if cur == "bw" then { a with onBw := a.onBw ++ [op] }
          else if cur == "dc" then { a with onDc := a.onDc ++ [op] }
          else a }
      | none => sc := { sc with bad := sc.bad ++ [t] }
    else
      match parseEvent t with
      | some e => sc := { sc with events := sc.events ++ [e] }
      | none => sc := { sc with bad := sc.bad ++ [t] }
  return sc

/-! oracles -/

structure Oracle where
  urls  : List (Bytes × Option (Bytes × List (Bytes × Bytes))) := []
  pages : List (Int × Bytes × Bytes) := []          -- code, effective reason, body
  json  : List (Bytes × Bytes) := []                -- document text ↦ toJson() text
  misc  : List (List String) := []
deriving Inhabited

def MISS : Bytes := "ORACLE-MISS".toUTF8.toList

def Oracle.add (o : Oracle) (tok : String) : Oracle :=
  match fields tok with
  | ["url", raw, ok, path, items] =>
    { o with urls := o.urls ++ [(unhex raw, if ok == "1" then some (unhex path, pairs items) else none)] }
  | ["ep", code, r, body] =>
    let c := toInt code
    let reason := match reasonTok r with | some x => x | none => statusReason c
    { o with pages := o.pages ++ [(c, reason, unhex body)] }
  | ["js", doc, text] => { o with json := o.json ++ [(unhex doc, unhex text)] }
  | fs => { o with misc := o.misc ++ [fs] }

def Oracle.env (o : Oracle) : Env where
  url raw := match o.urls.find? (·.1 == raw) with
    | some (_, r) => r
    | none => some (MISS, [])
  errPage code reason := match o.pages.find? (fun e => e.1 == code && e.2.1 == reason) with
    | some (_, _, body) => body
    | none => MISS

/-! observations -/

def showSnap (s : Snap) : String :=
  s!"snap:{if s.parsed then 1 else 0}:{if s.parsed then s.method else 0}:{hex s.rawPath}:{hex s.path}:{showPairs s.query}:{showPairs s.headers}:{s.total}"

def showObs : Obs → String
  | .hp => "hp" | .rr => "rr" | .rcf => "rcf" | .bw n => s!"bw:{n}" | .dc => "dc"
  | .w b => "w:" ++ hex b | .tc => "tc" | .rd b => "rd:" ++ hex b | .av n => s!"av:{n}"
  | .snap s => showSnap s | .del => "del" | .crash => "crash"
  | .mw i ok => s!"mw:{i}:{if ok then 1 else 0}" | .rt n p => s!"rt:{n}:{hex p}"
  | .pr n p => s!"pr:{n}:{hex p}" | .slot n a => s!"slot:{n}:{a}" | .ev k => s!"e:{k}"
  | .misc t d => s!"x:{t}:{hex d}"

def parseObs (tok : String) : Option Obs :=
  match fields tok with
  | ["hp"] => some .hp | ["rr"] => some .rr | ["rcf"] => some .rcf
  | ["bw", n] => some (.bw (toInt n)) | ["dc"] => some .dc
  | ["w", b] => some (.w (unhex b)) | ["tc"] => some .tc
  | ["rd", b] => some (.rd (unhex b)) | ["av", n] => some (.av (toNat n))
  | ["snap", p, m, raw, path, q, h, cl] =>
    some (.snap { parsed := p == "1", method := toNat m, rawPath := unhex raw, path := unhex path,
                  query := pairs q, headers := pairs h, total := toInt cl })
  | ["del"] => some .del | ["crash"] => some .crash
  | ["mw", i, ok] => some (.mw (toNat i) (ok == "1"))
  | ["rt", n, p] => some (.rt (toNat n) (unhex p))
  | ["pr", n, p] => some (.pr (toNat n) (unhex p))
  | ["slot", n, a] => some (.slot (toNat n) (toNat a))
  | ["e", k] => some (.ev (toNat k))
  | ["x", t, d] => some (.misc (toNat t) (unhex d))
  | _ => none

def showLog (l : List Obs) : String := " ".intercalate (l.map showObs)

end Qhttp.Proto
