#!/bin/bash
# scratch git worktree of /repo for a mutation sub-agent, with the library and its tests built
#   tools/mk_mut_worktree.sh <tag>    ->  /tmp/mut/<tag>  (build in /tmp/mut/<tag>/build, agent output in out/)
set -e
tag=$1
W=/tmp/mut/$tag
git -C /repo worktree prune
[ -d $W ] && { git -C /repo worktree remove --force $W 2>/dev/null || rm -rf $W; }
git -C /repo worktree add --detach -f $W HEAD > /dev/null 2>&1
cd $W
cmake -G Ninja -B build -DBUILD_TESTS=ON -DCMAKE_BUILD_TYPE=RelWithDebInfo -DCMAKE_CXX_FLAGS=-Wno-error > /dev/null
cmake --build build -j4 > /dev/null 2>&1
mkdir -p out
echo "$W ready: $(ctest --test-dir build -j8 --timeout 300 2>&1 | grep -E 'tests passed|tests failed')"
