#!/bin/bash
# confirm a seeded change in the agent's scratch worktree, then store it under /verif/seeded/<pid>-<i>
#   tools/confirm_seed.sh <pid> <i>
set -u
pid=$1; i=$2
W=/tmp/mut/$pid
O=$W/out/$i
cd $W || exit 2
git checkout -q -- . 
run_demo() {
  # demos differ: a build script producing `demo` (possibly also running it), or a run script
  if [ -f $O/build_demo.sh ]; then
    sh $O/build_demo.sh > $O/.build.log 2>&1; rc=$?
    if [ $rc -ne 0 ]; then
      if grep -q "error:" $O/.build.log && ! grep -q "FAIL" $O/.build.log; then echo "demo build failed"; tail -5 $O/.build.log; return 99; fi
      cat $O/.build.log | tail -3; return 1      # the script ran the demo and it failed
    fi
    if grep -q "PASS" $O/.build.log && [ ! -f $O/run_demo.sh ]; then tail -1 $O/.build.log; return 0; fi
  fi
  if [ -f $O/run_demo.sh ]; then ( cd $O && timeout 120 sh ./run_demo.sh ) ; return $?; fi
  ( cd $O && timeout 120 ./demo ); return $?
}
git apply $O/patch.diff || { echo "PATCH DOES NOT APPLY"; exit 2; }
cmake --build build -j8 > $O/.lib.log 2>&1 || { echo "LIB BUILD FAILED with change"; git checkout -q -- .; exit 2; }
tests=$(ctest --test-dir build -j8 --timeout 300 2>&1 | grep -E "tests passed|tests failed" | head -1)
run_demo > $O/.demo_with.log 2>&1; with=$?
git checkout -q -- .
cmake --build build -j8 > $O/.lib.log 2>&1
run_demo > $O/.demo_without.log 2>&1; without=$?
echo "$pid-$i tests_with_change: $tests | demo with change: exit $with | without: exit $without"
if echo "$tests" | grep -q "100% tests passed" && [ $with -ne 0 ] && [ $with -ne 99 ] && [ $without -eq 0 ]; then
  D=/verif/seeded/$pid-$i
  mkdir -p $D
  cp $O/patch.diff $D/; cp $O/meta.json $D/
  for f in $O/*; do case "$f" in *.diff|*/meta.json|*/demo) ;; *) [ -f "$f" ] && cp "$f" $D/ ;; esac; done
  python3 - "$D" "$tests" "$with" "$without" <<'PY'
import json,sys
d,tests,w,wo=sys.argv[1:5]
m=json.load(open(d+"/meta.json"))
m["confirmed_by_coordinator"]={"worktree":"/tmp/mut (scratch git worktree of /repo, removed afterwards)","existing_suite_with_change":tests,"demo_exit_with_change":int(w),"demo_exit_without_change":int(wo),
  "ran":"git apply patch.diff; cmake --build build; ctest; build+run demo; git checkout -- .; cmake --build build; run demo"}
json.dump(m,open(d+"/meta.json","w"),indent=1)
PY
  echo "CONFIRMED -> $D"
else
  echo "NOT CONFIRMED"
fi
rm -f $O/demo
