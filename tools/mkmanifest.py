#!/usr/bin/env python3
"""Write MANIFEST.json from tools/props.py (one source of truth for what is claimed)."""
import json, os, sys
ROOT = os.path.dirname(os.path.dirname(os.path.abspath(__file__)))
sys.path.insert(0, os.path.join(ROOT, "tools"))
import props
allp = [json.loads(l)["id"] for l in open(os.path.join(ROOT, "properties.jsonl"))]
checks = []
for pid in allp:
    if pid not in props.PROPS:
        continue
    d = props.PROPS[pid]
    checks.append({
        "property_id": pid,
        "quick_cmd": "python3 tools/check.py %s --tier quick" % pid,
        "thorough_cmd": "python3 tools/check.py %s --tier thorough" % pid,
        "evidence_file": "evidence/%s.json" % pid,
        "replay_cmd_template": "python3 tools/check.py %s --replay {path}" % pid,
        "engine": "lean4-proof+correspondence",
        "level_claimed": {"category": "proof", "text": d["level_text"], "design_ref": "DESIGN.md section 8, " + pid},
        "level_note": d["level_note"],
        "technique": d.get("technique", "Lean 4 theorems about an executable model + differential correspondence of the model with the library built from /repo"
                           + (" + the functions of /repo the property rests on translated to Lean on every run and proved equal to the model (bridge modules %s)"
                              % ", ".join(sorted({".".join(b.split(".")[:3]) if b.count(".") > 1 else b for b in props.BRIDGES.get(pid, [])}))
                              if props.BRIDGES.get(pid) else "")),
    })
na = [{"property_id": p, "reason": props.NOT_APPLICABLE.get(p, "no check is registered for this property in this revision (see DESIGN.md)")}
      for p in allp if p not in props.PROPS]
m = {
    "version": 1,
    "setup_cmd": "python3 tools/setup.py",
    "hooks": {
        "guard": "QHTTPENGINE_VERIF",
        "enable": "the harness is compiled with -DQHTTPENGINE_VERIF (harness/CMakeLists.txt); no guarded code was needed in /repo, the define is reserved",
        "baseline_off_cmd": "cmake --build /repo/_build && ctest --test-dir /repo/_build -j8 --timeout 900",
        "source_commits": [],
        "add_only": True,
    },
    "engines": [{"name": "lean4-proof+correspondence", "path": "tools/check.py",
                 "serves_properties": [c["property_id"] for c in checks],
                 "kind_free_text": "Lean 4.33 theorems over a hand-written executable model (lean/Qhttp), fragments regenerated from the C++ by tools/cxx2lean.py with bridge theorems, and a differential correspondence harness (harness/) linking /repo's sources under ASan+UBSan"}],
    "checks": checks,
    "not_applicable": na,
    "notes": "See DESIGN.md. known_findings.json lists genuine defects (fixed: commits in /repo).",
}
json.dump(m, open(os.path.join(ROOT, "MANIFEST.json"), "w"), indent=1)
print("wrote MANIFEST.json with", len(checks), "checks")
