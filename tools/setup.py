#!/usr/bin/env python3
"""MANIFEST.setup_cmd: build the Lean library, the driver and the harness from files on disk."""
import os, subprocess, sys
ROOT = os.path.dirname(os.path.dirname(os.path.abspath(__file__)))
sys.path.insert(0, os.path.join(ROOT, "tools"))
import check
os.makedirs(os.path.join(ROOT, ".work"), exist_ok=True)
check.run_translator()
ok, out = check.lake_build(["Qhttp", "QhttpGen"] + check.props.ALL_BRIDGE_MODULES + ["qhttp-driver"])
print(out[-3000:])
if not ok:
    sys.exit(1)
exe, hsh, err = check.build_harness()
if exe is None:
    print(err)
    sys.exit(1)
print("setup ok: harness", exe)
