#!/usr/bin/env python3
"""cxx2lean: regenerate lean/QhttpGen/*.lean from /repo's C++ (clang-14 JSON AST).

A closed subset of C++ is translated: CompoundStmt, IfStmt, ReturnStmt, assignments and compound
assignments to `d->x` / `this->x` / parameters, BinaryOperator (&& || < <= > >= == != + -),
UnaryOperator (- !), integer/bool literals, enum constants, ConditionalOperator, calls to sibling
accessors (`isValid()`), `Q_EMIT q->sig(args)`, `switch` whose cases are `return "literal"`.
Anything else: the function is reported as untranslatable and NOT emitted (no guessing).

Statements are translated in continuation style: `if (c) A; rest` becomes
`if c then [A; rest] else [rest]`, `return e` ends a path, an assignment becomes a `let` that
shadows the variable; a void function returns the tuple of the variables it may assign plus the
list of emitted signal arguments.

Output (one JSON line on stdout at the end): {"functions": [...], "untranslatable": [...], "sha": ...}
"""
import argparse, hashlib, json, os, re, subprocess, sys


def clang_ast(repo, src, flt, export_dir):
    inc = subprocess.run(["pkg-config", "--cflags", "Qt5Core", "Qt5Network"], capture_output=True, text=True).stdout.split()
    cmd = ["clang++-14", "-std=gnu++17", "-fsyntax-only", "-fPIC", "-w"] + inc + [
        "-I" + os.path.join(repo, "src", "include"), "-I" + export_dir, "-I" + os.path.join(repo, "src", "src"),
        "-Xclang", "-ast-dump=json", "-Xclang", "-ast-dump-filter=" + flt, os.path.join(repo, "src", "src", src)]
    p = subprocess.run(cmd, capture_output=True, text=True)
    if p.returncode != 0:
        raise RuntimeError("clang failed on %s: %s" % (src, p.stderr[-800:]))
    txt, docs, i = p.stdout, [], 0
    dec = json.JSONDecoder()
    while i < len(txt):
        while i < len(txt) and txt[i].isspace():
            i += 1
        if i >= len(txt):
            break
        d, i = dec.raw_decode(txt, i)
        docs.append(d)
    return docs


class Untranslatable(Exception):
    pass


RENAME = {"from": "frm", "to": "to", "dataSize": "dataSize", "end": "end_", "at": "at_"}


def ident(n):
    return RENAME.get(n, n)


def strip(n):
    while n.get("kind") in ("ImplicitCastExpr", "ExprWithCleanups", "MaterializeTemporaryExpr", "CXXBindTemporaryExpr",
                            "ConstantExpr", "CXXFunctionalCastExpr", "CStyleCastExpr", "CXXStaticCastExpr"):
        inner = [c for c in n.get("inner", []) if c.get("kind") not in ("FullComment",)]
        if len(inner) != 1:
            break
        n = inner[0]
    return n


class Fn:
    """translation of one function body"""
    def __init__(self, state_prefix="s", members=(), enums=None, siblings=()):
        self.members = set(members)        # member variables readable through d-> / this->
        self.enums = enums or {}           # enum constant name -> int
        self.siblings = set(siblings)      # sibling accessor names callable as f s
        self.assigned = []                 # variables assigned (in order of first assignment)
        self.emits = False

    # ---- expressions -------------------------------------------------------------------
    def member_name(self, n):
        """d->x, this->x, this->d->x  ->  x"""
        n = strip(n)
        if n.get("kind") == "MemberExpr":
            base = strip(n["inner"][0])
            if base.get("kind") == "CXXThisExpr":
                return n["name"]
            if base.get("kind") == "MemberExpr" and base.get("name") in ("d", "q") \
                    and strip(base["inner"][0]).get("kind") == "CXXThisExpr":
                return n["name"]
        return None

    def other_member(self, n):
        """other.d->x (a parameter of the same class)  ->  x"""
        n = strip(n)
        if n.get("kind") == "MemberExpr":
            base = strip(n["inner"][0])
            if base.get("kind") == "MemberExpr" and base.get("name") == "d":
                b2 = strip(base["inner"][0])
                if b2.get("kind") == "DeclRefExpr" and b2.get("referencedDecl", {}).get("kind") == "ParmVarDecl":
                    return n["name"]
        return None

    def expr(self, n, env):
        n = strip(n)
        k = n.get("kind")
        if k == "ParenExpr":
            return "(" + self.expr(n["inner"][0], env) + ")"
        if k == "IntegerLiteral":
            return "(%s : Int)" % n["value"]
        if k == "CXXBoolLiteralExpr":
            return "true" if n["value"] else "false"
        if k == "DeclRefExpr":
            rd = n.get("referencedDecl", {})
            if rd.get("kind") == "EnumConstantDecl":
                if rd["name"] not in self.enums:
                    raise Untranslatable("unknown enum constant " + rd["name"])
                return "(%d : Int)" % self.enums[rd["name"]]
            if rd.get("kind") in ("ParmVarDecl", "VarDecl"):
                return env.get(rd["name"], ident(rd["name"]))
            raise Untranslatable("DeclRefExpr to " + str(rd.get("kind")))
        if k == "MemberExpr":
            m = self.member_name(n)
            if m is None:
                om = self.other_member(n)
                if om is not None:
                    return "o." + ident(om)
                raise Untranslatable("member expression")
            return env.get("d." + m, "s." + ident(m))
        if k == "UnaryOperator":
            op = n["opcode"]
            e = self.expr(n["inner"][0], env)
            if op == "-":
                return "(-%s)" % e
            if op == "!":
                return "(!%s)" % self.boolean(n["inner"][0], env)
            raise Untranslatable("unary " + op)
        if k == "BinaryOperator":
            op = n["opcode"]
            a, b = n["inner"]
            if op in ("+", "-"):
                return "(%s %s %s)" % (self.expr(a, env), op, self.expr(b, env))
            if op in ("<", "<=", ">", ">=", "==", "!=", "&&", "||"):
                return self.boolean(n, env)
            raise Untranslatable("binary " + op)
        if k == "ConditionalOperator":
            c, a, b = n["inner"]
            return "(if %s then %s else %s)" % (self.prop(c, env), self.expr(a, env), self.expr(b, env))
        if k == "CXXMemberCallExpr":
            callee = strip(n["inner"][0])
            if callee.get("kind") == "MemberExpr" and strip(callee["inner"][0]).get("kind") == "CXXThisExpr" \
                    and callee["name"] in self.siblings and len(n["inner"]) == 1:
                return "(%s s)" % ident(callee["name"] + "_")
            raise Untranslatable("call to " + str(callee.get("name")))
        raise Untranslatable("expression kind " + str(k))

    def prop(self, n, env):
        """a condition as a decidable Prop"""
        n = strip(n)
        k = n.get("kind")
        if k == "ParenExpr":
            return "(" + self.prop(n["inner"][0], env) + ")"
        if k == "BinaryOperator":
            op = n["opcode"]
            a, b = n["inner"]
            if op == "&&":
                return "(%s ∧ %s)" % (self.prop(a, env), self.prop(b, env))
            if op == "||":
                return "(%s ∨ %s)" % (self.prop(a, env), self.prop(b, env))
            m = {"<": "<", "<=": "≤", ">": ">", ">=": "≥", "==": "=", "!=": "≠"}
            if op in m:
                return "(%s %s %s)" % (self.expr(a, env), m[op], self.expr(b, env))
        if k == "UnaryOperator" and n["opcode"] == "!":
            return "(¬ %s)" % self.prop(n["inner"][0], env)
        if k == "CXXBoolLiteralExpr":
            return "True" if n["value"] else "False"
        if k == "DeclRefExpr" and n.get("referencedDecl", {}).get("kind") in ("VarDecl", "ParmVarDecl") \
                and is_bool_type(n.get("referencedDecl", {}).get("type", {}).get("qualType", "")):
            return "(%s = true)" % self.expr(n, env)
        if k == "ConditionalOperator":
            c, a, b = n["inner"]
            return "(if %s then %s else %s)" % (self.prop(c, env), self.prop(a, env), self.prop(b, env))
        if k == "CXXMemberCallExpr":
            return "(%s = true)" % self.expr(n, env)
        raise Untranslatable("condition kind " + str(k))

    def boolean(self, n, env):
        return "(decide %s)" % self.prop(n, env)

    # ---- statements ----------------------------------------------------------------------
    def flatten(self, n):
        if n is None:
            return []
        if n.get("kind") == "CompoundStmt":
            out = []
            for c in n.get("inner", []):
                out += self.flatten(c)
            return out
        return [n]

    def lhs_var(self, n):
        n = strip(n)
        m = self.member_name(n)
        if m is not None:
            return "d." + m, ident(m)
        if n.get("kind") == "DeclRefExpr" and n.get("referencedDecl", {}).get("kind") in ("ParmVarDecl", "VarDecl"):
            nm = n["referencedDecl"]["name"]
            return nm, ident(nm)
        raise Untranslatable("assignment target")

    def stmts(self, ss, env, ret, depth=0):
        """ss: list of statements; env: variable -> current Lean name; ret(env) -> final expression"""
        ind = "  " * (depth + 2)
        if not ss:
            return ret(env)
        s, rest = ss[0], ss[1:]
        k = s.get("kind")
        if k == "ReturnStmt":
            inner = s.get("inner", [])
            if not inner:
                return ret(env)
            return self.expr(inner[0], env)
        if k == "IfStmt":
            parts = [c for c in s["inner"]]
            cond, then = parts[0], parts[1]
            els = parts[2] if len(parts) > 2 else None
            a = self.stmts(self.flatten(then) + rest, dict(env), ret, depth + 1)
            b = self.stmts(self.flatten(els) + rest, dict(env), ret, depth + 1)
            return "if %s then\n%s  %s\n%selse\n%s  %s" % (self.prop(cond, env), ind, a, ind, ind, b)
        if k == "BinaryOperator" and s["opcode"] == "=":
            key, nm = self.lhs_var(s["inner"][0])
            if key not in self.assigned:
                self.assigned.append(key)
            val = self.expr(s["inner"][1], env)
            env2 = dict(env)
            env2[key] = nm
            return "let %s : Int := %s\n%s%s" % (nm, val, ind, self.stmts(rest, env2, ret, depth))
        if k == "CompoundAssignOperator" and s["opcode"] in ("-=", "+="):
            key, nm = self.lhs_var(s["inner"][0])
            if key not in self.assigned:
                self.assigned.append(key)
            cur = self.expr(s["inner"][0], env)
            val = "(%s %s %s)" % (cur, s["opcode"][0], self.expr(s["inner"][1], env))
            env2 = dict(env)
            env2[key] = nm
            return "let %s : Int := %s\n%s%s" % (nm, val, ind, self.stmts(rest, env2, ret, depth))
        if k == "CXXMemberCallExpr":
            callee = strip(s["inner"][0])
            base = strip(callee["inner"][0]) if callee.get("inner") else {}
            if callee.get("kind") == "MemberExpr" and base.get("kind") == "MemberExpr" and base.get("name") == "q":
                # Q_EMIT q->signal(args)
                args = [self.expr(a, env) for a in s["inner"][1:]]
                self.emits = True
                env2 = dict(env)
                env2["$emits"] = "emits"
                cur = env.get("$emits", "([] : List Int)")
                return "let emits : List Int := %s ++ [%s]\n%s%s" % (cur, ", ".join(args) if args else "0", ind,
                                                                 self.stmts(rest, env2, ret, depth))
            raise Untranslatable("call statement")
        if k == "NullStmt":
            return self.stmts(rest, env, ret, depth)
        if k == "DeclStmt":
            # `const T x = e;` : a let; several declarators in one statement are taken in order
            out, env2 = "", dict(env)
            for v in s.get("inner", []):
                if v.get("kind") != "VarDecl":
                    raise Untranslatable("declaration of " + str(v.get("kind")))
                init = [c for c in v.get("inner", []) if c.get("kind") not in ("FullComment",)]
                if len(init) != 1:
                    raise Untranslatable("local without initialiser: " + v.get("name", "?"))
                qt = v.get("type", {}).get("qualType", "")
                if is_bool_type(qt):
                    out += "let %s : Bool := %s\n%s" % (ident(v["name"]), self.boolean(init[0], env2), ind)
                elif is_int_type(qt):
                    out += "let %s : Int := %s\n%s" % (ident(v["name"]), self.expr(init[0], env2), ind)
                else:
                    raise Untranslatable("local of type " + qt)
                env2[v["name"]] = ident(v["name"])
            return out + self.stmts(rest, env2, ret, depth)
        raise Untranslatable("statement kind " + str(k))


def is_bool_type(qt):
    return qt.replace("const", "").strip() == "bool"


def is_int_type(qt):
    return qt.replace("const", "").strip() in ("qint64", "long long", "qlonglong")


class NbFn(Fn):
    """`QIODeviceCopierPrivate::nextBlock`: calls on the two devices are oracle inputs of the
    generated function (`src->read` -> i.readResult, `src->pos()` -> i.pos, `src->atEnd()` ->
    i.atEnd, `dest->write(_, n) == -1` -> i.writeFails n, recorded as the action `write n`),
    signals and the re-arming timer are actions."""

    def dev_call(self, n):
        n = strip(n)
        if n.get("kind") != "CXXMemberCallExpr":
            return None
        callee = strip(n["inner"][0])
        if callee.get("kind") != "MemberExpr":
            return None
        base = strip(callee["inner"][0])
        if base.get("kind") == "MemberExpr" and base.get("name") in ("src", "dest") and strip(base["inner"][0]).get("kind") == "CXXThisExpr":
            return base["name"], callee["name"], n["inner"][1:]
        return None

    def expr(self, n, env):
        m0 = strip(n)
        if m0.get("kind") == "DeclRefExpr" and str(env.get(m0.get("referencedDecl", {}).get("name"), "")).startswith("$wr:"):
            raise Untranslatable("result of dest->write used as a value")
        dc = self.dev_call(n)
        if dc:
            dev, meth, args = dc
            if (dev, meth) == ("src", "pos"):
                return "i.pos"
            if (dev, meth) == ("src", "read"):
                return "i.readResult"
            raise Untranslatable("device call %s->%s in an expression" % (dev, meth))
        m = strip(n)
        if m.get("kind") == "MemberExpr" and strip(m["inner"][0]).get("kind") == "CXXThisExpr" and m["name"] in ("bufferSize", "rangeTo", "rangeFrom"):
            return "i." + m["name"]
        return Fn.expr(self, n, env)

    def prop(self, n, env):
        m = strip(n)
        dc = self.dev_call(m)
        if dc and dc[:2] == ("src", "atEnd"):
            return "(i.atEnd = true)"
        if m.get("kind") == "MemberExpr" and strip(m["inner"][0]).get("kind") == "CXXThisExpr" and m["name"] == "stopped":
            return "(i.stopped = true)"
        if m.get("kind") == "BinaryOperator" and m["opcode"] in ("==", "!="):
            a, b = strip(m["inner"][0]), strip(m["inner"][1])
            for x, y in ((a, b), (b, a)):
                if x.get("kind") == "DeclRefExpr" and str(env.get(x.get("referencedDecl", {}).get("name"), "")).startswith("$wr:"):
                    if self.is_minus_one(y):
                        nexpr = env[x["referencedDecl"]["name"]][4:]
                        return ("(i.writeFails %s = true)" if m["opcode"] == "==" else "(¬ (i.writeFails %s = true))") % nexpr
                    raise Untranslatable("result of dest->write compared with something other than -1")
        return Fn.prop(self, n, env)

    def is_minus_one(self, n):
        n = strip(n)
        return n.get("kind") == "UnaryOperator" and n.get("opcode") == "-" and strip(n["inner"][0]).get("kind") == "IntegerLiteral" \
            and strip(n["inner"][0]).get("value") == "1"

    def stmts(self, ss, env, ret, depth=0):
        ind = "  " * (depth + 2)
        if not ss:
            return ret(env)
        s, rest = ss[0], ss[1:]
        s0 = strip(s)
        k = s0.get("kind")
        acts = env.get("$acts", "([] : List Act)")
        def push(act):
            env2 = dict(env); env2["$acts"] = "acts"
            return "let acts : List Act := %s ++ [%s]\n%s%s" % (acts, act, ind, self.stmts(rest, env2, ret, depth))
        if k == "DeclStmt":
            v = s0["inner"][0]
            init = [c for c in v.get("inner", []) if c.get("kind") not in ("FullComment",)]
            if len(s0["inner"]) == 1 and init:
                dc = self.dev_call(init[0])
                if dc and dc[:2] == ("dest", "write"):
                    # `const qint64 w = dest->write(data, n);` : the write happens here; `w` may only
                    # be compared with -1 afterwards (anything else is untranslatable)
                    nexpr = self.expr(dc[2][-1], env)
                    env2 = dict(env); env2["$acts"] = "acts"; env2[v["name"]] = "$wr:" + nexpr
                    return "let acts : List Act := %s ++ [.write %s]\n%s%s" % (acts, nexpr, ind, self.stmts(rest, env2, ret, depth))
            if not init or strip(init[0]).get("kind") in ("CXXConstructExpr",):
                self.locals_skipped = getattr(self, "locals_skipped", set()) | {v["name"]}
                return self.stmts(rest, env, ret, depth)
            return Fn.stmts(self, ss, env, ret, depth)
        if k == "CXXMemberCallExpr":
            callee = strip(s0["inner"][0])
            base = strip(callee["inner"][0]) if callee.get("inner") else {}
            if base.get("kind") == "DeclRefExpr" and base.get("referencedDecl", {}).get("name") in getattr(self, "locals_skipped", set()):
                return self.stmts(rest, env, ret, depth)        # data.resize(bufferSize): storage only
            if callee.get("kind") == "MemberExpr" and base.get("kind") == "MemberExpr" and base.get("name") == "q":
                if callee["name"] in ("error", "finished"):
                    return push(".%s" % ("error" if callee["name"] == "error" else "finished"))
            if callee.get("kind") == "MemberExpr" and base.get("kind") == "CXXThisExpr" and callee["name"] in getattr(self, "helpers", {}):
                # a private helper of the same class: inlined, provided it has no `return` and does not
                # use its parameters in anything translated (they only carry the error text)
                hb = self.flatten(body_of(self.helpers[callee["name"]]))
                if has_kind(self.helpers[callee["name"]], "ReturnStmt") or callee["name"] in getattr(self, "inlining", ()):
                    raise Untranslatable("helper %s cannot be inlined" % callee["name"])
                self.inlining = getattr(self, "inlining", ()) + (callee["name"],)
                try:
                    return self.stmts(hb + rest, env, ret, depth)
                finally:
                    self.inlining = self.inlining[:-1]
            raise Untranslatable("call statement " + str(callee.get("name")))
        if k == "CallExpr":
            fn = strip(s0["inner"][0])
            if fn.get("kind") == "DeclRefExpr" and fn.get("referencedDecl", {}).get("name") == "singleShot":
                return push(".requeue")
            raise Untranslatable("call to a free function")
        if k == "IfStmt":
            cond = strip(s0["inner"][0])
            # if (dest->write(data, n) == -1) ...
            if cond.get("kind") == "BinaryOperator" and cond["opcode"] == "==":
                dc = self.dev_call(cond["inner"][0])
                if dc and dc[:2] == ("dest", "write"):
                    nexpr = self.expr(dc[2][-1], env)
                    env2 = dict(env); env2["$acts"] = "acts"
                    then = s0["inner"][1]; els = s0["inner"][2] if len(s0["inner"]) > 2 else None
                    a = self.stmts(self.flatten(then) + rest, dict(env2), ret, depth + 1)
                    b = self.stmts(self.flatten(els) + rest, dict(env2), ret, depth + 1)
                    return "let acts : List Act := %s ++ [.write %s]\n%sif (i.writeFails %s = true) then\n%s  %s\n%selse\n%s  %s" % (
                        acts, nexpr, ind, nexpr, ind, a, ind, ind, b)
            parts = s0["inner"]
            then = parts[1]; els = parts[2] if len(parts) > 2 else None
            a = self.stmts(self.flatten(then) + rest, dict(env), ret, depth + 1)
            b = self.stmts(self.flatten(els) + rest, dict(env), ret, depth + 1)
            return "if %s then\n%s  %s\n%selse\n%s  %s" % (self.prop(parts[0], env), ind, a, ind, ind, b)
        if k == "ReturnStmt":
            if s0.get("inner"):
                raise Untranslatable("return with a value")
            return ret(env)
        if k == "CompoundAssignOperator" and s0["opcode"] in ("-=", "+="):
            lhs = strip(s0["inner"][0])
            if lhs.get("kind") == "DeclRefExpr":
                nm = lhs["referencedDecl"]["name"]
                cur = env.get(nm, ident(nm))
                val = "(%s %s %s)" % (cur, s0["opcode"][0], self.expr(s0["inner"][1], env))
                env2 = dict(env); env2[nm] = ident(nm)
                return "let %s : Int := %s\n%s%s" % (ident(nm), val, ind, self.stmts(rest, env2, ret, depth))
        return Fn.stmts(self, ss, env, ret, depth)


def has_kind(n, kind):
    if n.get("kind") == kind:
        return True
    return any(has_kind(c, kind) for c in n.get("inner", []) or [])


def body_of(decl):
    for c in decl.get("inner", []):
        if c.get("kind") == "CompoundStmt":
            return c
    return None


def params_of(decl):
    return [c["name"] for c in decl.get("inner", []) if c.get("kind") == "ParmVarDecl"]


def enum_values(docs, cls):
    """all enum constants declared in class `cls` (explicit values through ConstantExpr, else ordinal)"""
    out = {}
    for d in docs:
        if d.get("kind") == "CXXRecordDecl" and d.get("name") == cls:
            for c in d.get("inner", []):
                if c.get("kind") == "EnumDecl":
                    nxt = 0
                    for e in c.get("inner", []):
                        if e.get("kind") != "EnumConstantDecl":
                            continue
                        val = None
                        for x in e.get("inner", []):
                            v = find_value(x)
                            if v is not None:
                                val = v
                        if val is None:
                            val = nxt
                        out[e["name"]] = val
                        nxt = val + 1
    return out


def find_value(n):
    if n.get("kind") == "ConstantExpr" and "value" in n:
        return int(n["value"])
    for c in n.get("inner", []) or []:
        v = find_value(c)
        if v is not None:
            return v
    return None


def string_literal(n):
    n = strip(n)
    if n.get("kind") == "StringLiteral":
        return json.loads(n["value"]) if n["value"].startswith('"') else n["value"]
    for c in n.get("inner", []) or []:
        v = string_literal(c)
        if v is not None:
            return v
    return None


def lean_bytes(s):
    return "[" + ", ".join(str(b) for b in s.encode("latin-1")) + "]"


def switch_table(decl, enums):
    """switch (x) { case C: return "lit"; ... default: return "lit"; }  ->  [(int, str)], default"""
    body = body_of(decl)
    sw = None
    for c in body.get("inner", []):
        if c.get("kind") == "SwitchStmt":
            sw = c
    if sw is None:
        raise Untranslatable("no switch")
    comp = [c for c in sw["inner"] if c.get("kind") == "CompoundStmt"][0]
    table, default = [], None
    for c in comp.get("inner", []):
        if c.get("kind") == "CaseStmt":
            label = strip(c["inner"][0])
            val = find_value(c["inner"][0])
            if val is None:
                rd = label.get("referencedDecl", {})
                val = enums.get(rd.get("name"))
            if val is None:
                raise Untranslatable("case label")
            lit = string_literal(c["inner"][-1])
            if lit is None:
                raise Untranslatable("case body is not `return \"literal\"`")
            table.append((val, lit))
        elif c.get("kind") == "DefaultStmt":
            default = string_literal(c["inner"][-1])
            if default is None:
                default = ""
        else:
            raise Untranslatable("switch body")
    return table, default


def if_chain_table(decl, enums):
    """if (parts[0] == "LIT") { method = Socket::X; } else if ...  ->  [(lit, int)] in order"""
    out = []
    def walk(n):
        if n.get("kind") == "IfStmt":
            cond, then = n["inner"][0], n["inner"][1]
            lit = string_literal(cond)
            tgt = None
            def find_enum(m):
                nonlocal tgt
                if m.get("kind") == "DeclRefExpr" and m.get("referencedDecl", {}).get("kind") == "EnumConstantDecl":
                    tgt = m["referencedDecl"]["name"]
                for c in m.get("inner", []) or []:
                    find_enum(c)
            find_enum(then)
            if lit is not None and tgt is not None and tgt in enums:
                out.append((lit, enums[tgt]))
            if len(n["inner"]) > 2:
                walk(n["inner"][2])
        else:
            for c in n.get("inner", []) or []:
                if c.get("kind") in ("CompoundStmt", "IfStmt"):
                    walk(c)
    # only the if-chains whose condition compares with a string literal and whose body assigns an enum
    for c in body_of(decl).get("inner", []):
        if c.get("kind") == "IfStmt":
            before = len(out)
            walk(c)
    return out


def init_list_table(decl, enums):
    """static const struct { const char *token; Socket::Method method; } T[] = { {"LIT", Socket::X}, ... };
    scanned by a loop that takes the first equal token  ->  [(lit, int)] in order"""
    out = []
    def enum_of(m):
        if m.get("kind") == "DeclRefExpr" and m.get("referencedDecl", {}).get("kind") == "EnumConstantDecl":
            return m["referencedDecl"]["name"]
        for c in m.get("inner", []) or []:
            r = enum_of(c)
            if r is not None:
                return r
        return None
    def walk(n):
        if n.get("kind") == "VarDecl":
            for c in n.get("inner", []) or []:
                if c.get("kind") == "InitListExpr":
                    rows = [r for r in c.get("inner", []) if r.get("kind") == "InitListExpr"]
                    got = []
                    for r in rows:
                        cells = r.get("inner", [])
                        if len(cells) != 2:
                            return
                        lit, en = string_literal(cells[0]), enum_of(cells[1])
                        if lit is None or en is None or en not in enums:
                            return
                        got.append((lit, enums[en]))
                    if got and len(got) == len(rows):
                        out.extend(got)
            return
        for c in n.get("inner", []) or []:
            walk(c)
    walk(body_of(decl))
    return out


def version_literals(decl, fetch=None):
    """string literals compared with != in the condition that guards the version check"""
    lits = []
    def walk(n):
        if n.get("kind") == "StringLiteral":
            v = json.loads(n["value"])
            if v.startswith("HTTP/"):
                lits.append(v)
        for c in n.get("inner", []) or []:
            walk(c)
    walk(body_of(decl))
    if not lits and fetch is not None:
        # the comparison may have been moved into file-scope helper functions: follow the calls, one level at a time
        seen, todo = set(), [body_of(decl)]
        while todo and not lits:
            names = []
            def calls(n):
                if n.get("kind") == "DeclRefExpr" and (n.get("referencedDecl") or {}).get("kind") == "FunctionDecl":
                    nm = n["referencedDecl"].get("name")
                    if nm and nm not in seen:
                        seen.add(nm); names.append(nm)
                for c in n.get("inner", []) or []:
                    calls(c)
            for b in todo:
                calls(b)
            todo = []
            for nm in names:
                for d in fetch(nm):
                    if d.get("kind") == "FunctionDecl" and d.get("name") == nm and body_of(d) is not None:
                        walk(body_of(d)); todo.append(body_of(d))
    return lits


HEADER = "-- GENERATED on every run by tools/cxx2lean.py from %s — do not edit.\n"


def main():
    ap = argparse.ArgumentParser()
    ap.add_argument("--repo", default="/repo")
    ap.add_argument("--out", required=True)
    ap.add_argument("--export-dir", default=None)
    a = ap.parse_args()
    repo = a.repo
    exp = a.export_dir
    if not exp:
        for cand in [os.path.join(repo, "_build", "src")]:
            if os.path.exists(os.path.join(cand, "qhttpengine_export.h")):
                exp = cand
        if not exp:
            # generate the export header ourselves (configure_file with the version numbers)
            exp = os.path.join(os.path.dirname(os.path.abspath(a.out)), ".lake", "export")
            os.makedirs(exp, exist_ok=True)
            src = open(os.path.join(repo, "src", "qhttpengine_export.h.in")).read()
            top = open(os.path.join(repo, "CMakeLists.txt")).read()
            nums = []
            for key in ("MAJOR", "MINOR", "PATCH"):
                m = re.search(r"PROJECT_VERSION_%s\s+(\d+)" % key, top)
                nums.append(m.group(1) if m else "0")
                src = src.replace("@PROJECT_VERSION_%s@" % key, nums[-1])
            src = src.replace("@PROJECT_VERSION@", ".".join(nums))
            src = re.sub(r"#cmakedefine\s+BUILD_SHARED_LIBS", "/* static */", src)
            open(os.path.join(exp, "qhttpengine_export.h"), "w").write(src)
    os.makedirs(a.out, exist_ok=True)
    done, failed = [], []
    files = {}

    # ------------------------------------------------------------------ Range
    try:
        docs = clang_ast(repo, "range.cpp", "QHttpEngine::Range::", exp)
        fns = {}
        for d in docs:
            if d.get("kind") in ("CXXMethodDecl", "CXXConstructorDecl") and body_of(d) is not None:
                key = d["name"] + "/" + str(len(params_of(d))) if d["kind"] == "CXXConstructorDecl" else d["name"]
                fns[key] = d
        out = [HEADER % "src/src/range.cpp", "namespace QhttpGen.Range\n",
               "/-- `RangePrivate` -/\nstructure St where\n  frm : Int\n  to : Int\n  dataSize : Int\nderiving DecidableEq, Repr\n"]
        sib = ["isValid", "from", "to", "dataSize", "length"]
        order = ["dataSize", "isValid", "from", "to", "length"]
        for name in order:
            if name not in fns:
                failed.append("Range::" + name + " (not found)")
                continue
            f = Fn(members=["from", "to", "dataSize"], siblings=sib)
            try:
                body = f.stmts(f.flatten(body_of(fns[name])), {}, lambda env: "(0 : Int) /- fell off the end -/")
                ty = "Bool" if name == "isValid" else "Int"
                out.append("/-- `Range::%s()` -/\ndef %s (s : St) : %s :=\n    %s\n" % (name, ident(name + "_"), ty, body))
                done.append("Range::" + name)
            except Untranslatable as e:
                failed.append("Range::%s (%s)" % (name, e))
        # the numeric constructor
        key = "Range/3"
        if key in fns:
            f = Fn(members=["from", "to", "dataSize"])
            ps = params_of(fns[key])
            try:
                def fin(env):
                    return "{ frm := %s, to := %s, dataSize := %s }" % (env.get("d.from", "0"), env.get("d.to", "0"), env.get("d.dataSize", "0"))
                # parameters shadow: rename parameters p -> p_in
                env0 = {p: ident(p) + "_in" for p in ps}
                body = f.stmts(f.flatten(body_of(fns[key])), env0, fin)
                out.append("/-- `Range::Range(qint64 from, qint64 to, qint64 dataSize)` -/\ndef ctor3 (%s : Int) : St :=\n    %s\n"
                           % (" ".join(ident(p) + "_in" for p in ps), body))
                done.append("Range::Range(qint64,qint64,qint64)")
            except Untranslatable as e:
                failed.append("Range::Range/3 (%s)" % e)
        # copy-with-size constructor Range(const Range &other, qint64 dataSize)
        key = "Range/2"
        if key in fns:
            f = Fn(members=["from", "to", "dataSize"])
            ps = params_of(fns[key])
            try:
                def fin2(env):
                    return "{ frm := %s, to := %s, dataSize := %s }" % (env.get("d.from", "0"), env.get("d.to", "0"), env.get("d.dataSize", "0"))
                env0 = {p: ident(p) + "_in" for p in ps if p != "other"}
                body = f.stmts(f.flatten(body_of(fns[key])), env0, fin2)
                out.append("/-- `Range::Range(const Range &other, qint64 dataSize)` -/\ndef ctorResize (o : St) (%s : Int) : St :=\n    %s\n"
                           % (" ".join(ident(p) + "_in" for p in ps if p != "other"), body))
                done.append("Range::Range(const Range&,qint64)")
            except Untranslatable as e:
                failed.append("Range::Range/2 (%s)" % e)
        out.append("end QhttpGen.Range\n")
        files["Range.lean"] = "\n".join(out)
    except Exception as e:
        failed.append("range.cpp (%s)" % str(e)[:200])

    # ------------------------------------------------------------------ socket.cpp: onBytesWritten, statusReason
    try:
        docs = clang_ast(repo, "socket.cpp", "QHttpEngine::", exp)
        enums = enum_values(docs, "SocketPrivate")
        senums = enum_values(docs, "Socket")
        out = [HEADER % "src/src/socket.cpp", "namespace QhttpGen.Ack\n"]
        out.append("/-- values of the write-state enum of `SocketPrivate` -/")
        for nm in ("WriteNone", "WriteHeaders", "WriteData", "WriteFinished"):
            if nm in enums:
                out.append("def %s : Int := %d" % (nm, enums[nm]))
        out.append("")
        for d in docs:
            if d.get("kind") == "CXXMethodDecl" and d.get("name") == "onBytesWritten" and body_of(d) is not None:
                f = Fn(members=["writeState", "responseHeaderRemaining"], enums=enums)
                try:
                    def fin(env):
                        return "(%s, %s, %s)" % (env.get("d.writeState", "s.writeState"),
                                                 env.get("d.responseHeaderRemaining", "s.responseHeaderRemaining"),
                                                 env.get("$emits", "([] : List Int)"))
                    body = f.stmts(f.flatten(body_of(d)), {}, fin)
                    out.append("structure St where\n  writeState : Int\n  responseHeaderRemaining : Int\n")
                    out.append("/-- `SocketPrivate::onBytesWritten(bytes)`: new writeState, new responseHeaderRemaining, emitted counts -/\n"
                               "def onBytesWritten (s : St) (bytes : Int) : Int × Int × List Int :=\n    %s\n" % body)
                    done.append("SocketPrivate::onBytesWritten")
                except Untranslatable as e:
                    failed.append("SocketPrivate::onBytesWritten (%s)" % e)
        out.append("end QhttpGen.Ack\n")
        files["Ack.lean"] = "\n".join(out)

        tab = [HEADER % "src/src/socket.cpp, parser.cpp, proxysocket.cpp", "namespace QhttpGen.Tables\n"]
        for d in docs:
            if d.get("kind") == "CXXMethodDecl" and d.get("name") == "statusReason" and body_of(d) is not None:
                try:
                    table, default = switch_table(d, senums)
                    tab.append("/-- `SocketPrivate::statusReason`: (code, phrase) per case, then the default phrase -/")
                    tab.append("def statusReasons : List (Int × List UInt8) :=\n  [" + ",\n   ".join("(%d, %s)" % (c, lean_bytes(s)) for c, s in table) + "]")
                    tab.append("def statusReasonDefault : List UInt8 := %s\n" % lean_bytes(default or ""))
                    done.append("SocketPrivate::statusReason")
                except Untranslatable as e:
                    failed.append("SocketPrivate::statusReason (%s)" % e)
        tab.append("/-- `Socket::Method` enum values -/")
        tab.append("def methodEnum : List (List UInt8 × Int) :=\n  [" + ",\n   ".join(
            "(%s, %d)" % (lean_bytes(k), v) for k, v in senums.items()
            if k in ("OPTIONS", "GET", "HEAD", "POST", "PUT", "DELETE", "TRACE", "CONNECT")) + "]\n")
        # parser.cpp: method token chain and version literals
        pdocs = clang_ast(repo, "parser.cpp", "QHttpEngine::Parser::parseRequestHeaders", exp)
        for d in pdocs:
            if d.get("kind") == "CXXMethodDecl" and body_of(d) is not None:
                chain = if_chain_table(d, senums)
                if not chain:
                    chain = init_list_table(d, senums)
                if not chain:
                    failed.append("Parser::parseRequestHeaders (no method-token chain or table found)")
                vers = version_literals(d, lambda nm: clang_ast(repo, "parser.cpp", nm, exp))
                tab.append("/-- the token chain of `Parser::parseRequestHeaders`, in order -/")
                tab.append("def methodTokens : List (List UInt8 × Int) :=\n  [" + ",\n   ".join("(%s, %d)" % (lean_bytes(l), v) for l, v in chain) + "]")
                tab.append("/-- the accepted protocol versions -/")
                tab.append("def versions : List (List UInt8) := [" + ", ".join(lean_bytes(v) for v in vers) + "]\n")
                done.append("Parser::parseRequestHeaders (tables)")
        # proxysocket.cpp: methodToString
        xdocs = clang_ast(repo, "proxysocket.cpp", "ProxySocket::methodToString", exp)
        for d in xdocs:
            if d.get("kind") == "CXXMethodDecl" and body_of(d) is not None:
                try:
                    table, default = switch_table(d, senums)
                    tab.append("/-- `ProxySocket::methodToString` -/")
                    tab.append("def methodToString : List (Int × List UInt8) :=\n  [" + ",\n   ".join("(%d, %s)" % (c, lean_bytes(s)) for c, s in table) + "]\n")
                    done.append("ProxySocket::methodToString")
                except Untranslatable as e:
                    failed.append("ProxySocket::methodToString (%s)" % e)
        tab.append("end QhttpGen.Tables\n")
        files["Tables.lean"] = "\n".join(tab)
    except Exception as e:
        failed.append("socket.cpp/parser.cpp (%s)" % str(e)[:300])

    # ------------------------------------------------------------------ qiodevicecopier.cpp: nextBlock
    try:
        docs = clang_ast(repo, "qiodevicecopier.cpp", "QHttpEngine::QIODeviceCopierPrivate", exp)
        out = [HEADER % "src/src/qiodevicecopier.cpp", "namespace QhttpGen.Copier\n",
               "/-- what one call of `nextBlock()` does, in order -/\ninductive Act\n  | write (n : Int)      -- dest->write(data, n)\n  | error | finished | requeue\nderiving DecidableEq, Repr\n",
               "/-- the private members read and what the two devices answer during this call -/\nstructure In where\n  stopped : Bool\n  bufferSize : Int\n  rangeTo : Int\n  readResult : Int            -- src->read(data, bufferSize)\n  pos : Int                   -- src->pos() after the read\n  atEnd : Bool                -- src->atEnd() after the read\n  writeFails : Int → Bool     -- dest->write(data, n) == -1\n"]
        helpers = {}
        def collect(n):
            if n.get("kind") == "CXXMethodDecl" and body_of(n) is not None and n.get("name") != "nextBlock":
                helpers[n["name"]] = n
            for c in n.get("inner", []) or []:
                if c.get("kind") in ("CXXRecordDecl", "CXXMethodDecl", "NamespaceDecl"):
                    collect(c)
        for d in docs:
            collect(d)
        nbs = []
        def find_nb(n):
            if n.get("kind") == "CXXMethodDecl" and n.get("name") == "nextBlock" and body_of(n) is not None:
                nbs.append(n)
            for c in n.get("inner", []) or []:
                if c.get("kind") in ("CXXRecordDecl", "NamespaceDecl"):
                    find_nb(c)
        for d in docs:
            find_nb(d)
        if not nbs:
            failed.append("QIODeviceCopierPrivate::nextBlock (not found)")
        for d in nbs[:1]:
            if True:
                f = NbFn()
                f.helpers = helpers
                try:
                    body = f.stmts(f.flatten(body_of(d)), {}, lambda env: env.get("$acts", "([] : List Act)"))
                    out.append("/-- `QIODeviceCopierPrivate::nextBlock()` -/\ndef nextBlock (i : In) : List Act :=\n    %s\n" % body)
                    done.append("QIODeviceCopierPrivate::nextBlock")
                except Untranslatable as e:
                    failed.append("QIODeviceCopierPrivate::nextBlock (%s)" % e)
        out.append("end QhttpGen.Copier\n")
        files["Copier.lean"] = "\n".join(out)
    except Exception as e:
        failed.append("qiodevicecopier.cpp (%s)" % str(e)[:300])

    # ------------------------------------------------------------------ socket.cpp: the member functions, over the model's state
    try:
        import cxx2lean_qt
        text, d2, f2 = cxx2lean_qt.translate_socket(repo, exp)
        files["Sock.lean"] = text
        done += d2
        failed += f2
        # parser.cpp: a function outside the translated subset is replaced by the model's (tie by correspondence only);
        # that is reported, not counted as a failure
        text, d3, f3, stubs = cxx2lean_qt.translate_parser(repo, exp)
        files["Parser.lean"] = text
        done += d3
        fallback = ["%s" % x for x in f3]
        # filesystemhandler.cpp: containment and dispatch
        text, d5, f5 = cxx2lean_qt.translate_fs(repo, exp)
        files["Fs.lean"] = text
        done += d5
        failed += f5
        # basicauthmiddleware.cpp: the admission decision and the challenge
        text, d6, f6 = cxx2lean_qt.translate_auth(repo, exp)
        files["Auth.lean"] = text
        done += d6
        failed += f6
        # qobjecthandler.cpp: the dispatch decision of process()
        text, d7, f7 = cxx2lean_qt.translate_slot(repo, exp)
        files["Slot.lean"] = text
        done += d7
        failed += f7
        # server.cpp: what incomingConnection() does with a new connection
        text, d8, f8 = cxx2lean_qt.translate_srv(repo, exp)
        files["Srv.lean"] = text
        done += d8
        failed += f8
        # handler.cpp: Handler::route, one node of the tree
        text, d10, f10 = cxx2lean_qt.translate_route(repo, exp)
        files["Route.lean"] = text
        done += d10
        failed += f10
        # proxyhandler.cpp: what process() does with the socket it is handed
        text, d9, f9 = cxx2lean_qt.translate_ph(repo, exp)
        files["Ph.lean"] = text
        done += d9
        failed += f9
        # proxysocket.cpp: the upstream-side slots and the buffering slot, over the model's Proxy.St
        text, d4, f4 = cxx2lean_qt.translate_proxy(repo, exp)
        files["Proxy.lean"] = text
        done += d4
        failed += f4
    except Exception as e:
        failed.append("socket.cpp member functions (%s)" % str(e)[:300])

    sha = hashlib.sha256()
    for name, content in sorted(files.items()):
        path = os.path.join(a.out, name)
        old = open(path).read() if os.path.exists(path) else None
        if old != content:
            open(path, "w").write(content)
        sha.update(content.encode())
    print(json.dumps({"functions": done, "untranslatable": failed, "fallback_to_correspondence": locals().get("fallback", []), "output_sha": sha.hexdigest()[:16]}))
    return 0 if not failed else 3


if __name__ == "__main__":
    sys.exit(main())
