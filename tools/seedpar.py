#!/usr/bin/env python3
"""Run checks against seeded / neutral changes in isolated scratch copies, several at a time.

  python3 tools/seedpar.py [-j N] [--props=C01,C02|all|target] [--tier quick] <dir with patch.diff> ...

For each directory: a scratch git worktree of /repo and a scratch copy of /verif (with its build
output, so nothing is rebuilt that the patch does not touch) are made under /tmp/sp/<id>/, the patch is
applied to the scratch worktree, the checks run there with VERIF_REPO pointing at it, the results are
merged into <dir>/check_results.json and the scratch copies are removed.  /repo itself is never
touched, so this can run while other checks use /repo."""
import json, os, shutil, subprocess, sys, time
from concurrent.futures import ThreadPoolExecutor
ROOT = os.path.dirname(os.path.dirname(os.path.abspath(__file__)))
REPO = "/repo"
IDS = [json.loads(l)["id"] for l in open(os.path.join(ROOT, "properties.jsonl"))]


def one(d, which, tier):
    d = os.path.abspath(d)
    sid = os.path.basename(d.rstrip("/"))
    base = "/tmp/sp/" + sid
    shutil.rmtree(base, ignore_errors=True)
    subprocess.run(["git", "-C", REPO, "worktree", "prune"], capture_output=True)
    os.makedirs(base)
    rw, vw = base + "/repo", base + "/verif"
    out = {}
    try:
        p = subprocess.run(["git", "-C", REPO, "worktree", "add", "--detach", "-f", rw, "HEAD"], capture_output=True, text=True)
        if p.returncode != 0:
            return sid, {"error": "worktree: " + p.stderr[-300:]}
        p = subprocess.run(["git", "-C", rw, "apply", os.path.join(d, "patch.diff")], capture_output=True, text=True)
        if p.returncode != 0:
            return sid, {"error": "patch does not apply: " + p.stderr[-300:]}
        subprocess.run(["rsync", "-a", "--exclude", ".git", "--exclude", "replay", "--exclude", "seeded", "--exclude", "neutral",
                        "--exclude", "hb-*", ROOT + "/", vw + "/"], check=False)      # (24 = a file vanished under a concurrent build)
        meta = json.load(open(os.path.join(d, "meta.json"))) if os.path.exists(os.path.join(d, "meta.json")) else {}
        target = meta.get("property")
        if which == "touched" or (which == "target" and not target):
            # the properties whose theorems, bridges or scenarios exercise the files the change touches
            by_file = {"range.cpp": ["C16", "C08"], "qiodevicecopier.cpp": ["C14", "C08", "C11"],
                       "socket.cpp": ["C01", "C02", "C03", "C04", "C11", "C18", "C19"],
                       "parser.cpp": ["C01", "C04", "C11", "C12", "C13"], "proxysocket.cpp": ["C12", "C13"],
                       "filesystemhandler.cpp": ["C07", "C08"], "handler.cpp": ["C05", "C06"],
                       "basicauthmiddleware.cpp": ["C09"], "localauthmiddleware.cpp": ["C17"], "qobjecthandler.cpp": ["C15"],
                       "server.cpp": ["C10", "C20"], "proxyhandler.cpp": ["C12", "C10"]}
            touched = subprocess.run(["git", "-C", rw, "diff", "--name-only"], capture_output=True, text=True).stdout.split()
            pids = []
            for f in touched:
                for pid in by_file.get(os.path.basename(f), IDS if f.endswith((".cpp", ".h")) else []):
                    if pid not in pids:
                        pids.append(pid)
            pids = pids or list(IDS)
        elif which == "target":
            pids = [target]
        elif which == "all":
            pids = ([target] if target else []) + [i for i in IDS if i != target]
        else:
            pids = which.split(",")
        env = dict(os.environ, VERIF_REPO=rw)
        for pid in pids:
            t0 = time.time()
            r = subprocess.run([sys.executable, os.path.join(vw, "tools", "check.py"), pid, "--tier", tier],
                               capture_output=True, text=True, cwd=vw, env=env)
            line = [l for l in r.stdout.splitlines() if l.startswith(("VIOLATION", "OK ", "CHECK-BROKEN"))]
            verdict = line[-1] if line else "exit %d %s" % (r.returncode, r.stderr[-200:])
            kind = "ok" if r.returncode == 0 else ("broken" if r.returncode == 2 else
                    ("divergence-only" if "no-failing-input-found" in verdict else "failing-input"))
            rp = None
            if "replay=" in verdict:
                src = verdict.split("replay=")[1].split()[0]
                try:
                    rp = json.load(open(src))
                except Exception:
                    rp = None
            out[pid] = {"exit": r.returncode, "kind": kind, "verdict": verdict[:300].replace(vw, "/verif"), "wall_s": round(time.time() - t0, 1)}
            if rp is not None:
                out[pid]["replay_scenario"] = [s[:400] for s in rp.get("scenario_lines", [])[:2]]
                if rp.get("undischarged_theorems"):
                    out[pid]["undischarged"] = [u[0] for u in rp["undischarged_theorems"]][:8]
    finally:
        subprocess.run(["git", "-C", REPO, "worktree", "remove", "--force", rw], capture_output=True)
        shutil.rmtree(base, ignore_errors=True)
        subprocess.run(["git", "-C", REPO, "worktree", "prune"], capture_output=True)
    old = {}
    f = os.path.join(d, "check_results.json")
    if os.path.exists(f):
        try:
            old = json.load(open(f))
        except Exception:
            old = {}
    old.update(out)
    json.dump(old, open(f, "w"), indent=1)
    return sid, out


def main():
    j, which, tier, dirs = 4, "target", "quick", []
    args = sys.argv[1:]
    while args:
        a = args.pop(0)
        if a == "-j":
            j = int(args.pop(0))
        elif a.startswith("--props="):
            which = a[8:]
        elif a == "--tier":
            tier = args.pop(0)
        else:
            dirs.append(a)
    with ThreadPoolExecutor(max_workers=j) as ex:
        for sid, out in ex.map(lambda d: one(d, which, tier), dirs):
            if "error" in out:
                print(sid, "ERROR", out["error"], flush=True)
                continue
            print(sid, " ".join("%s:%s" % (p, o["kind"]) for p, o in out.items() if o["kind"] != "ok") or "all-ok",
                  "(%d checks)" % len(out), flush=True)


if __name__ == "__main__":
    main()
