#!/usr/bin/env python3
"""False-alarm test: apply a behaviour-preserving rewrite of /repo, run every property's quick
check, undo.  Any VIOLATION here is a false alarm of the machinery (to be corrected).
  python3 tools/neutraltest.py <dir with patch.diff> [<dir> ...]"""
import json, os, subprocess, sys, time
ROOT = os.path.dirname(os.path.dirname(os.path.abspath(__file__)))
REPO = "/repo"
ids = [json.loads(l)["id"] for l in open(os.path.join(ROOT, "properties.jsonl"))]
for d in sys.argv[1:]:
    patch = os.path.abspath(os.path.join(d, "patch.diff"))
    st = subprocess.run(["git", "-C", REPO, "status", "--porcelain", "--untracked-files=no"], capture_output=True, text=True).stdout.strip()
    if st:
        print("refusing: /repo has local modifications"); sys.exit(2)
    if subprocess.run(["git", "-C", REPO, "apply", patch]).returncode != 0:
        print("patch does not apply", d); continue
    res = {}
    print("===", d, flush=True)
    try:
        for pid in ids:
            r = subprocess.run([sys.executable, os.path.join(ROOT, "tools", "check.py"), pid, "--tier", "quick"], capture_output=True, text=True, cwd=ROOT)
            line = [l for l in r.stdout.splitlines() if l.startswith(("VIOLATION", "OK ", "CHECK-BROKEN"))]
            v = line[-1] if line else "exit %d" % r.returncode
            res[pid] = {"exit": r.returncode, "verdict": v[:300]}
            if r.returncode != 0:
                print(pid, r.returncode, v[:200], flush=True)
    finally:
        subprocess.run(["git", "-C", REPO, "checkout", "--", "."])
    json.dump(res, open(os.path.join(d, "check_results.json"), "w"), indent=1)
    print("   alarms:", [p for p in res if res[p]["exit"] != 0], flush=True)
