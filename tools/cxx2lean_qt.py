#!/usr/bin/env python3
"""cxx2lean_qt: second translator — member functions of a Qt class to Lean functions over the MODEL's state.

Where cxx2lean.py translates scalar code into self-contained definitions, this one translates the
control flow and the member updates of `SocketPrivate` / `Socket` (src/src/socket.cpp) into functions
`env app s ↦ s'` over `Qhttp.Sock`, written in the vocabulary of `Qhttp/Model/CxxPrim.lean` (one
definition per Qt call / signal emission).  The bridge theorems (`QhttpBridge/Sock.lean`) then say that
each translated function IS the model's function.

Supported C++ (anything else: the function is reported untranslatable, never guessed):
  statements  : compound, if/else, switch with `break`-terminated cases, return, declarations with
                initialiser (int/qint64/bool/QByteArray) or default-constructed QByteArray, assignments and
                += -= to members/locals, calls (siblings, q->public(), Q_EMIT q->signal(), Qt calls listed
                in CALLS), `for (auto i = map.constBegin(); i != map.constEnd(); ++i)` and the equivalent
                `while` over a header map whose body only appends to a local QByteArray
  expressions : literals, locals, members, + - on ints, + on byte arrays, comparisons, && || !, ?:,
                static_cast, qMin/qMax, QByteArray/QMultiMap accessors
Statements are translated in continuation style; an `if` without `return` inside is a join
(`let (s, x) := if c then … else …`), one with `return` duplicates the rest of the function.
A call that changes the state inside a condition is evaluated in C++ order (short-circuit kept).
"""
import json, re
from cxx2lean import clang_ast, body_of, params_of, enum_values, Untranslatable

QSTR_AS_BYTES = [False]        # filesystemhandler.cpp: QString paths are UTF-8 byte strings in the model
PURE_CLASSES = ("Parser",)      # classes whose member functions are static and touch no object state

WRAP = ("ImplicitCastExpr", "ExprWithCleanups", "MaterializeTemporaryExpr", "CXXBindTemporaryExpr", "ConstantExpr",
        "CXXFunctionalCastExpr", "CStyleCastExpr", "CXXStaticCastExpr", "ParenExpr")


def kids(n):
    return [c for c in n.get("inner", []) or [] if c.get("kind") not in ("FullComment",)]


def strip(n):
    while True:
        k = n.get("kind")
        if k in WRAP:
            ks = kids(n)
            if len(ks) != 1:
                return n
            n = ks[0]
            continue
        if k in ("CXXConstructExpr", "CXXTemporaryObjectExpr"):
            # conversions QByteArray(const char*), IByteArray(x), QString(const char*), copies
            ks = [c for c in kids(n) if c.get("kind") != "CXXDefaultArgExpr"]
            if len(ks) == 1:
                n = ks[0]
                continue
        return n


def qt(n):
    return n.get("type", {}).get("qualType", "")


def ty_of(q):
    q0 = q.replace("const ", "").replace("&", "").strip()
    if q0 == "bool":
        return "bool"
    if q0 in ("int", "qint64", "long long", "qlonglong", "long", "unsigned int", "uint", "qsizetype", "quint64", "unsigned long long"):
        return "int"
    if "HeaderMap" in q0 or "QMultiMap<QHttpEngine::IByteArray" in q0 or "QMap<QHttpEngine::IByteArray" in q0 or "QMap<IByteArray" in q0 or "QMultiMap<IByteArray" in q0:
        return "hmap"
    if "QList<QByteArray>" in q0 or "QByteArrayList" in q0:
        return "blist"
    if q0.endswith("Socket::Method"):
        return "int"
    if q0.endswith("QObjectHandlerPrivate::Method"):
        return "reg"
    if ROUTE_TYPES[0]:
        q1 = q0.replace("QHttpEngine::", "").replace(" ", "")
        if q1 in ("QList<Middleware*>",):
            return "mwlist"
        if q1 in ("QList<Redirect>", "QList<QPair<QRegExp,QString>>"):
            return "redirlist"
        if q1 in ("QList<SubHandler>", "QList<QPair<QRegExp,Handler*>>"):
            return "sublist"
        if q1 == "Middleware*":
            return "mwp"
        if q1 in ("Redirect", "QPair<QRegExp,QString>"):
            return "redir"
        if q1 in ("SubHandler", "QPair<QRegExp,Handler*>"):
            return "subh"
        if q1 == "QStringList":
            return "qslist"
    if "QByteArray" in q0 or "IByteArray" in q0 or q0.startswith("char") or "char *" in q0 or "char[" in q0:
        return "bytes"
    if "QJsonDocument" in q0:
        return "json"
    if "QString" in q0:
        return "bytes" if QSTR_AS_BYTES[0] else "qstr"
    if q0 == "void":
        return "void"
    return "?" + q0


ROUTE_TYPES = [False]
LIST_ELEM = {"blist": "bytes", "mwlist": "mwp", "redirlist": "redir", "sublist": "subh"}
LEAN_TY = {"mwp": "(Nat × Bool)", "redir": "(Nat × QStr)", "subh": "(Nat × Node)", "mwlist": "List (Nat × Bool)", "redirlist": "List (Nat × QStr)",
           "sublist": "List (Nat × Node)", "qslist": "List QStr", "regex": "Nat", "node": "Node",
           "bool": "Bool", "int": "Int", "bytes": "Bytes", "obytes": "Option Bytes", "hmap": "HeaderMap", "json": "Bytes",
           "rstate": "RState", "wstate": "WState", "blist": "List Bytes", "reg": "SlotHandler.Reg", "qstr": "QStr"}

# C++ member of SocketPrivate -> (field of Qhttp.Sock, type)
FIELDS = {
    "readState": ("rs", "rstate"), "readBuffer": ("readBuffer", "bytes"), "requestRawPath": ("rawPath", "bytes"),
    "requestHeaders": ("reqHeaders", "hmap"), "requestDataRead": ("dataRead", "int"), "requestDataTotal": ("total", "int"),
    "writeState": ("ws", "wstate"), "responseStatusCode": ("code", "int"), "responseStatusReason": ("reason", "bytes"),
    "responseHeaders": ("respHeaders", "hmap"), "responseHeaderRemaining": ("hdrRemaining", "int"),
}
ENUMS = {"ReadHeaders": ("rstate", "RState.headers", 0), "ReadData": ("rstate", "RState.data", 1), "ReadFinished": ("rstate", "RState.finished", 2),
         "WriteNone": ("wstate", "WState.none", 0), "WriteHeaders": ("wstate", "WState.headers", 1), "WriteData": ("wstate", "WState.data", 2),
         "WriteFinished": ("wstate", "WState.finished", 3)}
SIGNALS = {"headersParsed": "Cxx.emitHp", "readyRead": "Cxx.emitRr", "readChannelFinished": "Cxx.emitRcf", "bytesWritten": "Cxx.emitBw"}


def lean_bytes(s):
    return "([" + ", ".join(str(b) for b in s.encode("latin-1")) + "] : Bytes)"


def ind(text, n=2):
    pad = " " * n
    return "\n".join(pad + l if l else l for l in text.split("\n"))


class Ctx:
    """translation of the functions of one translation unit"""
    def __init__(self, decls, senums, version):
        self.decls = decls            # "Class::name" -> decl
        self.senums = senums          # Socket:: status enum constants -> int
        self.version = version
        self.done = {}                # key -> (lean name, params, ret type, const?)
        self.order = []               # emission order
        self.code = {}
        self.failed = {}
        self.busy = set()
        self.tmp = 0
        self.globals = {}
        self.fn_class = Fn
        self.inout = {}
        self.fetch = lambda name: []

    def global_const(self, name):
        """a file-scope `const` variable initialised with a literal: its value"""
        if name in self.globals:
            return self.globals[name]
        val = None
        try:
            for d in self.fetch(name):
                if d.get("kind") == "VarDecl" and d.get("name") == name and "const" in qt(d):
                    ks = kids(d)
                    if len(ks) == 1:
                        v = strip(ks[0])
                        if v.get("kind") == "StringLiteral":
                            val = (lean_bytes(json.loads(v["value"])), "bytes")
                        elif v.get("kind") == "IntegerLiteral":
                            val = ("(%s : Int)" % v["value"], "int")
                        elif v.get("kind") == "CXXBoolLiteralExpr":
                            val = ("true" if v["value"] else "false", "bool")
        except Exception:
            val = None
        self.globals[name] = val
        return val

    def fresh(self):
        self.tmp += 1
        return "t%d" % self.tmp

    # ------------------------------------------------------------------ functions
    def lean_name(self, key):
        return "fn_" + key[2:] if key.startswith("::") else key.replace("::", "_")

    def sig(self, key):
        """(params [(cname, leanname, type)], ret type, is_const) of a function, from its declaration"""
        d = self.decls[key]
        ps = []
        pds = [c for c in kids(d) if c.get("kind") == "ParmVarDecl"]
        i = 0
        while i < len(pds):
            p = pds[i]
            t = ty_of(qt(p))
            nm = p.get("name", "p%d" % i)
            # (const char *data, qint64 len): one byte string
            if t == "bytes" and "char *" in qt(p) and i + 1 < len(pds) and ty_of(qt(pds[i + 1])) == "int":
                if "const" in qt(p):
                    ps.append((nm, nm, "bytes", pds[i + 1].get("name")))
                else:
                    ps.append((nm, nm, "outbuf", pds[i + 1].get("name")))      # (char *data, qint64 maxlen)
                i += 2
                continue
            if t == "bytes" and self.default_of(p) == "null":
                t = "obytes"
            if "&" in qt(p) and "const" not in qt(p):
                self.inout.setdefault(key, [])
                if nm not in self.inout[key]:
                    self.inout[key].append(nm)
            ps.append((nm, nm, t, None))
            i += 1
        m = re.match(r"(.*?)\s*\((.*)\)\s*(const)?$", qt(d))
        ret = ty_of(m.group(1)) if m else "?"
        return ps, ret, bool(m and m.group(3))

    def default_of(self, p):
        ks = kids(p)
        if not ks:
            return None
        v = strip(ks[0])
        if v.get("kind") == "CXXBoolLiteralExpr":
            return "true" if v["value"] else "false"
        if v.get("kind") in ("CXXTemporaryObjectExpr", "CXXConstructExpr") and not [c for c in kids(v) if c.get("kind") != "CXXDefaultArgExpr"]:
            return "null"
        if v.get("kind") == "IntegerLiteral":
            return "(%s : Int)" % v["value"]
        return "?"

    def need_free(self, name):
        """a file-scope (static) function of this translation unit: fetched by name, translated as a pure function"""
        key = "::" + name
        if key not in self.decls:
            for d in self.fetch(name):
                if d.get("kind") == "FunctionDecl" and d.get("name") == name and body_of(d) is not None:
                    self.decls[key] = d
        return self.need(key)

    def need(self, key):
        if key in self.done:
            return self.done[key]
        if key in self.failed:
            raise Untranslatable("%s is untranslatable (%s)" % (key, self.failed[key]))
        if key in self.busy:
            raise Untranslatable("recursion through " + key)
        if key not in self.decls:
            raise Untranslatable("no definition of " + key)
        self.busy.add(key)
        try:
            f = self.fn_class(self, key)
            text = f.translate()
            self.done[key] = f.info
            self.code[key] = text
            self.order.append(key)
            return f.info
        except Untranslatable as e:
            self.failed[key] = str(e)
            raise
        finally:
            self.busy.discard(key)


class Fn:
    def __init__(self, ctx, key):
        self.ctx = ctx
        self.key = key
        self.cls = key.split("::")[0]
        self.free = key.startswith("::") or key.split("::")[0] in PURE_CLASSES
        self.decl = ctx.decls[key]
        self.params, self.ret, self.const = ctx.sig(key)
        if self.free:
            self.const = True
        self.uses_env = False
        self.info = None
        self.outbuf = None
        self.ret_override = None
        self.inouts = ctx.inout.get(key, []) if self.free else []
        self.needs_fuel = False
        self.nloops = 0
        self.cont_cb = None
        self.fields = FIELDS
        self.state_ty = "Sock"
        self.env_sig = "(env : Env) (app : App) "
        self.oracles = []

    # ------------------------------------------------------------------ result shapes
    def env_args(self):
        """the environment parameters of the signature, as arguments"""
        return "".join(m + " " for m in re.findall(r"\((\w+) :", self.env_sig))

    def result(self, val, env=None):
        """what a `return val` (or falling off the end) produces"""
        if self.ret_override is not None:
            return self.ret_override(val, env)
        if self.free and self.inouts:
            outs = [env[n][0] for n in self.inouts]
            parts = ([val] if val is not None else []) + outs
            return parts[0] if len(parts) == 1 else "(" + ", ".join(parts) + ")"
        if self.const:
            return val if val is not None else "()"
        if self.outbuf:
            return "(s, %s, %s)" % (self.outbuf, val)
        if self.ret == "void":
            return "s"
        return "(s, %s)" % val

    def translate(self):
        name = self.ctx.lean_name(self.key)
        env = {}
        args = []
        for (cn, ln, t, lenname) in self.params:
            if t == "outbuf":
                self.outbuf = ln
                env[cn] = (ln, "bytes")
                env[lenname] = (lenname, "int")
                args.append("(%s : Int)" % lenname)
                continue
            env[cn] = (ln, t)
            if lenname:
                env[lenname] = ("(Cxx.size %s)" % ln, "int")
            if t not in LEAN_TY:
                raise Untranslatable("parameter %s of type %s" % (cn, t))
            args.append("(%s : %s)" % (ln, LEAN_TY[t]))
        body = self.stmts(self.flatten(body_of(self.decl)), env, lambda e: self.result(None, e), None)
        if self.outbuf:
            body = "let %s : Bytes := []\n%s" % (self.outbuf, body)
        if self.free and self.inouts:
            tys = ([LEAN_TY.get(self.ret, "?")] if self.ret != "void" else []) + [LEAN_TY.get(dict((p[0], p[2]) for p in self.params)[n], "?") for n in self.inouts]
            rty = " × ".join(tys)
        elif self.const:
            rty = LEAN_TY.get(self.ret)
        elif self.outbuf:
            rty = "%s × Bytes × %s" % (self.state_ty, LEAN_TY.get(self.ret, "?"))
        elif self.ret == "void":
            rty = self.state_ty
        else:
            rty = "%s × %s" % (self.state_ty, LEAN_TY.get(self.ret, "?"))
        if rty is None or "?" in rty:
            raise Untranslatable("return type " + self.ret)
        self.info = {"name": name, "params": self.params, "ret": self.ret, "const": self.const, "env": self.uses_env, "outbuf": bool(self.outbuf)}
        self.info["free"] = self.free
        self.info["inouts"] = list(self.inouts)
        self.info["fuel"] = self.needs_fuel
        if self.needs_fuel:
            args.insert(0, "(fuel : Nat)")
        if self.free and self.uses_env and self.state_ty in ("Sock", "Proxy.St"):
            raise Untranslatable("file-scope function that needs the environment")
        args += ["(%s : Bytes)" % o for o in self.oracles]
        self.info["oracles"] = list(self.oracles)
        head = "def %s %s%s%s: %s :=" % (name, self.env_sig if (self.uses_env and not (self.free and self.state_ty == "List Fx.Act")) else "", "" if self.free else "(s : %s) " % self.state_ty,
                                         " ".join(args) + (" " if args else ""), rty)
        return "/-- `%s` -/\n%s\n%s\n" % (self.key, head, ind(body, 2))

    def custom_iter(self, nm, init, env):
        """hook: a profile may bind an iterator over one of its own containers; returns True when it did"""
        return False

    # ------------------------------------------------------------------ helpers
    def flatten(self, n):
        if n is None:
            return []
        if n.get("kind") == "CompoundStmt":
            out = []
            for c in kids(n):
                out += self.flatten(c)
            return out
        if n.get("kind") in ("ExprWithCleanups",) and len(kids(n)) == 1:
            return self.flatten(kids(n)[0])
        return [n]

    def has_return(self, n):
        if n is None:
            return False
        if n.get("kind") in ("ReturnStmt", "BreakStmt", "ContinueStmt"):
            return True
        if n.get("kind") in ("ForStmt", "WhileStmt", "LambdaExpr"):
            return False
        return any(self.has_return(c) for c in kids(n))

    def assigned(self, ss, env):
        """locals (declared outside) that the statements may assign"""
        out = []
        def tgt(n):
            n = strip(n)
            if n.get("kind") == "DeclRefExpr" and n.get("referencedDecl", {}).get("name") in env:
                nm = n["referencedDecl"]["name"]
                if nm not in out:
                    out.append(nm)
        def walk(n):
            k = n.get("kind")
            if k in ("BinaryOperator",) and n.get("opcode") == "=":
                tgt(kids(n)[0])
            if k == "CompoundAssignOperator":
                tgt(kids(n)[0])
            if k == "UnaryOperator" and n.get("opcode") in ("++", "--"):
                tgt(kids(n)[0])
            if k == "CXXOperatorCallExpr":
                ks = kids(n)
                callee = strip(ks[0]).get("referencedDecl", {}).get("name", "")
                if callee in ("operator=", "operator+="):
                    tgt(ks[1])
            if k == "CXXMemberCallExpr":
                callee = strip(kids(n)[0])
                if callee.get("kind") == "MemberExpr" and callee.get("name") in ("append", "remove", "truncate", "clear", "prepend", "insert", "replace", "chop", "resize"):
                    tgt(kids(callee)[0])
            if k == "CallExpr":
                fn = strip(kids(n)[0])
                if fn.get("referencedDecl", {}).get("name") == "memcpy":
                    tgt(kids(n)[1])
            for c in kids(n):
                walk(c)
        for s in ss:
            walk(s)
        return out

    def member(self, n):
        """d->x / this->x (x a data member of SocketPrivate)  ->  x"""
        n = strip(n)
        if n.get("kind") != "MemberExpr" or not kids(n):
            return None
        base = strip(kids(n)[0])
        if base.get("kind") == "CXXThisExpr" and self.cls == "SocketPrivate":
            return n["name"]
        if base.get("kind") == "MemberExpr" and base.get("name") == "d" and strip(kids(base)[0]).get("kind") == "CXXThisExpr":
            return n["name"]
        return None

    def obj_path(self, n):
        """the object a method is called on: 'this', 'q', 'd', 'socket', ('field', name), ('local', name), 'QIODevice'"""
        n = strip(n)
        k = n.get("kind")
        if k == "CXXThisExpr":
            return "this"
        m = self.member(n)
        if m == "q":
            return "q"
        if m == "socket":
            return "socket"
        if m is not None:
            return ("field", m)
        if k == "MemberExpr" and n.get("name") == "d" and strip(kids(n)[0]).get("kind") == "CXXThisExpr":
            return "d"
        if k == "DeclRefExpr" and n.get("referencedDecl", {}).get("kind") in ("VarDecl", "ParmVarDecl"):
            return ("local", n["referencedDecl"]["name"])
        return None

    # ------------------------------------------------------------------ expressions: (prefix lines, code, type)
    def ex(self, n, env):
        n = strip(n)
        k = n.get("kind")
        if k == "IntegerLiteral":
            return [], "(%s : Int)" % n["value"], "int"
        if k == "CXXBoolLiteralExpr":
            return [], "true" if n["value"] else "false", "bool"
        if k == "StringLiteral":
            return [], lean_bytes(json.loads(n["value"])), "bytes"
        if k == "CharacterLiteral":
            return [], "([%d] : Bytes)" % int(n["value"]), "bytes"
        if k == "CXXDefaultArgExpr":
            raise Untranslatable("default argument outside a known call")
        if k in ("CXXTemporaryObjectExpr", "CXXConstructExpr") and not [c for c in kids(n) if c.get("kind") != "CXXDefaultArgExpr"]:
            if ty_of(qt(n)) == "bytes":
                return [], "([] : Bytes)", "bytes"
            raise Untranslatable("construction of " + qt(n))
        if k == "DeclRefExpr":
            rd = n.get("referencedDecl", {})
            if rd.get("kind") == "EnumConstantDecl":
                nm = rd["name"]
                if nm in ENUMS:
                    return [], ENUMS[nm][1], ENUMS[nm][0]
                if nm in self.ctx.senums:
                    return [], "(%d : Int)" % self.ctx.senums[nm], "int"
                raise Untranslatable("enum constant " + nm)
            if rd.get("name") in env:
                ln, t = env[rd["name"]]
                return [], ln, t
            if rd.get("kind") == "VarDecl":
                g = self.ctx.global_const(rd.get("name"))
                if g is not None:
                    return [], g[0], g[1]
            raise Untranslatable("reference to " + str(rd.get("name")))
        if k == "MemberExpr":
            m = self.member(n)
            if m in self.fields:
                return [], "s." + self.fields[m][0], self.fields[m][1]
            raise Untranslatable("member " + str(n.get("name")))
        if k == "UnaryOperator":
            op = n["opcode"]
            p, c, t = self.ex(kids(n)[0], env)
            if op == "-" and t == "int":
                return p, "(-%s)" % c, "int"
            if op == "!":
                return p, "(!%s)" % self.as_bool(c, t), "bool"
            raise Untranslatable("unary " + op)
        if k == "BinaryOperator":
            op = n["opcode"]
            a, b = kids(n)
            if op in ("&&", "||"):
                if self.effectful(b):
                    # short-circuit with a state-changing right operand, used as a value: evaluated in C++ order
                    # into a fresh boolean, together with everything the operands may rebind
                    names = self.rebound(n, env)
                    def tup(v):
                        parts = ([] if self.free else ["s"]) + [env[x][0] for x in names] + [v]
                        return parts[0] if len(parts) == 1 else "(" + ", ".join(parts) + ")"
                    code = self.cond(n, env, lambda: tup("true"), lambda: tup("false"))
                    t = self.ctx.fresh()
                    return ["let %s :=\n%s" % (tup(t), ind(code))], t, "bool"
                pa, ca, ta = self.ex(a, env)
                pb, cb, tb = self.ex(b, env)
                return pa + pb, "(%s %s %s)" % (self.as_bool(ca, ta), op, self.as_bool(cb, tb)), "bool"
            pa, ca, ta = self.ex(a, env)
            pb, cb, tb = self.ex(b, env)
            return pa + pb, *self.binop(op, ca, ta, cb, tb)
        if k == "ConditionalOperator":
            c, a, b = kids(n)
            if self.effectful(a) or self.effectful(b):
                raise Untranslatable("state-changing call inside ?:")
            pc, cc, tc = self.ex(c, env)
            pa, ca, ta = self.ex(a, env)
            pb, cb, tb = self.ex(b, env)
            ca, cb, t = self.unify(ca, ta, cb, tb)
            return pc + pa + pb, "(if %s then %s else %s)" % (self.as_bool(cc, tc), ca, cb), t
        if k == "CXXOperatorCallExpr":
            ks = kids(n)
            opn = strip(ks[0]).get("referencedDecl", {}).get("name", "")
            if opn in ("operator!=", "operator==") and len(ks) == 3:
                l0, r0 = strip(ks[1]), strip(ks[2])
                for a0, b0 in ((l0, r0), (r0, l0)):
                    vn = a0.get("referencedDecl", {}).get("name")
                    if vn in env and env[vn][1] == "iter" and env[vn][0][0] == "find":
                        _, cm, ck = env[vn][0]
                        isend = b0.get("kind") == "CXXMemberCallExpr" and strip(kids(b0)[0]).get("name") in ("constEnd", "end", "cend") \
                            and self.ex(kids(strip(kids(b0)[0]))[0], env)[1] == cm
                        vb = b0.get("referencedDecl", {}).get("name")
                        isend = isend or (vb in env and env[vb][1] == "iter" and env[vb][0] == ("end", cm))
                        if isend:
                            c = "(HeaderMap.contains %s %s)" % (ck, cm)
                            return [], c if opn == "operator!=" else "(!%s)" % c, "bool"
            if opn in ("operator*", "operator->") and len(ks) == 2:
                vn = strip(ks[1]).get("referencedDecl", {}).get("name")
                if vn in env and env[vn][1] == "iter" and env[vn][0][0] == "find":
                    return [], "(HeaderMap.value %s %s)" % (env[vn][0][2], env[vn][0][1]), "bytes"
                vn = strip(ks[1]).get("referencedDecl", {}).get("name")
                if vn in env and env[vn][1] == "iterelem":
                    return [], env[vn][0], "bytes"
            if opn in ("operator+", "operator==", "operator!=", "operator<", "operator>", "operator<=", "operator>="):
                pa, ca, ta = self.ex(ks[1], env)
                pb, cb, tb = self.ex(ks[2], env)
                return pa + pb, *self.binop(opn[8:], ca, ta, cb, tb)
            if opn == "operator[]" and "$index" in env:
                (lst, iname), elem = env["$index"]
                if strip(ks[1]).get("referencedDecl", {}).get("name") == lst and strip(ks[2]).get("referencedDecl", {}).get("name") == iname:
                    return [], elem, "bytes"
            if opn == "operator[]":
                pa, ca, ta = self.ex(ks[1], env)
                pb, cb, tb = self.ex(ks[2], env)
                if ta == "blist" and tb == "int":
                    return pa + pb, "(Cxx.nth %s %s)" % (ca, cb), "bytes"
            raise Untranslatable("operator call " + opn)
        if k == "CXXMemberCallExpr":
            return self.call_member(n, env, want_value=True)
        if k == "CallExpr":
            return self.call_free(n, env, want_value=True)
        raise Untranslatable("expression kind " + str(k))

    def unify(self, ca, ta, cb, tb):
        if ta == tb:
            return ca, cb, ta
        if ta == "obytes" and tb == "bytes":
            return "(%s.getD [])" % ca, cb, "bytes"
        if ta == "bytes" and tb == "obytes":
            return ca, "(%s.getD [])" % cb, "bytes"
        raise Untranslatable("branches of types %s / %s" % (ta, tb))

    def as_bool(self, c, t):
        if t == "bool":
            return c
        if t == "int":
            return "(decide (%s ≠ 0))" % c
        raise Untranslatable("condition of type " + t)

    def binop(self, op, ca, ta, cb, tb):
        if ta == "obytes":
            ca, ta = "(%s.getD [])" % ca, "bytes"
        if tb == "obytes":
            cb, tb = "(%s.getD [])" % cb, "bytes"
        if op in ("+", "-") and ta == tb == "int":
            return "(%s %s %s)" % (ca, op, cb), "int"
        if op == "+" and ta == tb == "bytes":
            return "(%s ++ %s)" % (ca, cb), "bytes"
        cmpm = {"<": "<", "<=": "≤", ">": ">", ">=": "≥", "==": "=", "!=": "≠"}
        if op in cmpm:
            if ta == tb == "int":
                return "(decide (%s %s %s))" % (ca, cmpm[op], cb), "bool"
            if ta == tb and ta in ("rstate", "wstate"):
                f = "Cxx.rcode" if ta == "rstate" else "Cxx.wcode"
                if op in ("==", "!="):
                    return "(decide (%s %s %s))" % (ca, cmpm[op], cb), "bool"
                return "(decide (%s %s %s %s %s))" % (f, ca, cmpm[op], f, cb), "bool"
            if ta == tb == "bytes" and op in ("==", "!="):
                return "(%s %s %s)" % (ca, "==" if op == "==" else "!=", cb), "bool"
            if ta == tb == "bool" and op in ("==", "!="):
                return "(%s %s %s)" % (ca, "==" if op == "==" else "!=", cb), "bool"
        raise Untranslatable("operator %s on %s, %s" % (op, ta, tb))

    def rebound(self, n, env):
        """locals that evaluating n may rebind (arguments for reference parameters, lists a takeFirst() is applied to)"""
        out = []
        def add(a):
            a0 = strip(a)
            vn = a0.get("referencedDecl", {}).get("name")
            if a0.get("kind") == "DeclRefExpr" and vn in env and vn not in out and isinstance(env[vn][0], str) and re.match(r"^[A-Za-z_][A-Za-z0-9_']*$", env[vn][0]):
                out.append(vn)
        def walk(x):
            x0 = strip(x)
            if x0.get("kind") == "CallExpr":
                rd = strip(kids(x0)[0]).get("referencedDecl", {})
                nm = rd.get("name")
                key = None
                for c in PURE_CLASSES:
                    if c + "::" + str(nm) in self.ctx.decls:
                        key = c + "::" + nm
                if key is None and "::" + str(nm) in self.ctx.decls:
                    key = "::" + nm
                if key is not None:
                    ps = self.ctx.sig(key)[0]
                    real = [y for y in kids(x0)[1:] if y.get("kind") != "CXXDefaultArgExpr"]
                    for an, pinfo in zip(real, ps):
                        if pinfo[0] in self.ctx.inout.get(key, []):
                            add(an)
                if nm == "parseResponseHeaders":
                    for an in kids(x0)[2:]:
                        add(an)
            if x0.get("kind") == "CXXMemberCallExpr":
                callee = strip(kids(x0)[0])
                if callee.get("name") in ("takeFirst", "removeFirst", "takeLast", "append", "insert", "remove", "clear", "truncate") and kids(callee):
                    add(kids(callee)[0])
            for c in kids(x0):
                walk(c)
        walk(n)
        return sorted(out)

    def effectful(self, n):
        """does evaluating n change (or depend on the order of changes to) the state?"""
        n0 = strip(n)
        k = n0.get("kind")
        if k == "CXXMemberCallExpr":
            callee = strip(kids(n0)[0])
            if callee.get("kind") == "MemberExpr":
                obj = self.obj_path(kids(callee)[0])
                nm = callee.get("name")
                if obj in ("this", "q", "d", "QIODevice"):
                    key = self.sibling_key(obj, nm, callee)
                    if key and key in self.ctx.decls:
                        _, _, const = self.ctx.sig(key)
                        if not const:
                            return True
                    elif nm in ("write", "close", "readAll", "read", "setOpenMode"):
                        return True
                if obj == "socket" and nm in ("readAll", "write", "close", "read", "flush", "abort", "disconnectFromHost"):
                    return True
                if nm in ("append", "remove", "truncate", "clear", "insert", "replace", "prepend", "takeFirst", "removeFirst", "takeLast"):
                    return True
        if k == "CallExpr":
            fn = strip(kids(n0)[0])
            if fn.get("referencedDecl", {}).get("name") in ("parseRequestHeaders", "parsePath", "memcpy", "connect", "split", "parseHeaders", "parseHeaderList", "parseResponseHeaders"):
                return True
        return any(self.effectful(c) for c in kids(n0))

    def sibling_key(self, obj, nm, callee):
        if obj == "this":
            base = strip(kids(callee)[0])
            # a call through the QIODevice base (`write`, `QIODevice::close()`) is not a sibling
            if "QIODevice" in qt(kids(callee)[0]) or "QIODevice" in qt(base) and self.cls == "Socket" and False:
                return None
            for c in (self.cls,):
                if c + "::" + nm in self.ctx.decls:
                    return c + "::" + nm
            return None
        if obj == "q":
            return "Socket::" + nm
        if obj == "d":
            return "SocketPrivate::" + nm
        return None

    def args(self, nodes, env):
        pre, out = [], []
        for a in nodes:
            p, c, t = self.ex(a, env)
            pre += p
            out.append((c, t))
        return pre, out

    def call_member(self, n, env, want_value):
        """returns (prefix, code, type); for state-changing calls the prefix rebinds `s`"""
        ks = kids(n)
        callee = strip(ks[0])
        if callee.get("kind") != "MemberExpr":
            raise Untranslatable("call through " + str(callee.get("kind")))
        nm = callee["name"]
        objn = kids(callee)[0]
        obj = self.obj_path(objn)
        argn = ks[1:]
        # base-class qualified call QIODevice::close() / QIODevice::bytesAvailable() / write()
        is_base = "QIODevice" in qt(objn) and strip(objn).get("kind") == "CXXThisExpr" or \
                  (strip(objn).get("kind") == "CXXThisExpr" and callee.get("referencedMemberDecl") and nm in ("write",) and self.cls == "Socket")
        if obj == "this" and self.cls == "Socket" and nm in ("close", "bytesAvailable") and self.is_qualified_base(callee):
            if nm == "close":
                return ["let s := Cxx.qioClose s"], "()", "void"
            return [], "(Cxx.qioBytesAvailable s)", "int"
        if obj == "this" and self.cls == "Socket" and nm == "write" and (self.cls + "::write") not in self.ctx.decls:
            # QIODevice::write(const QByteArray &) -> virtual writeData
            info = self.ctx.need("Socket::writeData")
            pre, a = self.args([x for x in argn if x.get("kind") != "CXXDefaultArgExpr"], env)
            if len(a) != 1 or a[0][1] not in ("bytes", "json"):
                raise Untranslatable("write() with these arguments")
            wd = "(fun s b => %s %ss b)" % (info["name"], self.env_args() if info["env"] else "")
            self.uses_env = self.uses_env or info["env"]
            return pre + ["let s := Cxx.qioWrite %s s %s" % (wd, a[0][0])], "()", "void"
        if obj in ("this", "q", "d"):
            key = self.sibling_key(obj, nm, callee)
            if key == "SocketPrivate::statusReason":
                pre, a = self.args(argn, env)
                return pre, "(Qhttp.statusReason %s)" % a[0][0], "bytes"
            if obj == "q" and nm in SIGNALS:
                pre, a = self.args(argn, env)
                self.uses_env = True
                return pre + ["let s := %s env app s%s" % (SIGNALS[nm], "".join(" " + x[0] for x in a))], "()", "void"
            if key is None or key not in self.ctx.decls:
                raise Untranslatable("call to %s on %s" % (nm, obj))
            info = self.ctx.need(key)
            ps = info["params"]
            pre, vals = [], []
            real = [x for x in argn]
            pds = [c for c in kids(self.ctx.decls[key]) if c.get("kind") == "ParmVarDecl"]
            ai = 0
            for (cn, ln, t, lenname) in ps:
                if ai < len(real) and real[ai].get("kind") != "CXXDefaultArgExpr":
                    p, c, at = self.ex(real[ai], env)
                    pre += p
                    if t == "obytes" and at == "bytes":
                        c = "(some %s)" % c
                    elif t != at and not (t == "bytes" and at == "json") and not (t == "json" and at == "bytes"):
                        raise Untranslatable("argument %s of %s: %s for %s" % (cn, key, at, t))
                    vals.append(c)
                else:
                    dv = self.ctx.default_of([p for p in pds if p.get("name") == cn][0]) if [p for p in pds if p.get("name") == cn] else None
                    if dv == "null":
                        vals.append("none")
                    elif dv in ("true", "false") or (dv and dv.startswith("(")):
                        vals.append(dv)
                    else:
                        raise Untranslatable("default argument %s of %s" % (cn, key))
                ai += 1
                if lenname:
                    ai += 1
            self.uses_env = self.uses_env or info["env"]
            if info.get("cfg"):
                self.needs_cfg = True
            call = "%s %s%ss%s" % (info["name"], self.env_args() if info["env"] else "", "c " if info.get("cfg") else "", "".join(" " + v for v in vals))
            if info["const"]:
                return pre, "(%s)" % call, info["ret"]
            via = obj == "q" and self.cls == "SocketPrivate"
            if via:
                self.uses_env = True
            if info["ret"] == "void":
                line = "let s := %s" % call
                return pre + [line] + (["let s := Cxx.viaQ env app s"] if via else []), "()", "void"
            t = self.ctx.fresh()
            line = "let (s, %s) := %s" % (t, call)
            return pre + [line] + (["let s := Cxx.viaQ env app s"] if via else []), t, info["ret"]
        if obj == "socket":
            if nm == "readAll" and not argn:
                t = self.ctx.fresh()
                return ["let (s, %s) := Cxx.tcpReadAll s" % t], t, "bytes"
            if nm == "write":
                real = [x for x in argn if x.get("kind") != "CXXDefaultArgExpr"]
                pre, a = self.args(real[:1], env)
                if len(real) == 2:
                    # write(data, len): len must be the length parameter bound to data
                    p2, c2, t2 = self.ex(real[1], env)
                    if c2 != "(Cxx.size %s)" % a[0][0]:
                        raise Untranslatable("socket->write(data, n) with n other than the length of data")
                if a[0][1] != "bytes":
                    raise Untranslatable("socket->write of " + a[0][1])
                t = self.ctx.fresh()
                return pre + ["let (s, %s) := Cxx.tcpWrite s %s" % (t, a[0][0])], t, "int"
            if nm == "close" and not argn:
                return ["let s := Cxx.tcpClose s"], "()", "void"
            raise Untranslatable("socket->" + nm)
        # the error page: ErrorTemplate.arg(code).arg(reason).arg(VERSION).toUtf8()
        if nm == "toUtf8":
            chain = self.error_page(objn, env)
            if chain:
                self.uses_env = True
                return chain[0], "(env.errPage %s %s)" % (chain[1], chain[2]), "bytes"
        o0 = strip(objn)
        vn0 = o0.get("referencedDecl", {}).get("name") if o0.get("kind") == "DeclRefExpr" else None
        if "$index" in env and nm in ("at", "value"):
            (lst, iname), elem = env["$index"]
            real1 = [x for x in argn if x.get("kind") != "CXXDefaultArgExpr"]
            if vn0 == lst and len(real1) == 1 and strip(real1[0]).get("referencedDecl", {}).get("name") == iname:
                return [], elem, "bytes"
        if vn0 in env and env[vn0][1] == "iter" and env[vn0][0][0] == "find" and not [x for x in argn if x.get("kind") != "CXXDefaultArgExpr"]:
            if nm == "value":
                return [], "(HeaderMap.value %s %s)" % (env[vn0][0][2], env[vn0][0][1]), "bytes"
        # value classes
        pre0, oc, ot = self.ex(objn, env)
        real = [x for x in argn if x.get("kind") != "CXXDefaultArgExpr"]
        pre, a = self.args(real, env)
        pre = pre0 + pre
        if ot == "obytes":
            if nm == "isNull" and not a:
                return pre, "%s.isNone" % oc, "bool"
            oc, ot = "(%s.getD [])" % oc, "bytes"
        if ot == "bytes":
            if nm in ("size", "length", "count") and not a:
                return pre, "(Cxx.size %s)" % oc, "int"
            if nm == "isEmpty" and not a:
                return pre, "(%s.isEmpty)" % oc, "bool"
            if nm == "indexOf" and len(a) == 1 and a[0][1] == "bytes":
                return pre, "(Cxx.indexOf %s %s)" % (oc, a[0][0]), "int"
            if nm == "left" and len(a) == 1:
                return pre, "(Cxx.left %s %s)" % (oc, a[0][0]), "bytes"
            if nm in ("constData", "data") and not a:
                return pre, oc, "bytes"
            if nm == "toLongLong" and not a:
                return pre, "(Qhttp.toLongLong %s)" % oc, "int"
            if nm == "toLower" and not a:
                return pre, "(Qhttp.lower %s)" % oc, "bytes"
            if nm == "trimmed" and not a:
                return pre, "(Qhttp.trim %s)" % oc, "bytes"
        if ot == "bytes":
            if nm == "mid" and len(a) == 2 and a[0][1] == a[1][1] == "int":
                return pre, "(Cxx.mid %s %s %s)" % (oc, a[0][0], a[1][0]), "bytes"
            if nm == "mid" and len(a) == 1 and a[0][1] == "int":
                return pre, "(Cxx.mid %s %s (-1))" % (oc, a[0][0]), "bytes"
            if nm == "indexOf" and len(a) == 2 and a[0][1] == "bytes" and a[1][1] == "int":
                return pre, "(Cxx.indexOfFrom %s %s %s)" % (oc, a[0][0], a[1][0]), "int"
            if nm == "toInt" and not a:
                return pre, "(Qhttp.toIntQ %s)" % oc, "int"
        if ot == "blist":
            if nm in ("count", "size", "length") and not a:
                return pre, "(Cxx.count %s)" % oc, "int"
            if nm == "isEmpty" and not a:
                return pre, "(%s.isEmpty)" % oc, "bool"
            if nm in ("at", "value") and len(a) == 1 and a[0][1] == "int":
                return pre, "(Cxx.nth %s %s)" % (oc, a[0][0]), "bytes"
            if nm == "first" and not a:
                return pre, "(Cxx.nth %s 0)" % oc, "bytes"
            if nm == "last" and not a:
                return pre, "(Cxx.last %s)" % oc, "bytes"
            if nm == "takeFirst" and not a:
                o0 = strip(objn)
                vn = o0.get("referencedDecl", {}).get("name")
                if o0.get("kind") == "DeclRefExpr" and vn in env and re.match(r"^[A-Za-z_][A-Za-z0-9_']*$", env[vn][0]):
                    t = self.ctx.fresh()
                    return pre + ["let (%s, %s) := Cxx.takeFirst %s" % (t, env[vn][0], env[vn][0])], t, "bytes"
                raise Untranslatable("takeFirst() on something else than a local list")
        if ot == "json" and nm == "toJson" and not a:
            return pre, oc, "bytes"
        if ot == "hmap":
            if nm == "contains" and len(a) == 1:
                return pre, "(HeaderMap.contains %s %s)" % (a[0][0], oc), "bool"
            if nm == "value" and len(a) == 1:
                return pre, "(HeaderMap.value %s %s)" % (a[0][0], oc), "bytes"
            if nm == "count" and len(a) == 1:
                return pre, "((HeaderMap.count %s %s : Nat) : Int)" % (a[0][0], oc), "int"
        raise Untranslatable("call %s on a value of type %s" % (nm, ot))

    def is_qualified_base(self, callee):
        # `QIODevice::close()` inside Socket::close(): the member belongs to QIODevice
        q0 = qt(kids(callee)[0])
        return "QIODevice" in q0

    def error_page(self, n, env):
        """arg(arg(arg(ErrorTemplate, code), reason), version) -> (prefix, code, reason)"""
        vals = []
        cur = strip(n)
        while cur.get("kind") == "CXXMemberCallExpr" and strip(kids(cur)[0]).get("name") == "arg":
            callee = strip(kids(cur)[0])
            real = [x for x in kids(cur)[1:] if x.get("kind") != "CXXDefaultArgExpr"]
            if len(real) != 1:
                return None
            vals.insert(0, real[0])
            cur = strip(kids(callee)[0])
        if cur.get("kind") != "DeclRefExpr" or cur.get("referencedDecl", {}).get("name") != "ErrorTemplate" or len(vals) != 3:
            return None
        p1, c1, t1 = self.ex(vals[0], env)
        p2, c2, t2 = self.ex(vals[1], env)
        p3, c3, t3 = self.ex(vals[2], env)
        if t1 != "int" or t2 != "bytes" or c3 != lean_bytes(self.ctx.version):
            raise Untranslatable("error page built from other values than (status code, reason, library version)")
        return p1 + p2, c1, c2

    def call_free(self, n, env, want_value):
        ks = kids(n)
        fn = strip(ks[0])
        nm = fn.get("referencedDecl", {}).get("name")
        argn = [x for x in ks[1:]]
        real = [x for x in argn if x.get("kind") != "CXXDefaultArgExpr"]
        if nm in ("qMin", "qMax"):
            pre, a = self.args(real, env)
            if len(a) == 2 and a[0][1] == a[1][1] == "int":
                return pre, "(%s %s %s)" % ("min" if nm == "qMin" else "max", a[0][0], a[1][0]), "int"
        if nm == "number":
            pre, a = self.args(real, env)
            if len(a) == 1 and a[0][1] == "int":
                return pre, "(Cxx.number %s)" % a[0][0], "bytes"
        if nm == "parseRequestHeaders" and len(real) == 4:
            if [self.member(x) for x in real[1:]] != ["requestMethod", "requestRawPath", "requestHeaders"]:
                raise Untranslatable("parseRequestHeaders with other out-parameters than the request members")
            pre, a = self.args(real[:1], env)
            t = self.ctx.fresh()
            return pre + ["let (s, %s) := Cxx.parseRequestHeaders s %s" % (t, a[0][0])], t, "bool"
        if nm == "parsePath" and len(real) == 3:
            if [self.member(x) for x in real[1:]] != ["requestPath", "requestQueryString"]:
                raise Untranslatable("parsePath with other out-parameters than the request members")
            pre, a = self.args(real[:1], env)
            self.uses_env = True
            t = self.ctx.fresh()
            return pre + ["let (s, %s) := Cxx.parsePath env s %s" % (t, a[0][0])], t, "bool"
        rdk = fn.get("referencedDecl", {}).get("kind")
        if rdk in ("FunctionDecl", "CXXMethodDecl") and nm:
            key = None
            if rdk == "CXXMethodDecl":
                for c in PURE_CLASSES:
                    if c + "::" + nm in self.ctx.decls:
                        key = c + "::" + nm
                if key is None:
                    raise Untranslatable("call to the static function " + nm)
                info = self.ctx.need(key)
            else:
                info = self.ctx.need_free(nm)
            ps = info["params"]
            if info.get("actenv") is not None:
                real = [x for x in real if "Socket *" not in qt(x) and "Socket *" not in qt(strip(x))]      # the socket is the state / the environment
            if len(real) != len(ps):
                raise Untranslatable("call to %s with default arguments" % nm)
            if info.get("actstate"):
                # a file-scope helper that acts on the socket: the action list goes through it
                pre, vals = [], []
                for an, (cn, ln, pt, _) in zip(real, ps):
                    p, c, t = self.ex(an, env)
                    if t != pt:
                        raise Untranslatable("argument %s of %s: %s for %s" % (cn, nm, t, pt))
                    pre += p; vals.append(c)
                call = "%s %ss%s" % (info["name"], self.env_args(), "".join(" " + v for v in vals))
                if info["ret"] == "void":
                    return pre + ["let s := %s" % call], "()", "void"
                t = self.ctx.fresh()
                return pre + ["let (s, %s) := %s" % (t, call)], t, info["ret"]
            pre, vals, outs = [], [], []
            for an, (cn, ln, pt, _) in zip(real, ps):
                if cn in info["inouts"]:
                    a0 = strip(an)
                    vn = a0.get("referencedDecl", {}).get("name")
                    if a0.get("kind") != "DeclRefExpr" or vn not in env or env[vn][1] != pt or not re.match(r"^[A-Za-z_][A-Za-z0-9_']*$", env[vn][0]):
                        raise Untranslatable("argument for the reference parameter %s of %s is not a plain local" % (cn, nm))
                    vals.append(env[vn][0]); outs.append(env[vn][0])
                else:
                    p, c, t = self.ex(an, env)
                    if t != pt:
                        raise Untranslatable("argument %s of %s: %s for %s" % (cn, nm, t, pt))
                    pre += p; vals.append(c)
            if info["fuel"]:
                self.needs_fuel = True
                vals.insert(0, "fuel")
            if info.get("actenv"):
                vals.insert(0, self.env_args().strip())
            call = "%s%s" % (info["name"], "".join(" " + v for v in vals))
            if not outs:
                return pre, "(%s)" % call, info["ret"]
            if info["ret"] == "void":
                lhs = outs[0] if len(outs) == 1 else "(" + ", ".join(outs) + ")"
                return pre + ["let %s := %s" % (lhs, call)], "()", "void"
            t = self.ctx.fresh()
            return pre + ["let (%s) := %s" % (", ".join([t] + outs), call)], t, info["ret"]
        raise Untranslatable("call to " + str(nm))

    # ------------------------------------------------------------------ conditions (C++ evaluation order)
    def cond(self, n, env, kt, kf):
        n0 = strip(n)
        if not self.effectful(n0):
            pre, c, t = self.ex(n0, env)
            return "\n".join(pre + ["if %s then\n%s\nelse\n%s" % (self.as_bool(c, t), ind(kt()), ind(kf()))])
        if n0.get("kind") == "BinaryOperator" and n0.get("opcode") == "&&":
            a, b = kids(n0)
            return self.cond(a, env, lambda: self.cond(b, env, kt, kf), kf)
        if n0.get("kind") == "BinaryOperator" and n0.get("opcode") == "||":
            a, b = kids(n0)
            return self.cond(a, env, kt, lambda: self.cond(b, env, kt, kf))
        if n0.get("kind") == "UnaryOperator" and n0.get("opcode") == "!":
            return self.cond(kids(n0)[0], env, kf, kt)
        pre, c, t = self.ex(n0, env)
        body = "if %s then\n%s\nelse\n%s" % (self.as_bool(c, t), ind(kt()), ind(kf()))
        return "\n".join(pre + [body])

    # ------------------------------------------------------------------ statements
    def assign(self, lhs, code, ty, env):
        """lines that store `code` into the member/local lhs; returns (lines, env)"""
        m = self.member(lhs)
        if m is not None:
            if m not in self.fields:
                raise Untranslatable("assignment to member " + m)
            f, ft = self.fields[m]
            if ft != ty and not (ft == "bytes" and ty == "obytes"):
                raise Untranslatable("assignment of %s to %s" % (ty, m))
            if ft == "bytes" and ty == "obytes":
                code = "(%s.getD [])" % code
            return ["let s := { s with %s := %s }" % (f, code)], env
        l0 = strip(lhs)
        if l0.get("kind") == "DeclRefExpr" and l0.get("referencedDecl", {}).get("name") in env:
            nm = l0["referencedDecl"]["name"]
            ln, t = env[nm]
            if not re.match(r"^[A-Za-z_][A-Za-z0-9_']*$", ln):
                raise Untranslatable("assignment to " + nm)
            if t != ty:
                raise Untranslatable("assignment of %s to %s" % (ty, nm))
            return ["let %s : %s := %s" % (ln, LEAN_TY[t], code)], env
        raise Untranslatable("assignment target")

    def simple(self, s, env):
        """a statement without control flow -> (lines, env)"""
        s0 = strip(s)
        k = s0.get("kind")
        if k == "NullStmt":
            return [], env
        if k == "DeclStmt":
            lines = []
            env = dict(env)
            for v in kids(s0):
                if v.get("kind") != "VarDecl":
                    raise Untranslatable("declaration of " + str(v.get("kind")))
                t = ty_of(qt(v))
                nm = v["name"]
                init = kids(v)
                if "iterator" in qt(v) and init:
                    b0 = strip(init[0])
                    if self.custom_iter(nm, b0, env):
                        continue
                    if b0.get("kind") == "CXXMemberCallExpr" and strip(kids(b0)[0]).get("name") in ("constBegin", "begin", "cbegin", "constEnd", "end", "cend"):
                        pm, cm, tm = self.ex(kids(strip(kids(b0)[0]))[0], env)
                        if tm == "hmap" and not pm:
                            which = "begin" if "egin" in strip(kids(b0)[0])["name"] else "end"
                            env[nm] = ((which, cm), "iter")
                            continue
                    if b0.get("kind") == "CXXMemberCallExpr" and strip(kids(b0)[0]).get("name") in ("constFind", "find"):
                        pm, cm, tm = self.ex(kids(strip(kids(b0)[0]))[0], env)
                        real0 = [x for x in kids(b0)[1:] if x.get("kind") != "CXXDefaultArgExpr"]
                        if tm == "hmap" and not pm and len(real0) == 1:
                            pk, ck, tk = self.ex(real0[0], env)
                            if tk == "bytes" and not pk:
                                env[nm] = (("find", cm, ck), "iter")
                                continue
                    raise Untranslatable("iterator %s that is not begin()/end()/find() of a header map" % nm)
                if t not in ("int", "bool", "bytes", "blist", "hmap", "reg", "qstr"):
                    raise Untranslatable("local %s of type %s" % (nm, qt(v)))
                if not init or (strip(init[0]).get("kind") in ("CXXConstructExpr", "CXXTemporaryObjectExpr") and not [c for c in kids(strip(init[0])) if c.get("kind") != "CXXDefaultArgExpr"]):
                    if t == "int" and not init and (self.free or self.state_ty != "Sock"):
                        lines.append("let %s : Int := 0" % nm)       # written before it is read (checked by the C++ compiler's flow only)
                    elif t not in ("bytes", "blist", "hmap"):
                        raise Untranslatable("local without initialiser: " + nm)
                    else:
                        lines.append("let %s : %s := []" % (nm, LEAN_TY[t]))
                else:
                    p, c, ct = self.ex(init[0], env)
                    if ct == "obytes" and t == "bytes":
                        c, ct = "(%s.getD [])" % c, "bytes"
                    if ct != t:
                        raise Untranslatable("initialiser of type %s for %s" % (ct, nm))
                    lines += p + ["let %s : %s := %s" % (nm, LEAN_TY[t], c)]
                    # `const int n = L.size()`: remembered, so that `for (i = 0; i < n; ++i)` is seen as a walk over L
                    i1 = strip(init[0])
                    if t == "int" and "const" in qt(v) and i1.get("kind") == "CXXMemberCallExpr" and strip(kids(i1)[0]).get("name") in ("count", "size", "length") and len(kids(i1)) == 1:
                        l1 = strip(kids(strip(kids(i1)[0]))[0])
                        if l1.get("kind") == "DeclRefExpr" and l1.get("referencedDecl", {}).get("name") in env and env[l1["referencedDecl"]["name"]][1] == "blist":
                            env[nm + "$countof"] = (l1["referencedDecl"]["name"], "meta")
                env[nm] = (nm, t)
            return lines, env
        if k == "BinaryOperator" and s0.get("opcode") == "=":
            lhs, rhs = kids(s0)
            p, c, t = self.ex(rhs, env)
            l, env = self.assign(lhs, c, t, env)
            return p + l, env
        if k == "CompoundAssignOperator" and s0.get("opcode") in ("+=", "-="):
            lhs, rhs = kids(s0)
            pl, cl, tl = self.ex(lhs, env)
            p, c, t = self.ex(rhs, env)
            if tl != "int" or t != "int":
                raise Untranslatable("compound assignment on " + tl)
            l, env = self.assign(lhs, "(%s %s %s)" % (cl, s0["opcode"][0], c), "int", env)
            return pl + p + l, env
        if k == "UnaryOperator" and s0.get("opcode") in ("++", "--"):
            lhs = kids(s0)[0]
            pl, cl, tl = self.ex(lhs, env)
            if tl != "int":
                raise Untranslatable("++ on " + tl)
            l, env = self.assign(lhs, "(%s %s 1)" % (cl, "+" if s0["opcode"] == "++" else "-"), "int", env)
            return pl + l, env
        if k == "CXXOperatorCallExpr":
            ks = kids(s0)
            opn = strip(ks[0]).get("referencedDecl", {}).get("name", "")
            if opn == "operator=":
                p, c, t = self.ex(ks[2], env)
                l, env = self.assign(ks[1], c, t, env)
                return p + l, env
            if opn == "operator<<":
                pl, cl, tl = self.ex(ks[1], env)
                p, c, t = self.ex(ks[2], env)
                if tl == "blist" and t == "bytes":
                    l, env = self.assign(ks[1], "(%s ++ [%s])" % (cl, c), "blist", env)
                    return pl + p + l, env
            if opn == "operator+=":
                pl, cl, tl = self.ex(ks[1], env)
                p, c, t = self.ex(ks[2], env)
                if tl == "blist" and t == "bytes":
                    l, env = self.assign(ks[1], "(%s ++ [%s])" % (cl, c), "blist", env)
                    return pl + p + l, env
                if tl == t == "bytes":
                    l, env = self.assign(ks[1], "(%s ++ %s)" % (cl, c), "bytes", env)
                    return pl + p + l, env
            raise Untranslatable("operator statement " + opn)
        if k == "CXXMemberCallExpr":
            callee = strip(kids(s0)[0])
            nm = callee.get("name")
            objn = kids(callee)[0] if callee.get("kind") == "MemberExpr" else None
            real = [x for x in kids(s0)[1:] if x.get("kind") != "CXXDefaultArgExpr"]
            if objn is not None and nm in ("append", "prepend", "push_back", "remove", "truncate", "clear", "insert", "replace", "removeFirst", "pop_front") and self.obj_path(objn) not in ("this", "q", "d", "socket"):
                pl, cl, tl = self.ex(objn, env)
                pre, a = self.args(real, env)
                if tl == "bytes":
                    if nm == "append" and len(a) == 1 and a[0][1] == "bytes":
                        new = "(%s ++ %s)" % (cl, a[0][0])
                    elif nm == "prepend" and len(a) == 1 and a[0][1] == "bytes":
                        new = "(%s ++ %s)" % (a[0][0], cl)
                    elif nm == "remove" and len(a) == 2 and a[0][1] == a[1][1] == "int":
                        new = "(Cxx.removeAt %s %s %s)" % (cl, a[0][0], a[1][0])
                    elif nm == "truncate" and len(a) == 1 and a[0][1] == "int":
                        new = "(Cxx.truncate %s %s)" % (cl, a[0][0])
                    elif nm == "clear" and not a:
                        new = "([] : Bytes)"
                    else:
                        raise Untranslatable("QByteArray::%s with these arguments" % nm)
                    l, env = self.assign(objn, new, "bytes", env)
                    return pl + pre + l, env
                if tl == "blist":
                    if nm in ("removeFirst", "pop_front") and not a:
                        l, env = self.assign(objn, "(List.tail %s)" % cl, "blist", env)
                        return pl + pre + l, env
                    if nm in ("append", "push_back") and len(a) == 1 and a[0][1] == "bytes":
                        l, env = self.assign(objn, "(%s ++ [%s])" % (cl, a[0][0]), "blist", env)
                        return pl + pre + l, env
                    raise Untranslatable("QList::%s with these arguments" % nm)
                if tl == "hmap":
                    if nm == "remove" and len(a) == 1:
                        new = "(HeaderMap.remove %s %s)" % (a[0][0], cl)
                    elif nm == "insert" and len(a) == 2:
                        new = "(HeaderMap.insert %s %s %s)" % (a[0][0], a[1][0], cl)
                    elif nm == "replace" and len(a) == 2:
                        new = "(HeaderMap.replace %s %s %s)" % (a[0][0], a[1][0], cl)
                    elif nm == "clear" and not a:
                        new = "([] : HeaderMap)"
                    else:
                        raise Untranslatable("QMultiMap::%s with these arguments" % nm)
                    l, env = self.assign(objn, new, "hmap", env)
                    return pl + pre + l, env
            p, c, t = self.call_member(s0, env, want_value=False)
            return p, env
        if k == "CallExpr":
            fn = strip(kids(s0)[0])
            nm = fn.get("referencedDecl", {}).get("name")
            real = [x for x in kids(s0)[1:] if x.get("kind") != "CXXDefaultArgExpr"]
            if nm == "memcpy" and len(real) == 3:
                pa, ca, ta = self.ex(real[1], env)
                pb, cb, tb = self.ex(real[2], env)
                l, env = self.assign(real[0], "(Cxx.left %s %s)" % (ca, cb), "bytes", env)
                return pa + pb + l, env
            if nm == "connect" and len(real) >= 4:
                sig = self.addr_name(real[1]); slot = self.addr_name(real[3])
                if self.obj_path(real[0]) == "socket" and sig == "disconnected" and slot == "deleteLater" and strip(real[2]).get("kind") == "CXXThisExpr":
                    return ["let s := Cxx.connectDisconnectedDeleteLater s"], env
                raise Untranslatable("connect(%s, %s)" % (sig, slot))
            p, c, t = self.call_free(s0, env, want_value=False)
            return p, env
        raise Untranslatable("statement kind " + str(k))

    def addr_name(self, n):
        n = strip(n)
        if n.get("kind") == "UnaryOperator" and n.get("opcode") == "&":
            d = strip(kids(n)[0])
            return d.get("referencedDecl", {}).get("name")
        return None

    def join_tuple(self, names, env):
        return "(" + ", ".join(["s"] + [env[x][0] for x in names]) + ")" if names else "s"

    def stmts(self, ss, env, k, brk):
        """code for the statement list; k(env) is the code when control falls off the end"""
        if not ss:
            return k(env)
        s, rest = strip(ss[0]) if ss[0].get("kind") in ("ExprWithCleanups",) else ss[0], ss[1:]
        kind = s.get("kind")
        if kind == "CompoundStmt":
            return self.stmts(self.flatten(s) + rest, env, k, brk)
        if kind == "ReturnStmt":
            inner = kids(s)
            if not inner:
                return self.result(None, env)
            p, c, t = self.ex(inner[0], env)
            if self.const and self.ret != t and not (self.ret == "bytes" and t == "obytes"):
                raise Untranslatable("return of type %s from a function returning %s" % (t, self.ret))
            return "\n".join(p + [self.result(c, env)])
        if kind == "BreakStmt":
            if brk is None:
                raise Untranslatable("break outside a switch")
            return brk(env)
        if kind == "IfStmt":
            parts = kids(s)
            cnd, then = parts[0], parts[1]
            els = parts[2] if len(parts) > 2 else None
            tss, ess = self.flatten(then), self.flatten(els)
            if not self.has_return(then) and not self.has_return(els):
                names = self.assigned(tss + ess, env)
                if self.const:
                    raise Untranslatable("branch without return in a const function")
                tup = lambda e: self.join_tuple(names, e)
                saved_counters = (self.nloops, self.ctx.tmp)
                code = self.cond(cnd, env, lambda: self.stmts(tss, dict(env), tup, None), lambda: self.stmts(ess, dict(env), tup, None))
                if names and not self.free and "let s :=" not in code and "let (s," not in code:
                    self.nloops, self.ctx.tmp = saved_counters
                    # the state is not touched in either branch: the join carries the locals only
                    tup = lambda e: (lambda ps: ps[0] if len(ps) == 1 else "(" + ", ".join(ps) + ")")([e[x][0] for x in names])
                    code = self.cond(cnd, env, lambda: self.stmts(tss, dict(env), tup, None), lambda: self.stmts(ess, dict(env), tup, None))
                # a condition with prefix lines (state-changing calls) cannot be a `let … := if`: wrap
                lhs = tup(env)
                return "let %s :=\n%s\n%s" % (lhs, ind(code), self.stmts(rest, env, k, brk))
            return self.cond(cnd, env, lambda: self.stmts(tss + rest, dict(env), k, brk), lambda: self.stmts(ess + rest, dict(env), k, brk))
        if kind == "SwitchStmt":
            parts = kids(s)
            subj = parts[0]
            comp = [c for c in parts if c.get("kind") == "CompoundStmt"][0]
            cases = []           # (label node or None, [stmts])
            for c in kids(comp):
                cur = c
                labels = []
                while cur.get("kind") in ("CaseStmt", "DefaultStmt"):
                    ks = kids(cur)
                    if cur["kind"] == "CaseStmt":
                        labels.append(ks[0]); cur = ks[-1]
                    else:
                        labels.append(None); cur = ks[-1]
                if labels:
                    cases.append((labels, [cur]))
                else:
                    if not cases:
                        raise Untranslatable("statement before the first case")
                    cases[-1][1].append(c)
            ps, cs, ts = self.ex(subj, env)
            for labels, body in cases:
                flat = []
                for b in body:
                    flat += self.flatten(b)
                if not flat or strip(flat[-1]).get("kind") not in ("BreakStmt", "ReturnStmt"):
                    raise Untranslatable("switch case that falls through")
            anyret = any(self.has_return({"kind": "X", "inner": [b for b in body if strip(b).get("kind") != "BreakStmt"][:-1] + ([] if strip(body[-1]).get("kind") == "BreakStmt" else [body[-1]])}) for _, body in cases)
            def case_chain(i, after):
                if i == len(cases):
                    return after(env)
                labels, body = cases[i]
                flat = []
                for b in body:
                    flat += self.flatten(b)
                tests = []
                for l in labels:
                    if l is None:
                        tests = None
                        break
                    pl, cl, tl = self.ex(l, env)
                    tests.append(self.binop("==", cs, ts, cl, tl)[0])
                inner = self.stmts(flat, dict(env), after, after)
                if tests is None:
                    return inner
                return "if %s then\n%s\nelse\n%s" % (" || ".join(tests), ind(inner), ind(case_chain(i + 1, after)))
            if not anyret:
                allss = []
                for _, body in cases:
                    for b in body:
                        allss += self.flatten(b)
                names = self.assigned(allss, env)
                tup = lambda e: self.join_tuple(names, e)
                code = case_chain(0, tup)
                return "\n".join(ps + ["let %s :=\n%s\n%s" % (tup(env), ind(code), self.stmts(rest, env, k, brk))])
            return "\n".join(ps + [case_chain(0, lambda e: self.stmts(rest, e, k, brk))])
        if kind == "ContinueStmt":
            if self.cont_cb is None:
                raise Untranslatable("continue outside a loop")
            return self.cont_cb(env)
        if kind in ("ForStmt", "WhileStmt"):
            if self.free:
                return self.loop(s, rest, env, k, brk)
            try:
                lines, env2 = self.map_loop(s, env)
                return "\n".join(lines + [self.stmts(rest, env2, k, brk)])
            except Untranslatable as e1:
                # a loop over locals only (no call that changes the object's state in it): the general translation
                if self.effectful(s):
                    raise e1
                code = self.loop(s, rest, env, k, brk)
                if "let s :=" in code.split("match go")[0] or "let (s," in code.split("match go")[0]:
                    raise e1
                return code
        lines, env2 = self.simple(s, env)
        return "\n".join(lines + [self.stmts(rest, env2, k, brk)])

    # ------------------------------------------------------------------ loops of pure functions
    def list_iteration(self, s, env):
        """foreach (x, list) / for (it = list.begin(); it != list.end(); ++it)  ->  (element name, list code, body stmts, deref?)"""
        if s["kind"] != "ForStmt":
            return None
        raw = s.get("inner", [])
        init, cnd, inc, body = raw[0], raw[2], raw[3], raw[4]
        if not init or init.get("kind") != "DeclStmt" or len(kids(init)) != 1:
            return None
        v = kids(init)[0]
        if v.get("kind") != "VarDecl" or not kids(v):
            return None
        i0 = strip(kids(v)[0])
        if v["name"].startswith("_container_"):
            # Q_FOREACH: for (auto c = qMakeForeachContainer(L); c.i != c.e; ++c.i) if (T x = *c.i; false) {} else BODY
            if i0.get("kind") != "CallExpr" or strip(kids(i0)[0]).get("referencedDecl", {}).get("name") != "qMakeForeachContainer":
                return None
            pl, cl, tl = self.ex(kids(i0)[1], env)
            b0 = body
            while b0.get("kind") == "CompoundStmt" and len(kids(b0)) == 1:
                b0 = kids(b0)[0]
            if tl not in LIST_ELEM or pl or b0.get("kind") != "IfStmt":
                return None
            parts = kids(b0)
            if parts[0].get("kind") != "DeclStmt":
                return None
            elem = kids(parts[0])[0]["name"]
            self.iter_elem_ty = LIST_ELEM[tl]
            return elem, cl, self.flatten(parts[-1]), False
        if i0.get("kind") == "IntegerLiteral" and i0.get("value") == "0" and ty_of(qt(v)) == "int":
            iname = v["name"]
            c0 = strip(cnd)
            lst = None
            if c0.get("kind") == "BinaryOperator" and c0.get("opcode") == "<" and strip(kids(c0)[0]).get("referencedDecl", {}).get("name") == iname:
                r = strip(kids(c0)[1])
                rn = r.get("referencedDecl", {}).get("name")
                if r.get("kind") == "DeclRefExpr" and rn and (rn + "$countof") in env:
                    lst = env[rn + "$countof"][0]
                if r.get("kind") == "CXXMemberCallExpr" and strip(kids(r)[0]).get("name") in ("count", "size", "length") and len(kids(r)) == 1:
                    ln0 = strip(kids(strip(kids(r)[0]))[0])
                    lname = ln0.get("referencedDecl", {}).get("name")
                    if ln0.get("kind") == "DeclRefExpr" and lname in env and env[lname][1] == "blist":
                        lst = lname
            n0 = strip(inc) if inc and inc.get("kind") else {}
            isinc = (n0.get("kind") == "UnaryOperator" and n0.get("opcode") == "++" and strip(kids(n0)[0]).get("referencedDecl", {}).get("name") == iname)
            if lst is not None and isinc:
                # every use of the index in the body must be L.at(i) / L[i] / L.value(i), and L itself must not change
                okuse = [True]
                def uses(n, parent_ok):
                    n1 = n
                    if n1.get("kind") == "DeclRefExpr" and n1.get("referencedDecl", {}).get("name") == iname and not parent_ok:
                        okuse[0] = False
                    for c in kids(n1):
                        ok_here = False
                        s1 = strip(n1)
                        if s1.get("kind") == "CXXMemberCallExpr" and strip(kids(s1)[0]).get("name") in ("at", "value") \
                                and strip(kids(strip(kids(s1)[0]))[0]).get("referencedDecl", {}).get("name") == lst:
                            ok_here = True
                        if s1.get("kind") == "CXXOperatorCallExpr" and strip(kids(s1)[0]).get("referencedDecl", {}).get("name") == "operator[]" \
                                and strip(kids(s1)[1]).get("referencedDecl", {}).get("name") == lst:
                            ok_here = True
                        uses(c, ok_here or (parent_ok and n1.get("kind") in WRAP))
                uses(body, False)
                if okuse[0] and lst not in self.assigned(self.flatten(body), env):
                    self.index_elem = (lst, iname)
                    return "%s_%s" % (lst, iname), env[lst][0], self.flatten(body), "index"
        if i0.get("kind") == "CXXMemberCallExpr" and strip(kids(i0)[0]).get("name") in ("constBegin", "begin", "cbegin") and "iterator" in qt(v):
            pl, cl, tl = self.ex(kids(strip(kids(i0)[0]))[0], env)
            if tl != "blist" or pl:
                return None
            itname = v["name"]
            c0 = strip(cnd)
            ok = c0.get("kind") == "CXXOperatorCallExpr" and strip(kids(c0)[0]).get("referencedDecl", {}).get("name") == "operator!=" \
                and strip(kids(c0)[1]).get("referencedDecl", {}).get("name") == itname
            if ok:
                r = strip(kids(c0)[2])
                ok = r.get("kind") == "CXXMemberCallExpr" and strip(kids(r)[0]).get("name") in ("constEnd", "end", "cend") \
                    and self.ex(kids(strip(kids(r)[0]))[0], env)[1] == cl
            n0 = strip(inc)
            ok = ok and n0.get("kind") == "CXXOperatorCallExpr" and strip(kids(n0)[0]).get("referencedDecl", {}).get("name") == "operator++" \
                and strip(kids(n0)[1]).get("referencedDecl", {}).get("name") == itname
            if not ok:
                return None
            return itname, cl, self.flatten(body), True
        return None

    def loop(self, s, rest, env, k, brk):
        self.nloops += 1
        g = "go%d" % self.nloops
        rty = LEAN_TY.get(self.ret, "Unit") if self.ret != "void" else "Unit"
        self.iter_elem_ty = "bytes"
        it = self.list_iteration(s, env)
        elem_ty = self.iter_elem_ty
        carry = getattr(self, "carry_state", False)
        pre_lines = []
        if it:
            elem, lcode, bss, deref = it
            inc_ss = []
            cnd = None
        else:
            if s["kind"] == "ForStmt":
                raw = s.get("inner", [])
                init, cnd, inc, body = raw[0], raw[2], raw[3], raw[4]
                if init and init.get("kind"):
                    pre_lines, env = self.simple(init, env)
                inc_ss = [inc] if inc and inc.get("kind") else []
            else:
                raw = kids(s)
                cnd, body = raw[0], raw[1]
                inc_ss = []
            bss = self.flatten(body)
            if cnd is None or not cnd.get("kind"):
                raise Untranslatable("loop without a condition")
            self.needs_fuel = True
        names = sorted(self.assigned(bss + inc_ss, env))
        for nme in names:
            if not re.match(r"^[A-Za-z_][A-Za-z0-9_']*$", env[nme][0]) or env[nme][1] not in LEAN_TY:
                raise Untranslatable("loop that assigns " + nme)
        def tup(exitc, e):
            parts = [exitc] + (["s"] if carry else []) + [e[v][0] for v in names]
            return parts[0] if len(parts) == 1 else "(" + ", ".join(parts) + ")"
        params = (" (s : %s)" % self.state_ty if carry else "") + "".join(" (%s : %s)" % (env[v][0], LEAN_TY[env[v][1]]) for v in names)
        oty = " × ".join(["Option " + rty] + ([self.state_ty] if carry else []) + [LEAN_TY[env[v][1]] for v in names])
        saved_ret, saved_cont = self.ret_override, self.cont_cb
        self.ret_override = lambda val, e: tup("(some %s)" % (val if val is not None else "()"), e)
        try:
            if it:
                again = lambda e: "%s tl_%s%s" % (g, " s" if carry else "", "".join(" " + e[v][0] for v in names))
                self.cont_cb = again
                env_in = dict(env)
                env_in[elem] = (elem, elem_ty)
                if deref == "index":
                    env_in["$index"] = (self.index_elem, elem)
                elif deref:
                    env_in[elem] = (elem, "iterelem")
                body_code = self.stmts(bss, env_in, again, lambda e: tup("none", e))
                fn = "let rec %s (l_ : List %s)%s : %s :=\n  match l_ with\n  | [] => %s\n  | %s :: tl_ =>\n%s" % (
                    g, LEAN_TY[elem_ty], params, oty, tup("none", env), elem, ind(body_code, 4))
                call = "%s %s%s%s" % (g, lcode, " s" if carry else "", "".join(" " + env[v][0] for v in names))
            else:
                def again(e):
                    if not inc_ss:
                        return "%s fuel%s" % (g, "".join(" " + e[v][0] for v in names))
                    l, e2 = self.simple(inc_ss[0], e)
                    return "\n".join(l + ["%s fuel%s" % (g, "".join(" " + e2[v][0] for v in names))])
                self.cont_cb = again
                inner = self.cond(cnd, env, lambda: self.stmts(bss, dict(env), again, lambda e: tup("none", e)), lambda: tup("none", env))
                fn = "let rec %s (fuel : Nat)%s : %s :=\n  match fuel with\n  | 0 => %s\n  | fuel + 1 =>\n%s" % (
                    g, params, oty, tup("none", env), ind(inner, 4))
                call = "%s fuel%s" % (g, "".join(" " + env[v][0] for v in names))
        finally:
            self.ret_override, self.cont_cb = saved_ret, saved_cont
        after = self.stmts(rest, env, k, brk)
        pat_some = tup("some r_", env)
        pat_none = tup("none", env)
        from cxx2lean import has_kind
        if not any(has_kind(b, "ReturnStmt") for b in bss):
            # no `return` inside the loop: it can only be left by its condition or a break
            return "\n".join(pre_lines + [fn, "match %s with\n| %s =>\n%s" % (call, tup("_", env), ind(after))])
        early = self.result("r_" if self.ret != "void" else None, env)
        return "\n".join(pre_lines + [fn, "match %s with\n| %s => %s\n| %s =>\n%s" % (call, pat_some, early, pat_none, ind(after))])

    # ------------------------------------------------------------------ iteration over a header map
    def map_loop(self, s, env):
        """for (auto i = M.constBegin(); i != M.constEnd(); ++i) { acc.append(i.key()) … }   (or begin/end/cbegin/cend)
        -> let acc := M.foldl (fun acc e => …) acc"""
        def is_incr(n, itname):
            i0 = strip(n)
            if i0.get("kind") == "CXXOperatorCallExpr" and strip(kids(i0)[0]).get("referencedDecl", {}).get("name") == "operator++":
                return strip(kids(i0)[1]).get("referencedDecl", {}).get("name") == itname
            return False
        def end_of(n):
            """the map whose end() the expression denotes, as Lean code"""
            r = strip(n)
            if r.get("kind") == "CXXMemberCallExpr" and strip(kids(r)[0]).get("name") in ("constEnd", "end", "cend"):
                return self.ex(kids(strip(kids(r)[0]))[0], env)[1]
            nm2 = r.get("referencedDecl", {}).get("name")
            if nm2 in env and env[nm2][1] == "iter" and env[nm2][0][0] == "end":
                return env[nm2][0][1]
            return None
        pm = []
        if s["kind"] == "ForStmt":
            # clang: [init, condvar(None -> {}), cond, inc, body]
            raw = s.get("inner", [])
            init, cnd, inc, body = raw[0], raw[2], raw[3], raw[4]
            if init.get("kind") != "DeclStmt" or len(kids(init)) != 1:
                raise Untranslatable("for loop without an iterator declaration")
            it = kids(init)[0]
            itname = it["name"]
            b = strip(kids(it)[0])
            if b.get("kind") != "CXXMemberCallExpr" or strip(kids(b)[0]).get("name") not in ("constBegin", "begin", "cbegin"):
                raise Untranslatable("loop that does not start at begin()")
            pm, cm, tm = self.ex(kids(strip(kids(b)[0]))[0], env)
            if tm != "hmap":
                raise Untranslatable("iteration over " + tm)
            if not is_incr(inc, itname):
                raise Untranslatable("loop that is not `for (i = m.begin(); i != m.end(); ++i)`")
            bss = self.flatten(body)
        else:
            # while (it != end) { …; ++it; }  with `it` a local iterator at begin()
            raw = kids(s)
            cnd, body = raw[0], raw[1]
            c0 = strip(cnd)
            if c0.get("kind") != "CXXOperatorCallExpr":
                raise Untranslatable("while loop over something else than an iterator")
            itname = strip(kids(c0)[1]).get("referencedDecl", {}).get("name")
            if itname not in env or env[itname][1] != "iter" or env[itname][0][0] != "begin":
                raise Untranslatable("while loop whose iterator is not at begin()")
            cm = env[itname][0][1]
            bss = self.flatten(body)
            if not bss or not is_incr(bss[-1], itname):
                raise Untranslatable("while loop that does not end with ++iterator")
            bss = bss[:-1]
        c0 = strip(cnd)
        ok = False
        if c0.get("kind") == "CXXOperatorCallExpr" and strip(kids(c0)[0]).get("referencedDecl", {}).get("name") == "operator!=":
            l = strip(kids(c0)[1])
            ok = l.get("referencedDecl", {}).get("name") == itname and end_of(kids(c0)[2]) == cm
        if not ok:
            raise Untranslatable("loop that does not run from begin() to end() of one map")
        names = self.assigned(bss, env)
        if not names and not self.free:
            # the body only acts on the state (writes each entry somewhere): a fold with the state as accumulator
            env_in = dict(env)
            sub = ItFn(self, itname)
            lines = []
            for st in bss:
                l, env_in = sub.simple(st, env_in)
                lines += l
            self.uses_env = self.uses_env or sub.uses_env
            self.oracles = sub.oracles
            body_code = "\n".join(lines + ["s"])
            return pm + ["let s := %s.foldl (fun s e =>\n%s) s" % (cm, ind(body_code, 4))], env
        if len(names) != 1 or env[names[0]][1] != "bytes":
            raise Untranslatable("loop body that does more than append to one byte array")
        acc = env[names[0]][0]
        env_in = dict(env)
        env_in["$it"] = itname
        lines = []
        sub = ItFn(self, itname)
        for st in bss:
            l, env_in = sub.simple(st, env_in)
            lines += l
        for l in lines:
            if l.startswith("let s :=") or l.startswith("let (s,"):
                raise Untranslatable("state change inside the loop")
        body_code = "\n".join(lines + [acc])
        return pm + ["let %s : Bytes := %s.foldl (fun %s e =>\n%s) %s" % (acc, cm, acc, ind(body_code, 4), acc)], env


class ItFn(Fn):
    """expressions inside the map loop: `i.key()` / `i.value()` are e.1 / e.2"""
    def __init__(self, outer, itname):
        self.__dict__.update(outer.__dict__)
        self.itname = itname
        self.outer_cls = outer.__class__ if not isinstance(outer, ItFn) else outer.outer_cls

    def call_member(self, n, env, want_value):
        return self.outer_cls.call_member(self, n, env, want_value)

    def call_free(self, n, env, want_value):
        return self.outer_cls.call_free(self, n, env, want_value)

    def member(self, n):
        return self.outer_cls.member(self, n)

    def obj_path(self, n):
        return self.outer_cls.obj_path(self, n)

    def effectful(self, n):
        return self.outer_cls.effectful(self, n)

    def ex(self, n, env):
        n0 = strip(n)
        if n0.get("kind") == "CXXMemberCallExpr":
            callee = strip(kids(n0)[0])
            if callee.get("kind") == "MemberExpr" and strip(kids(callee)[0]).get("referencedDecl", {}).get("name") == self.itname:
                if callee["name"] == "key":
                    return [], "e.1", "bytes"
                if callee["name"] == "value":
                    return [], "e.2", "bytes"
        return self.outer_cls.ex(self, n, env)


# ---------------------------------------------------------------------------------------------------

WANTED = ["SocketPrivate::onReadyRead", "SocketPrivate::onBytesWritten", "SocketPrivate::onReadChannelFinished", "SocketPrivate::readHeaders",
          "SocketPrivate::readData", "Socket::bytesAvailable", "Socket::close", "Socket::isHeadersParsed", "Socket::contentLength",
          "Socket::setStatusCode", "Socket::setHeader", "Socket::setHeaders", "Socket::writeHeaders", "Socket::writeRedirect",
          "Socket::writeError", "Socket::writeJson", "Socket::readData", "Socket::writeData"]


def translate_socket(repo, exp):
    """returns (lean text or None, done [names], failed [descriptions])"""
    docs = clang_ast(repo, "socket.cpp", "QHttpEngine::", exp)
    decls = {}
    def collect(n, cls=None):
        k = n.get("kind")
        if k in ("CXXMethodDecl", "CXXConstructorDecl") and body_of(n) is not None and k == "CXXMethodDecl":
            c = cls
            if c is None:
                # out-of-line definition: the parent class is named in the mangled/qualified info
                c = parent_of(n)
            if c:
                decls[c + "::" + n["name"]] = n
        for ch in n.get("inner", []) or []:
            if ch.get("kind") in ("CXXRecordDecl", "NamespaceDecl"):
                collect(ch, ch.get("name") if ch.get("kind") == "CXXRecordDecl" else None)
            elif ch.get("kind") == "CXXMethodDecl":
                collect(ch, cls)
    by_id = {}
    def index(n, cls=None):
        if n.get("kind") == "CXXRecordDecl" and n.get("name"):
            cls = n["name"]
        if n.get("kind") == "CXXMethodDecl" and "id" in n and cls:
            by_id[n["id"]] = cls
        for ch in n.get("inner", []) or []:
            index(ch, cls)
    def parent_of(n):
        pid = n.get("previousDecl") or n.get("parentDeclContextId")
        if n.get("previousDecl") in by_id:
            return by_id[n["previousDecl"]]
        return None
    for d in docs:
        index(d)
    for d in docs:
        collect(d)
    senums = enum_values(docs, "Socket")
    penums = enum_values(docs, "SocketPrivate")
    # the library version string used by the error page
    version = None
    try:
        import os
        top = open(os.path.join(repo, "CMakeLists.txt")).read()
        m = re.search(r"project\s*\(\s*\w+\s+VERSION\s+([0-9.]+)", top, re.I)
        if m:
            version = m.group(1)
        else:
            ms = [re.search(r"PROJECT_VERSION_%s\s+(\d+)" % kx, top) for kx in ("MAJOR", "MINOR", "PATCH")]
            if all(ms):
                version = ".".join(x.group(1) for x in ms)
    except OSError:
        pass
    ctx = Ctx(decls, senums, version or "")
    ctx.fetch = lambda name: clang_ast(repo, "socket.cpp", name, exp)
    done, failed = [], []
    for key in WANTED:
        try:
            ctx.need(key)
        except Untranslatable as e:
            failed.append("%s (%s)" % (key, e))
    out = ["-- GENERATED on every run by tools/cxx2lean_qt.py from src/src/socket.cpp — do not edit.",
           "import Qhttp.Model.CxxPrim", "set_option linter.unusedVariables false", "", "namespace QhttpGen.Sock", "open Qhttp", "",
           "/-- declaration order of the private state enums, as read from socket_p.h -/",
           "def enumCodes : List (String × Int) :=\n  [" + ", ".join('("%s", %d)' % (n, penums[n]) for n in ENUMS if n in penums) + "]", ""]
    for key in ctx.order:
        out.append(ctx.code[key])
        done.append(key)
    helpers = [ctx.done[k]["name"] for k in ctx.order if k not in WANTED]
    out.append("end QhttpGen.Sock\n")
    out.append("/-- unfolds the functions the translation produced besides the interface functions (helpers introduced\n"
               "    by the C++: private methods, file-scope functions); the bridge proofs start with it -/")
    if helpers:
        out.append("macro \"unfold_gen_helpers\" : tactic => `(tactic| try simp only [%s] at *)\n" % ", ".join("QhttpGen.Sock." + h for h in helpers))
    else:
        out.append("macro \"unfold_gen_helpers\" : tactic => `(tactic| skip)\n")
    return "\n".join(out), done, failed


# --------------------------------------------------------------------------------------------------- proxysocket.cpp

PROXY_FIELDS = {"mHeadersParsed": ("headersParsed", "bool"), "mHeadersWritten": ("headersWritten", "bool"),
                "mUpstreamRead": ("upRead", "bytes"), "mUpstreamWrite": ("buf", "bytes")}
PROXY_WANTED = ["ProxySocket::onDownstreamReadyRead", "ProxySocket::onUpstreamReadyRead", "ProxySocket::onUpstreamError", "ProxySocket::onUpstreamConnected"]
KEEP_SETS = {"/:@!$&'()*+,;=": "Proxy.pathKeep", "?/:@!$&'()*+,;=%#[]": "Proxy.queryKeep"}


class ProxyFn(Fn):
    """slots of ProxySocket over the model's `Proxy.St`: the downstream HTTP socket is driven through the socket model's
    API (`Px.ds…`), writes to the upstream socket are appended to `toUp`, what the two sockets hand out when read is an
    oracle parameter of the slot (`upChunk`, `dsChunk`)"""
    def __init__(self, ctx, key):
        Fn.__init__(self, ctx, key)
        self.fields = PROXY_FIELDS
        self.state_ty = "Proxy.St"
        self.env_sig = "(env : Env) "
        # the error code parameter of onUpstreamError is not used by the slot
        self.params = [p for p in self.params if not p[2].startswith("?")]
        self.needs_cfg = False

    def translate(self):
        text = Fn.translate(self)
        self.info["cfg"] = self.needs_cfg
        if self.needs_cfg:
            text = text.replace("(s : Proxy.St)", "(c : Proxy.Cfg) (s : Proxy.St)", 1)
        return text

    def member(self, n):
        n = strip(n)
        if n.get("kind") == "MemberExpr" and kids(n) and strip(kids(n)[0]).get("kind") == "CXXThisExpr":
            return n["name"]
        return None

    def obj_path(self, n):
        m = self.member(n)
        if m == "mUpstreamSocket":
            return "up"
        if m == "mDownstreamSocket":
            return "ds"
        if m is not None:
            return ("field", m)
        n0 = strip(n)
        if n0.get("kind") == "CXXThisExpr":
            return "this"
        if n0.get("kind") == "DeclRefExpr" and n0.get("referencedDecl", {}).get("kind") in ("VarDecl", "ParmVarDecl"):
            return ("local", n0["referencedDecl"]["name"])
        return None

    def effectful(self, n):
        n0 = strip(n)
        if n0.get("kind") == "CXXMemberCallExpr":
            callee = strip(kids(n0)[0])
            if callee.get("kind") == "MemberExpr" and kids(callee) and self.obj_path(kids(callee)[0]) in ("up", "ds"):
                return True
        if n0.get("kind") == "CallExpr" and strip(kids(n0)[0]).get("referencedDecl", {}).get("name") == "parseResponseHeaders":
            return True
        return any(self.effectful(c) for c in kids(n0))

    def oracle(self, name):
        if name not in self.oracles:
            self.oracles.append(name)
        return name

    def call_member(self, n, env, want_value):
        ks = kids(n)
        callee = strip(ks[0])
        if callee.get("kind") == "MemberExpr" and kids(callee):
            obj = self.obj_path(kids(callee)[0])
            nm = callee["name"]
            real = [x for x in ks[1:] if x.get("kind") != "CXXDefaultArgExpr"]
            if obj == "up":
                if nm == "readAll" and not real:
                    return [], self.oracle("upChunk"), "bytes"
                if nm == "write" and len(real) == 1:
                    pre, a = self.args(real, env)
                    if a[0][1] == "bytes":
                        return pre + ["let s := Px.upWrite s %s" % a[0][0]], "()", "void"
                raise Untranslatable("mUpstreamSocket." + nm)
            if obj == "ds" and not real and nm in ("rawPath", "method", "headers"):
                return [], {"rawPath": "s.sock.rawPath", "method": "((s.sock.method : Nat) : Int)", "headers": "s.sock.reqHeaders"}[nm], \
                    {"rawPath": "bytes", "method": "int", "headers": "hmap"}[nm]
            if obj == "ds":
                self.uses_env = True
                pre, a = self.args(real, env)
                tys = [t for _, t in a]
                if nm == "readAll" and not a:
                    return [], self.oracle("dsChunk"), "bytes"
                if nm == "writeError" and tys == ["int"]:
                    return pre + ["let s := Px.dsWriteError env s %s" % a[0][0]], "()", "void"
                if nm == "setStatusCode" and tys == ["int", "bytes"]:
                    return pre + ["let s := Px.dsSetStatusCode env s %s %s" % (a[0][0], a[1][0])], "()", "void"
                if nm == "setHeaders" and tys == ["hmap"]:
                    return pre + ["let s := Px.dsSetHeaders s %s" % a[0][0]], "()", "void"
                if nm == "writeHeaders" and not a:
                    return pre + ["let s := Px.dsWriteHeaders env s"], "()", "void"
                if nm == "write" and tys == ["bytes"]:
                    return pre + ["let s := Px.dsWrite env s %s" % a[0][0]], "()", "void"
                if nm == "close" and not a:
                    return pre + ["let s := Px.dsClose env s"], "()", "void"
                raise Untranslatable("mDownstreamSocket->%s(%s)" % (nm, ", ".join(tys)))
            # mDownstreamSocket->peerAddress().toString().toUtf8()
            if nm in ("toUtf8", "toLatin1") and not real:
                o1 = strip(kids(callee)[0])
                if o1.get("kind") == "CXXMemberCallExpr" and strip(kids(o1)[0]).get("name") == "toString":
                    o2 = strip(kids(strip(kids(o1)[0]))[0])
                    if o2.get("kind") == "CXXMemberCallExpr" and strip(kids(o2)[0]).get("name") == "peerAddress" \
                            and self.obj_path(kids(strip(kids(o2)[0]))[0]) == "ds":
                        self.needs_cfg = True
                        return [], "c.peerIP", "bytes"
                # methodToString(m).toUtf8()
                if o1.get("kind") == "CXXMemberCallExpr" and strip(kids(o1)[0]).get("name") == "methodToString":
                    a1 = [x for x in kids(o1)[1:] if x.get("kind") != "CXXDefaultArgExpr"]
                    p, c, t = self.ex(a1[0], env)
                    if t == "int":
                        return p, "(Proxy.methodToString %s.toNat)" % c, "bytes"
            # x.toPercentEncoding("keep")
            if nm == "toPercentEncoding" and len(real) == 1:
                lit0 = strip(real[0])
                if lit0.get("kind") == "StringLiteral" and json.loads(lit0["value"]) in KEEP_SETS:
                    p, c, t = self.ex(kids(callee)[0], env)
                    if t == "bytes":
                        return p, "(pctEncode %s %s)" % (KEEP_SETS[json.loads(lit0["value"])], c), "bytes"
                raise Untranslatable("toPercentEncoding with another exclusion set")
            # header map: values(key) is a list, most recent first
            if nm == "values" and len(real) == 1:
                p0, c0, t0 = self.ex(kids(callee)[0], env)
                p1, c1, t1 = self.ex(real[0], env)
                if t0 == "hmap" and t1 == "bytes":
                    return p0 + p1, "(HeaderMap.values %s %s)" % (c1, c0), "blist"
        return Fn.call_member(self, n, env, want_value)

    def call_free(self, n, env, want_value):
        ks = kids(n)
        fn = strip(ks[0])
        nm = fn.get("referencedDecl", {}).get("name")
        real = [x for x in ks[1:] if x.get("kind") != "CXXDefaultArgExpr"]
        if nm == "toPercentEncoding" and len(real) == 2:
            # QUrl::toPercentEncoding(mPath, "keep")
            lit0 = strip(real[1])
            if lit0.get("kind") == "StringLiteral" and json.loads(lit0["value"]) in KEEP_SETS and self.member(real[0]) == "mPath":
                self.needs_cfg = True
                return [], "(pctEncode %s c.path)" % KEEP_SETS[json.loads(lit0["value"])], "bytes"
            raise Untranslatable("QUrl::toPercentEncoding of something else than mPath with a known exclusion set")
        if nm == "parseResponseHeaders" and len(real) == 4:
            pre, a = self.args(real[:1], env)
            outs = []
            for an, ty in zip(real[1:], ("int", "bytes", "hmap")):
                a0 = strip(an)
                vn = a0.get("referencedDecl", {}).get("name")
                if a0.get("kind") != "DeclRefExpr" or vn not in env or env[vn][1] != ty:
                    raise Untranslatable("parseResponseHeaders with an out-parameter that is not a local of the right type")
                outs.append(env[vn][0])
            t = self.ctx.fresh()
            return pre + ["let (%s, %s) := Px.parseResponseHeaders %s %s" % (t, ", ".join(outs), a[0][0], " ".join(outs))], t, "bool"
        return Fn.call_free(self, n, env, want_value)


def translate_proxy(repo, exp):
    docs = clang_ast(repo, "proxysocket.cpp", "ProxySocket::", exp)
    decls = {}
    for d in docs:
        if d.get("kind") == "CXXMethodDecl" and body_of(d) is not None:
            decls["ProxySocket::" + d["name"]] = d
    sdocs = clang_ast(repo, "proxysocket.cpp", "QHttpEngine::Socket", exp)
    senums = enum_values(sdocs, "Socket")
    ctx = Ctx(decls, senums, "")
    ctx.fetch = lambda name: clang_ast(repo, "proxysocket.cpp", name, exp)
    ctx.fn_class = ProxyFn
    done, failed = [], []
    for key in PROXY_WANTED:
        try:
            ctx.need(key)
        except Untranslatable as e:
            failed.append("%s (%s)" % (key, e))
    out = ["-- GENERATED on every run by tools/cxx2lean_qt.py from src/src/proxysocket.cpp — do not edit.",
           "import Qhttp.Model.PxPrim", "set_option linter.unusedVariables false", "", "namespace QhttpGen.Proxy", "open Qhttp", ""]
    for key in ctx.order:
        out.append(ctx.code[key]); done.append(key)
    helpers = [ctx.done[k]["name"] for k in ctx.order if k not in PROXY_WANTED]
    out.append("end QhttpGen.Proxy\n")
    if helpers:
        out.append("macro \"unfold_proxy_helpers\" : tactic => `(tactic| try simp only [%s] at *)\n" % ", ".join("QhttpGen.Proxy." + h for h in helpers))
    else:
        out.append("macro \"unfold_proxy_helpers\" : tactic => `(tactic| skip)\n")
    return "\n".join(out), done, failed



# --------------------------------------------------------------------------------------------------- filesystemhandler.cpp

FS_WANTED = ["FilesystemHandlerPrivate::absolutePath", "FilesystemHandler::process"]


class FsFn(Fn):
    """`FilesystemHandlerPrivate::absolutePath` (pure: the served location or refusal) and `FilesystemHandler::process`
    (which of 500 / 404 / directory listing / file transfer happens), over the model's file-system environment `fe`.
    QString paths are byte strings; QDir / QFileInfo / QUrl::fromPercentEncoding are words of `Qhttp/Model/FxPrim.lean`."""
    def __init__(self, ctx, key):
        Fn.__init__(self, ctx, key)
        self.state_ty = "List Fx.Act"
        self.env_sig = "(fe : FsHandler.FsEnv) "
        self.uses_env = True
        self.params = [p for p in self.params if not p[2].startswith("?")]          # Socket *socket
        if key.endswith("::absolutePath"):
            self.free = True
            self.const = True
            self.inouts = ctx.inout.get(key, [])

    def translate(self):
        text = Fn.translate(self)
        if self.free and self.key.endswith("::absolutePath"):
            # a pure function still reads the environment
            text = text.replace("def %s " % self.info["name"], "def %s (fe : FsHandler.FsEnv) " % self.info["name"], 1)
            self.info["fe"] = True
        return text

    def member(self, n):
        n = strip(n)
        if n.get("kind") == "MemberExpr" and kids(n):
            base = strip(kids(n)[0])
            if base.get("kind") == "CXXThisExpr":
                return n["name"]
            if base.get("kind") == "MemberExpr" and base.get("name") == "d" and kids(base) and strip(kids(base)[0]).get("kind") == "CXXThisExpr":
                return n["name"]
        return None

    def obj_path(self, n):
        m = self.member(n)
        if m == "documentRoot":
            return "root"
        n0 = strip(n)
        if n0.get("kind") == "CXXThisExpr":
            return "this"
        if n0.get("kind") == "MemberExpr" and n0.get("name") == "d" and kids(n0) and strip(kids(n0)[0]).get("kind") == "CXXThisExpr":
            return "d"
        if n0.get("kind") == "DeclRefExpr" and n0.get("referencedDecl", {}).get("name") == "socket":
            return "socket"
        if n0.get("kind") == "DeclRefExpr" and n0.get("referencedDecl", {}).get("kind") in ("VarDecl", "ParmVarDecl"):
            return ("local", n0["referencedDecl"]["name"])
        return None

    def effectful(self, n):
        n0 = strip(n)
        if n0.get("kind") == "CXXMemberCallExpr":
            callee = strip(kids(n0)[0])
            if callee.get("kind") == "MemberExpr" and kids(callee):
                o = self.obj_path(kids(callee)[0])
                if o == "socket" or (o in ("d", "this") and callee.get("name") in ("processFile", "processDirectory", "absolutePath")):
                    return True
        return any(self.effectful(c) for c in kids(n0))

    def rebound(self, n, env):
        out = []
        def walk(x):
            x0 = strip(x)
            if x0.get("kind") == "CXXMemberCallExpr" and strip(kids(x0)[0]).get("name") == "absolutePath":
                a0 = strip(kids(x0)[2]) if len(kids(x0)) > 2 else {}
                vn = a0.get("referencedDecl", {}).get("name")
                if vn in env and vn not in out:
                    out.append(vn)
            for c in kids(x0):
                walk(c)
        walk(n)
        return sorted(out)

    def call_member(self, n, env, want_value):
        ks = kids(n)
        callee = strip(ks[0])
        if callee.get("kind") == "MemberExpr" and kids(callee):
            objn = kids(callee)[0]
            obj = self.obj_path(objn)
            nm = callee["name"]
            real = [x for x in ks[1:] if x.get("kind") != "CXXDefaultArgExpr"]
            if obj == "root":
                pre, a = self.args(real, env)
                tys = [t for _, t in a]
                if nm == "absoluteFilePath" and tys == ["bytes"]:
                    return pre, "(Fs.absoluteFilePath fe.root %s)" % a[0][0], "bytes"
                if nm == "relativeFilePath" and tys == ["bytes"]:
                    return pre, "(Fs.relativeFilePath fe.root %s)" % a[0][0], "bytes"
                if nm == "exists" and tys == ["bytes"]:
                    return pre, "(Fx.exists fe %s)" % a[0][0], "bool"
                if nm == "path" and not a:
                    return pre, "(Fx.rootPath fe)", "obytes"
                raise Untranslatable("documentRoot.%s" % nm)
            if obj == "socket":
                pre, a = self.args(real, env)
                if nm == "writeError" and [t for _, t in a] == ["int"]:
                    return pre + ["let s := Fx.err s %s" % a[0][0]], "()", "void"
                raise Untranslatable("socket->%s in the filesystem handler" % nm)
            if obj in ("d", "this") and nm in ("processFile", "processDirectory"):
                pre, a = self.args(real[1:], env)              # the first argument is the socket
                if nm == "processFile" and [t for _, t in a] == ["bytes"]:
                    return pre + ["let s := Fx.file s %s" % a[0][0]], "()", "void"
                if nm == "processDirectory" and [t for _, t in a] == ["bytes", "bytes"]:
                    return pre + ["let s := Fx.dir s %s %s" % (a[0][0], a[1][0])], "()", "void"
                raise Untranslatable("%s with these arguments" % nm)
            if obj in ("d", "this") and nm == "absolutePath" and len(real) == 2:
                info = self.ctx.need("FilesystemHandlerPrivate::absolutePath")
                p, c, t = self.ex(real[0], env)
                a0 = strip(real[1])
                vn = a0.get("referencedDecl", {}).get("name")
                if a0.get("kind") != "DeclRefExpr" or vn not in env or env[vn][1] != "bytes":
                    raise Untranslatable("absolutePath() with an out-parameter that is not a local string")
                tmp = self.ctx.fresh()
                return p + ["let (%s, %s) := %s fe %s %s" % (tmp, env[vn][0], info["name"], c, env[vn][0])], tmp, "bool"
            # QFileInfo(x).isDir()
            o0 = strip(objn)
            if nm == "isDir" and not real and "QFileInfo" in qt(objn):
                inner = [c for c in kids(o0) if c.get("kind") != "CXXDefaultArgExpr"] if o0.get("kind") in ("CXXConstructExpr", "CXXTemporaryObjectExpr", "CXXFunctionalCastExpr") else [o0]
                if len(inner) == 1:
                    p, c, t = self.ex(inner[0], env)
                    if t == "bytes":
                        return p, "(Fx.isDir fe %s)" % c, "bool"
            # QString value methods
            pre0, oc, ot = self.ex(objn, env)
            pre, a = self.args(real, env)
            if ot == "obytes" and nm == "isNull" and not a:
                return pre0, "%s.isNone" % oc, "bool"
            if ot == "bytes":
                if nm == "startsWith" and [t for _, t in a] == ["bytes"]:
                    return pre0 + pre, "(Qhttp.startsWith %s %s)" % (a[0][0], oc), "bool"
                if nm in ("toUtf8", "toLatin1") and not a:
                    return pre0, oc, "bytes"
                if nm == "isEmpty" and not a:
                    return pre0, "(%s.isEmpty)" % oc, "bool"
        return Fn.call_member(self, n, env, want_value)

    def call_free(self, n, env, want_value):
        ks = kids(n)
        fn = strip(ks[0])
        nm = fn.get("referencedDecl", {}).get("name")
        real = [x for x in ks[1:] if x.get("kind") != "CXXDefaultArgExpr"]
        if nm == "fromPercentEncoding" and len(real) == 1:
            p, c, t = self.ex(real[0], env)
            if t == "bytes":
                return p, "(Fs.pctDecode %s)" % c, "bytes"
        return Fn.call_free(self, n, env, want_value)


def translate_fs(repo, exp):
    QSTR_AS_BYTES[0] = True
    try:
        docs = clang_ast(repo, "filesystemhandler.cpp", "QHttpEngine::FilesystemHandler", exp)
        decls = {}
        by_id = {}
        def index(n, cls=None):
            if n.get("kind") == "CXXRecordDecl" and n.get("name"):
                cls = n["name"]
            if n.get("kind") == "CXXMethodDecl" and "id" in n and cls:
                by_id[n["id"]] = cls
            for ch in n.get("inner", []) or []:
                index(ch, cls)
        for d in docs:
            index(d)
        for d in docs:
            if d.get("kind") == "CXXMethodDecl" and body_of(d) is not None:
                cls = by_id.get(d.get("previousDecl"))
                if cls:
                    decls[cls + "::" + d["name"]] = d
        sdocs = clang_ast(repo, "filesystemhandler.cpp", "QHttpEngine::Socket", exp)
        senums = enum_values(sdocs, "Socket")
        ctx = Ctx(decls, senums, "")
        ctx.fetch = lambda name: clang_ast(repo, "filesystemhandler.cpp", name, exp)
        ctx.fn_class = FsFn
        done, failed = [], []
        for key in FS_WANTED:
            try:
                ctx.need(key)
            except Untranslatable as e:
                failed.append("%s (%s)" % (key, e))
        out = ["-- GENERATED on every run by tools/cxx2lean_qt.py from src/src/filesystemhandler.cpp — do not edit.",
               "import Qhttp.Model.FxPrim", "set_option linter.unusedVariables false", "", "namespace QhttpGen.Fs", "open Qhttp", ""]
        for key in ctx.order:
            out.append(ctx.code[key]); done.append(key)
        helpers = [ctx.done[k]["name"] for k in ctx.order if k not in FS_WANTED]
        out.append("end QhttpGen.Fs\n")
        if helpers:
            out.append("macro \"unfold_fs_helpers\" : tactic => `(tactic| try simp only [%s] at *)\n" % ", ".join("QhttpGen.Fs." + h for h in helpers))
        else:
            out.append("macro \"unfold_fs_helpers\" : tactic => `(tactic| skip)\n")
        return "\n".join(out), done, failed
    finally:
        QSTR_AS_BYTES[0] = False



class ActionProfile:
    """shared by the profiles whose state is a list of actions on the socket (Auth, Slot): iterators over the profile's
    own QMap (`constFind` / `constEnd` / `value()`), file-scope helpers that are handed the socket (`Socket *`: the action
    list goes through them; `const Socket *`: they only ask), the environment passed to pure helpers."""
    MAP_VALUE_TY = "bytes"

    def init_action_profile(self, ctx, key):
        raw, _, _ = ctx.sig(key)
        pds = [c for c in kids(ctx.decls[key]) if c.get("kind") == "ParmVarDecl"]
        mut_socket = any("Socket *" in qt(p) and "const" not in qt(p).split("Socket")[0] for p in pds)
        self.params = [p for p in self.params if not p[2].startswith("?")]
        if key.startswith("::"):
            if mut_socket:
                self.free = False
                self.const = False
                self.inouts = []
                if ctx.inout.get(key):
                    raise Untranslatable("helper with the socket and reference parameters")
        self.act_state = key.startswith("::") and mut_socket

    def finish_info(self):
        self.info["actenv"] = bool(self.free)            # pure helper: the environment is its first argument
        self.info["actstate"] = bool(self.act_state)

    def map_contains(self, key):
        raise NotImplementedError

    def map_value(self, key):
        raise NotImplementedError

    def custom_iter(self, nm, b0, env):
        if b0.get("kind") == "CXXMemberCallExpr" and strip(kids(b0)[0]).get("name") in ("constFind", "find") and \
                self.obj_path(kids(strip(kids(b0)[0]))[0]) == "map":
            real0 = [x for x in kids(b0)[1:] if x.get("kind") != "CXXDefaultArgExpr"]
            if len(real0) == 1:
                pk, ck, tk = self.ex(real0[0], env)
                if not pk:
                    env[nm] = (("mfind", ck), "iter")
                    return True
        return False

    def map_iter_ex(self, n0, env):
        """comparisons of a map iterator with end(), `it.value()`, `*it`; None when `n0` is something else"""
        def is_end(x):
            x = strip(x)
            return x.get("kind") == "CXXMemberCallExpr" and strip(kids(x)[0]).get("name") in ("constEnd", "end", "cend") and \
                self.obj_path(kids(strip(kids(x)[0]))[0]) == "map"
        def it_of(x):
            vn = strip(x).get("referencedDecl", {}).get("name")
            return env[vn][0][1] if vn in env and env[vn][1] == "iter" and env[vn][0][0] == "mfind" else None
        if n0.get("kind") == "CXXOperatorCallExpr":
            ks = kids(n0)
            opn = strip(ks[0]).get("referencedDecl", {}).get("name", "")
            if opn in ("operator==", "operator!=") and len(ks) == 3:
                for a0, b0 in ((ks[1], ks[2]), (ks[2], ks[1])):
                    k = it_of(a0)
                    if k is not None and is_end(b0):
                        c = self.map_contains(k)
                        return [], c if opn == "operator!=" else "(!%s)" % c, "bool"
            if opn == "operator*" and len(ks) == 2 and it_of(ks[1]) is not None:
                return [], self.map_value(it_of(ks[1])), self.MAP_VALUE_TY
        if n0.get("kind") == "CXXMemberCallExpr":
            callee = strip(kids(n0)[0])
            if callee.get("kind") == "MemberExpr" and callee.get("name") == "value" and kids(callee) and \
                    not [x for x in kids(n0)[1:] if x.get("kind") != "CXXDefaultArgExpr"]:
                k = it_of(kids(callee)[0])
                if k is not None:
                    return [], self.map_value(k), self.MAP_VALUE_TY
        return None


AUTH_WANTED = ["BasicAuthMiddleware::verify", "BasicAuthMiddleware::process", "LocalAuthMiddleware::process"]


class AuthFn(ActionProfile, Fn):
    """`BasicAuthMiddleware::process` / `verify` over the vocabulary of `Qhttp/Model/AxPrim.lean`: the middleware's
    map and realm and the request's headers are the environment `ae`, a QString is its UTF-8 encoding (the round
    trip through QString is `ae.round`), what happens on the socket is a list of actions."""
    def __init__(self, ctx, key):
        Fn.__init__(self, ctx, key)
        self.state_ty = "List Ax.Act"
        self.env_sig = "(ae : Ax.Env) "
        self.uses_env = True
        self.init_action_profile(ctx, key)
        if key.endswith("::verify"):
            self.const = True

    def translate(self):
        text = Fn.translate(self)
        self.finish_info()
        return text

    def map_contains(self, key):
        return "(Ax.mapContains ae.table %s)" % key

    def map_value(self, key):
        return "(Ax.mapValue ae.table %s)" % key

    def member(self, n):
        n = strip(n)
        if n.get("kind") == "MemberExpr" and kids(n):
            base = strip(kids(n)[0])
            if base.get("kind") == "MemberExpr" and base.get("name") == "d" and kids(base) and strip(kids(base)[0]).get("kind") == "CXXThisExpr":
                return n["name"]
        return None

    def obj_path(self, n):
        m = self.member(n)
        if m in ("map", "realm"):
            return m
        n0 = strip(n)
        if n0.get("kind") == "CXXThisExpr":
            return "this"
        if n0.get("kind") == "DeclRefExpr" and n0.get("referencedDecl", {}).get("name") == "socket":
            return "socket"
        if n0.get("kind") == "CXXMemberCallExpr" and strip(kids(n0)[0]).get("name") == "headers" and \
                self.obj_path(kids(strip(kids(n0)[0]))[0]) == "socket":
            return "headers"
        if n0.get("kind") == "DeclRefExpr" and n0.get("referencedDecl", {}).get("kind") in ("VarDecl", "ParmVarDecl"):
            return ("local", n0["referencedDecl"]["name"])
        return None

    def effectful(self, n):
        n0 = strip(n)
        if n0.get("kind") == "CXXMemberCallExpr":
            callee = strip(kids(n0)[0])
            if callee.get("kind") == "MemberExpr" and kids(callee):
                if self.obj_path(kids(callee)[0]) == "socket" and callee.get("name") != "headers":
                    return True
        return any(self.effectful(c) for c in kids(n0))

    def ex(self, n, env):
        n0 = strip(n)
        if n0.get("kind") == "MemberExpr" and self.member(n0) == "realm":
            return [], "ae.realm", "bytes"
        if n0.get("kind") == "MemberExpr" and self.member(n0) == "tokenHeader":
            return [], "ae.tokenHeader", "bytes"
        if n0.get("kind") == "MemberExpr" and self.member(n0) == "token":
            return [], "ae.token", "bytes"
        r = self.map_iter_ex(n0, env)
        if r is not None:
            return r
        if n0.get("kind") == "CXXOperatorCallExpr":
            ks = kids(n0)
            opn = strip(ks[0]).get("referencedDecl", {}).get("name", "")
            if opn in ("operator==", "operator!=") and len(ks) == 3 and ("IByteArray" in qt(ks[1]) or "IByteArray" in qt(ks[2])
                                                                      or "IByteArray" in qt(strip(ks[0]))):
                pa, ca, ta = self.ex(ks[1], env)
                pb, cb, tb = self.ex(ks[2], env)
                if ta == tb == "bytes":
                    c = "(Ax.ieq %s %s)" % (ca, cb)
                    return pa + pb, c if opn == "operator==" else "(!%s)" % c, "bool"
        return Fn.ex(self, n, env)

    def call_member(self, n, env, want_value):
        ks = kids(n)
        callee = strip(ks[0])
        if callee.get("kind") == "MemberExpr" and kids(callee):
            objn = kids(callee)[0]
            obj = self.obj_path(objn)
            nm = callee["name"]
            real = [x for x in ks[1:] if x.get("kind") != "CXXDefaultArgExpr"]
            if obj == "headers" and nm == "value" and len(real) == 1:
                pre, a = self.args(real, env)
                if a[0][1] == "bytes":
                    return pre, "(HeaderMap.value %s ae.hdrs)" % a[0][0], "bytes"
            if obj == "map":
                pre, a = self.args(real, env)
                if nm == "contains" and [t for _, t in a] == ["bytes"]:
                    return pre, "(Ax.mapContains ae.table %s)" % a[0][0], "bool"
                if nm == "value" and [t for _, t in a] == ["bytes"]:
                    return pre, "(Ax.mapValue ae.table %s)" % a[0][0], "bytes"
                raise Untranslatable("map.%s" % nm)
            if obj == "socket":
                pre, a = self.args(real, env)
                tys = [t for _, t in a]
                if nm == "headers" and not a:
                    return [], "ae.hdrs", "hmap"
                if nm == "setHeader" and tys == ["bytes", "bytes"]:
                    return pre + ["let s := Ax.setHeader s %s %s" % (a[0][0], a[1][0])], "()", "void"
                if nm == "writeError" and tys == ["int"]:
                    return pre + ["let s := Ax.err s %s" % a[0][0]], "()", "void"
                raise Untranslatable("socket->%s in the middleware" % nm)
            if obj == "this" and nm == "verify":
                info = self.ctx.need("BasicAuthMiddleware::verify")
                pre, a = self.args(real, env)
                if [t for _, t in a] == ["bytes", "bytes"]:
                    return pre, "(%s ae s %s %s)" % (info["name"], a[0][0], a[1][0]), "bool"
            # value methods of QByteArray / QString
            if obj not in ("socket", "headers", "map", "this"):
                pre0, oc, ot = self.ex(objn, env)
                if ot == "bytes":
                    if nm == "split" and len(real) == 1 and strip(real[0]).get("kind") == "CharacterLiteral":
                        return pre0, "(Qhttp.splitChar %d %s)" % (int(strip(real[0])["value"]), oc), "blist"
                    if nm in ("toUtf8",) and not real:
                        return pre0, oc, "bytes"
                    if nm == "arg" and len(real) == 1:
                        pre, a = self.args(real, env)
                        if a[0][1] == "bytes":
                            return pre0 + pre, "(Ax.arg1 %s %s)" % (oc, a[0][0]), "bytes"
        return Fn.call_member(self, n, env, want_value)

    def call_free(self, n, env, want_value):
        ks = kids(n)
        fn = strip(ks[0])
        nm = fn.get("referencedDecl", {}).get("name")
        real = [x for x in ks[1:] if x.get("kind") != "CXXDefaultArgExpr"]
        if nm == "fromBase64" and len(real) == 1:
            p, c, t = self.ex(real[0], env)
            if t == "bytes":
                return p, "(BasicAuth.fromBase64 %s)" % c, "bytes"
        if nm == "fromUtf8" and len(real) == 1:
            p, c, t = self.ex(real[0], env)
            if t == "bytes":
                return p, "(ae.round %s)" % c, "bytes"
        if nm == "split" and len(real) == 4 and fn.get("referencedDecl", {}).get("kind") == "CXXMethodDecl":
            pre, a = self.args(real[:3], env)
            a3 = strip(real[3])
            vn = a3.get("referencedDecl", {}).get("name")
            if [t for _, t in a] == ["bytes", "bytes", "int"] and a3.get("kind") == "DeclRefExpr" and vn in env and env[vn][1] == "blist":
                return pre + ["let %s := Ax.parserSplit %s %s %s %s" % (env[vn][0], a[0][0], a[1][0], a[2][0], env[vn][0])], "()", "void"
        return Fn.call_free(self, n, env, want_value)


def translate_auth(repo, exp):
    QSTR_AS_BYTES[0] = True
    try:
        docs = clang_ast(repo, "basicauthmiddleware.cpp", "QHttpEngine::BasicAuthMiddleware", exp) + \
            clang_ast(repo, "localauthmiddleware.cpp", "QHttpEngine::LocalAuthMiddleware", exp)
        decls = {}
        by_id = {}
        def index(n, cls=None):
            if n.get("kind") == "CXXRecordDecl" and n.get("name"):
                cls = n["name"]
            if n.get("kind") == "CXXMethodDecl" and "id" in n and cls:
                by_id[n["id"]] = cls
            for ch in n.get("inner", []) or []:
                index(ch, cls)
        for d in docs:
            index(d)
        for d in docs:
            if d.get("kind") == "CXXMethodDecl" and body_of(d) is not None:
                cls = by_id.get(d.get("previousDecl"))
                if cls:
                    decls[cls + "::" + d["name"]] = d
        sdocs = clang_ast(repo, "basicauthmiddleware.cpp", "QHttpEngine::Socket", exp)
        senums = enum_values(sdocs, "Socket")
        ctx = Ctx(decls, senums, "")
        ctx.fetch = lambda name: clang_ast(repo, "basicauthmiddleware.cpp", name, exp) + clang_ast(repo, "localauthmiddleware.cpp", name, exp)
        ctx.fn_class = AuthFn
        done, failed = [], []
        for key in AUTH_WANTED:
            try:
                ctx.need(key)
            except Untranslatable as e:
                failed.append("%s (%s)" % (key, e))
        out = ["-- GENERATED on every run by tools/cxx2lean_qt.py from src/src/basicauthmiddleware.cpp and localauthmiddleware.cpp — do not edit.",
               "import Qhttp.Model.AxPrim", "set_option linter.unusedVariables false", "", "namespace QhttpGen.Auth", "open Qhttp", ""]
        for key in ctx.order:
            out.append(ctx.code[key]); done.append(key)
        helpers = [ctx.done[k]["name"] for k in ctx.order if k not in AUTH_WANTED]
        out.append("end QhttpGen.Auth\n")
        if helpers:
            # (`delta`, not `simp only`: a helper may occur inside the `Decidable` instance of an `if`, where `simp only` leaves it folded)
            out.append("macro \"unfold_auth_helpers\" : tactic => `(tactic| (%s; try simp only [] at *))\n" % "; ".join("(try delta QhttpGen.Auth.%s at *)" % h for h in helpers))
        else:
            out.append("macro \"unfold_auth_helpers\" : tactic => `(tactic| skip)\n")
        return "\n".join(out), done, failed
    finally:
        QSTR_AS_BYTES[0] = False


SLOT_WANTED = ["QObjectHandler::process"]


class SlotFn(ActionProfile, Fn):
    MAP_VALUE_TY = "reg"

    """`QObjectHandler::process`: which of 404 / invoke now / invoke at end-of-body happens, over the registry and the two
    questions asked of the socket (`Qhttp/Model/SxPrim.lean`)."""
    def __init__(self, ctx, key):
        Fn.__init__(self, ctx, key)
        self.state_ty = "List Sx.Act"
        self.env_sig = "(se : Sx.Env) "
        self.uses_env = True
        self.init_action_profile(ctx, key)

    def translate(self):
        text = Fn.translate(self)
        self.finish_info()
        return text

    def map_contains(self, key):
        return "(Sx.mapContains se.regs %s)" % key

    def map_value(self, key):
        return "(Sx.mapValue se.regs %s)" % key

    def member(self, n):
        n = strip(n)
        if n.get("kind") == "MemberExpr" and kids(n):
            base = strip(kids(n)[0])
            if base.get("kind") == "MemberExpr" and base.get("name") == "d" and kids(base) and strip(kids(base)[0]).get("kind") == "CXXThisExpr":
                return n["name"]
        return None

    def obj_path(self, n):
        if self.member(n) == "map":
            return "map"
        n0 = strip(n)
        if n0.get("kind") == "MemberExpr" and n0.get("name") == "d" and kids(n0) and strip(kids(n0)[0]).get("kind") == "CXXThisExpr":
            return "d"
        if n0.get("kind") == "DeclRefExpr" and n0.get("referencedDecl", {}).get("name") == "socket":
            return "socket"
        if n0.get("kind") == "DeclRefExpr" and n0.get("referencedDecl", {}).get("kind") in ("VarDecl", "ParmVarDecl"):
            return ("local", n0["referencedDecl"]["name"])
        return None

    def effectful(self, n):
        n0 = strip(n)
        if n0.get("kind") == "CXXMemberCallExpr":
            callee = strip(kids(n0)[0])
            if callee.get("kind") == "MemberExpr" and kids(callee):
                o = self.obj_path(kids(callee)[0])
                if (o == "socket" and callee.get("name") not in ("bytesAvailable", "contentLength")) or (o == "d" and callee.get("name") == "invokeSlot"):
                    return True
        if n0.get("kind") == "CallExpr" and strip(kids(n0)[0]).get("referencedDecl", {}).get("name") == "connect":
            return True
        return any(self.effectful(c) for c in kids(n0) if c.get("kind") != "LambdaExpr")

    def ex(self, n, env):
        n0 = strip(n)
        if n0.get("kind") == "MemberExpr" and kids(n0) and n0.get("name") in ("readAll",):
            p, c, t = self.ex(kids(n0)[0], env)
            if t == "reg":
                return p, "%s.readAll" % c, "bool"
        r = self.map_iter_ex(n0, env)
        if r is not None:
            return r
        return Fn.ex(self, n, env)

    def invoke_arg(self, n, env):
        """the Method handed to invokeSlot: a local of type Method (copied)"""
        p, c, t = self.ex(n, env)
        if t != "reg":
            raise Untranslatable("invokeSlot with something else than a Method")
        return p, c

    def call_member(self, n, env, want_value):
        ks = kids(n)
        callee = strip(ks[0])
        if callee.get("kind") == "MemberExpr" and kids(callee):
            obj = self.obj_path(kids(callee)[0])
            nm = callee["name"]
            real = [x for x in ks[1:] if x.get("kind") != "CXXDefaultArgExpr"]
            if obj == "map":
                pre, a = self.args(real, env)
                if nm == "contains" and [t for _, t in a] == ["qstr"]:
                    return pre, "(Sx.mapContains se.regs %s)" % a[0][0], "bool"
                if nm == "value" and [t for _, t in a] == ["qstr"]:
                    return pre, "(Sx.mapValue se.regs %s)" % a[0][0], "reg"
                raise Untranslatable("map.%s" % nm)
            if obj == "socket":
                pre, a = self.args(real, env)
                if nm == "writeError" and [t for _, t in a] == ["int"]:
                    return pre + ["let s := Sx.err s %s" % a[0][0]], "()", "void"
                if nm == "bytesAvailable" and not a:
                    return [], "(Sx.bytesAvailable se)", "int"
                if nm == "contentLength" and not a:
                    return [], "(Sx.contentLength se)", "int"
                raise Untranslatable("socket->%s in the slot handler" % nm)
            if obj == "d" and nm == "invokeSlot" and len(real) == 2 and self.obj_path(real[0]) == "socket":
                p, c = self.invoke_arg(real[1], env)
                return p + ["let s := Sx.invoke s %s" % c], "()", "void"
        return Fn.call_member(self, n, env, want_value)

    def call_free(self, n, env, want_value):
        ks = kids(n)
        fn = strip(ks[0])
        nm = fn.get("referencedDecl", {}).get("name")
        real = [x for x in ks[1:] if x.get("kind") != "CXXDefaultArgExpr"]
        if nm == "connect" and len(real) == 3 and self.obj_path(real[0]) == "socket":
            sig = strip(real[1])
            signame = strip(kids(sig)[0]).get("referencedDecl", {}).get("name") if sig.get("kind") == "UnaryOperator" and kids(sig) else None
            lam = strip(real[2])
            if signame == "readChannelFinished" and lam.get("kind") == "LambdaExpr":
                body = [c for c in kids(lam) if c.get("kind") == "CompoundStmt"]
                stmts = kids(body[-1]) if body else []
                if len(stmts) == 1:
                    c0 = strip(stmts[0])
                    if c0.get("kind") == "CXXMemberCallExpr" and strip(kids(c0)[0]).get("name") == "invokeSlot":
                        args = [x for x in kids(c0)[1:] if x.get("kind") != "CXXDefaultArgExpr"]
                        if len(args) == 2 and strip(args[0]).get("referencedDecl", {}).get("name") == "socket":
                            p, c = self.invoke_arg(args[1], env)
                            return p + ["let s := Sx.defer s %s" % c], "()", "void"
            raise Untranslatable("connect() other than readChannelFinished -> invokeSlot(socket, m)")
        return Fn.call_free(self, n, env, want_value)


def translate_slot(repo, exp):
    docs = clang_ast(repo, "qobjecthandler.cpp", "QHttpEngine::QObjectHandler", exp)
    decls = {}
    by_id = {}
    def index(n, cls=None):
        if n.get("kind") == "CXXRecordDecl" and n.get("name"):
            cls = n["name"]
        if n.get("kind") == "CXXMethodDecl" and "id" in n and cls:
            by_id[n["id"]] = cls
        for ch in n.get("inner", []) or []:
            index(ch, cls)
    for d in docs:
        index(d)
    for d in docs:
        if d.get("kind") == "CXXMethodDecl" and body_of(d) is not None:
            cls = by_id.get(d.get("previousDecl"))
            if cls:
                decls[cls + "::" + d["name"]] = d
    sdocs = clang_ast(repo, "qobjecthandler.cpp", "QHttpEngine::Socket", exp)
    senums = enum_values(sdocs, "Socket")
    ctx = Ctx(decls, senums, "")
    ctx.fetch = lambda name: clang_ast(repo, "qobjecthandler.cpp", name, exp)
    ctx.fn_class = SlotFn
    done, failed = [], []
    for key in SLOT_WANTED:
        try:
            ctx.need(key)
        except Untranslatable as e:
            failed.append("%s (%s)" % (key, e))
    out = ["-- GENERATED on every run by tools/cxx2lean_qt.py from src/src/qobjecthandler.cpp — do not edit.",
           "import Qhttp.Model.SxPrim", "set_option linter.unusedVariables false", "", "namespace QhttpGen.Slot", "open Qhttp", ""]
    for key in ctx.order:
        out.append(ctx.code[key]); done.append(key)
    helpers = [ctx.done[k]["name"] for k in ctx.order if k not in SLOT_WANTED]
    out.append("end QhttpGen.Slot\n")
    if helpers:
        # (`delta`, not `simp only`: a helper may occur inside the `Decidable` instance of an `if`, where `simp only` leaves it folded)
        out.append("macro \"unfold_slot_helpers\" : tactic => `(tactic| (%s; try simp only [] at *))\n" % "; ".join("(try delta QhttpGen.Slot.%s at *)" % h for h in helpers))
    else:
        out.append("macro \"unfold_slot_helpers\" : tactic => `(tactic| skip)\n")
    return "\n".join(out), done, failed


SRV_WANTED = ["Server::incomingConnection", "ServerPrivate::process"]


class SrvFn(Fn):
    """`Server::incomingConnection`: the sequence of things done with the new connection (`Qhttp/Model/VxPrim.lean`);
    the sockets are pointer locals created with `new`."""
    def __init__(self, ctx, key):
        Fn.__init__(self, ctx, key)
        self.state_ty = "List Vx.Act"
        self.env_sig = "(ve : Vx.Env) "
        self.uses_env = True
        self.params = [p for p in self.params if not p[2].startswith("?")]          # qintptr socketDescriptor

    def member(self, n):
        n = strip(n)
        if n.get("kind") == "MemberExpr" and kids(n):
            base = strip(kids(n)[0])
            if base.get("kind") == "MemberExpr" and base.get("name") == "d" and kids(base) and strip(kids(base)[0]).get("kind") == "CXXThisExpr":
                return n["name"]
        return None

    def obj_path(self, n):
        if self.member(n) == "configuration":
            return "configuration"
        n0 = strip(n)
        if n0.get("kind") == "MemberExpr" and n0.get("name") == "d" and kids(n0) and strip(kids(n0)[0]).get("kind") == "CXXThisExpr":
            return "d"
        if n0.get("kind") == "DeclRefExpr" and n0.get("referencedDecl", {}).get("kind") in ("VarDecl", "ParmVarDecl"):
            return ("local", n0["referencedDecl"]["name"])
        return None

    def effectful(self, n):
        n0 = strip(n)
        if n0.get("kind") == "CXXMemberCallExpr":
            callee = strip(kids(n0)[0])
            if callee.get("kind") == "MemberExpr" and kids(callee) and self.obj_path(kids(callee)[0]) != "configuration":
                return True
        if n0.get("kind") in ("CallExpr", "CXXNewExpr"):
            return True
        return any(self.effectful(c) for c in kids(n0) if c.get("kind") != "LambdaExpr")

    def is_ptr(self, n, env, kind=None):
        n0 = strip(n)
        vn = n0.get("referencedDecl", {}).get("name") if n0.get("kind") == "DeclRefExpr" else None
        return vn in env and env[vn][1].startswith("ptr:") and (kind is None or env[vn][1] == "ptr:" + kind)

    def simple(self, s, env):
        s0 = strip(s)
        if s0.get("kind") == "DeclStmt" and len(kids(s0)) == 1 and kids(s0)[0].get("kind") == "VarDecl" and kids(kids(s0)[0]):
            v = kids(s0)[0]
            init = strip(kids(v)[0])
            if init.get("kind") == "CXXNewExpr":
                cls = qt(init).replace("*", "").strip()
                args = [c for c in kids(init) if c.get("kind") == "CXXConstructExpr"]
                parent_this = args and [strip(a).get("kind") for a in kids(args[0]) if a.get("kind") != "CXXDefaultArgExpr"] == ["CXXThisExpr"]
                if cls in ("QHttpEngine::Socket", "Socket") and args:
                    a2 = [strip(a) for a in kids(args[0]) if a.get("kind") != "CXXDefaultArgExpr"]
                    if len(a2) == 2 and a2[0].get("kind") == "DeclRefExpr" and a2[0].get("referencedDecl", {}).get("kind") == "ParmVarDecl" \
                            and a2[1].get("kind") == "CXXThisExpr":
                        env = dict(env)
                        env[v["name"]] = (v["name"], "ptr:http")
                        return ["let s := Vx.act s Vx.Act.newHttp"], env
                    raise Untranslatable("new Socket with other arguments")
                if cls in ("QSslSocket", "QTcpSocket") and parent_this:
                    env = dict(env)
                    env[v["name"]] = (v["name"], "ptr:ssl" if cls == "QSslSocket" else "ptr:tcp")
                    return ["let s := Vx.act s %s" % ("Vx.Act.newSsl" if cls == "QSslSocket" else "Vx.Act.newTcp")], env
                raise Untranslatable("new " + cls)
        if s0.get("kind") == "CallExpr" and strip(kids(s0)[0]).get("referencedDecl", {}).get("name") == "connect":
            p, c, t = self.call_free(s0, env, want_value=False)
            return p, env
        return Fn.simple(self, s, env)

    def call_member(self, n, env, want_value):
        ks = kids(n)
        callee = strip(ks[0])
        if callee.get("kind") == "MemberExpr" and kids(callee):
            objn = kids(callee)[0]
            obj = self.obj_path(objn)
            nm = callee["name"]
            real = [x for x in ks[1:] if x.get("kind") != "CXXDefaultArgExpr"]
            if obj == "configuration" and nm == "isNull" and not real:
                return [], "ve.tlsNull", "bool"
            if obj == "d" and nm == "process" and len(real) == 1 and self.is_ptr(real[0], env):
                return ["let s := Vx.act s Vx.Act.process"], "()", "void"
            if self.is_ptr(objn, env):
                if nm == "setSocketDescriptor" and len(real) == 1 and strip(real[0]).get("referencedDecl", {}).get("name") == "socketDescriptor":
                    return ["let s := Vx.act s Vx.Act.setDescriptor"], "()", "void"
                if nm == "setSslConfiguration" and len(real) == 1 and self.obj_path(real[0]) == "configuration" and self.is_ptr(objn, env, "ssl"):
                    return ["let s := Vx.act s Vx.Act.setConfig"], "()", "void"
                if nm == "startServerEncryption" and not real and self.is_ptr(objn, env, "ssl"):
                    return ["let s := Vx.act s Vx.Act.startEncryption"], "()", "void"
                raise Untranslatable("socket->%s" % nm)
        return Fn.call_member(self, n, env, want_value)

    def call_free(self, n, env, want_value):
        ks = kids(n)
        fn = strip(ks[0])
        nm = fn.get("referencedDecl", {}).get("name")
        real = [x for x in ks[1:] if x.get("kind") != "CXXDefaultArgExpr"]
        def signal_of(x):
            x = strip(x)
            while x.get("kind") in ("CXXStaticCastExpr", "ParenExpr") and kids(x):
                x = strip(kids(x)[-1])
            if x.get("kind") == "UnaryOperator" and kids(x):
                return strip(kids(x)[0]).get("referencedDecl", {}).get("name")
            return None
        if nm == "connect" and len(real) >= 3 and self.is_ptr(real[0], env, "http"):
            sig = signal_of(real[1])
            me = strip(real[0]).get("referencedDecl", {}).get("name")
            if len(real) == 4 and sig == "disconnected" and signal_of(real[3]) == "deleteLater" and \
                    strip(real[2]).get("referencedDecl", {}).get("name") == me:
                return ["let s := Vx.act s Vx.Act.onDisconnectedDelete"], "()", "void"
            if len(real) == 3 and sig == "headersParsed" and strip(real[2]).get("kind") == "LambdaExpr":
                lam = strip(real[2])
                body = [c for c in kids(lam) if c.get("kind") == "CompoundStmt"]
                if not body:
                    raise Untranslatable("lambda without a body")
                sub = LambdaFn(self, me)
                code = sub.stmts(sub.flatten(body[-1]), dict(env), lambda e: "s", None)
                return ["let s := Vx.act s (Vx.Act.onHeadersParsed (\n  let s : List Vx.LAct := []\n%s))" % ind(code, 2)], "()", "void"
            raise Untranslatable("connect() of another kind on the HTTP socket")
        if nm == "connect" and len(real) >= 3 and self.is_ptr(real[0], env):
            sig = signal_of(real[1])
            if len(real) == 3 and sig == "encrypted" and strip(real[2]).get("kind") == "LambdaExpr" and self.is_ptr(real[0], env, "ssl"):
                lam = strip(real[2])
                body = [c for c in kids(lam) if c.get("kind") == "CompoundStmt"]
                stmts = kids(body[-1]) if body else []
                if len(stmts) == 1:
                    c0 = strip(stmts[0])
                    if c0.get("kind") == "CXXMemberCallExpr" and strip(kids(c0)[0]).get("name") == "process":
                        args = [x for x in kids(c0)[1:] if x.get("kind") != "CXXDefaultArgExpr"]
                        same = len(args) == 1 and strip(args[0]).get("referencedDecl", {}).get("name") == strip(real[0]).get("referencedDecl", {}).get("name")
                        if same:
                            return ["let s := Vx.act s Vx.Act.onEncryptedProcess"], "()", "void"
            if len(real) == 4 and sig == "error" and signal_of(real[3]) == "deleteLater" and \
                    strip(real[2]).get("referencedDecl", {}).get("name") == strip(real[0]).get("referencedDecl", {}).get("name"):
                return ["let s := Vx.act s Vx.Act.onErrorDelete"], "()", "void"
            raise Untranslatable("connect() of another kind on the new socket")
        return Fn.call_free(self, n, env, want_value)


class LambdaFn(SrvFn):
    """the body of the lambda `ServerPrivate::process` connects to headersParsed: its own action list"""
    def __init__(self, outer, sockname):
        self.__dict__.update(outer.__dict__)
        self.sockname = sockname
        self.state_ty = "List Vx.LAct"
        self.ret = "void"
        self.const = False
        self.free = False
        self.ret_override = None

    def ex(self, n, env):
        n0 = strip(n)
        if n0.get("kind") == "MemberExpr" and n0.get("name") == "handler" and kids(n0) and strip(kids(n0)[0]).get("kind") == "CXXThisExpr":
            return [], "ve.hasHandler", "bool"
        return Fn.ex(self, n, env)

    def effectful(self, n):
        return strip(n).get("kind") in ("CXXMemberCallExpr", "CallExpr") or any(self.effectful(c) for c in kids(strip(n)))

    def call_member(self, n, env, want_value):
        ks = kids(n)
        callee = strip(ks[0])
        if callee.get("kind") == "MemberExpr" and kids(callee):
            objn = strip(kids(callee)[0])
            nm = callee["name"]
            real = [x for x in ks[1:] if x.get("kind") != "CXXDefaultArgExpr"]
            is_sock = objn.get("kind") == "DeclRefExpr" and objn.get("referencedDecl", {}).get("name") == self.sockname
            is_handler = objn.get("kind") == "MemberExpr" and objn.get("name") == "handler"
            if is_handler and nm == "route" and len(real) == 2 and strip(real[0]).get("referencedDecl", {}).get("name") == self.sockname:
                a = strip(real[1])
                while a.get("kind") in ("CXXFunctionalCastExpr", "CXXConstructExpr", "CXXTemporaryObjectExpr") and kids(a):
                    a = strip(kids(a)[0])
                if a.get("kind") == "CXXMemberCallExpr" and strip(kids(a)[0]).get("name") == "mid":
                    inner = strip(kids(strip(kids(a)[0]))[0])
                    margs = [x for x in kids(a)[1:] if x.get("kind") != "CXXDefaultArgExpr"]
                    if inner.get("kind") == "CXXMemberCallExpr" and strip(kids(inner)[0]).get("name") == "path" and \
                            strip(kids(strip(kids(inner)[0]))[0]).get("referencedDecl", {}).get("name") == self.sockname and len(margs) == 1:
                        p, c, t = Fn.ex(self, margs[0], env)
                        if t == "int" and not p:
                            return ["let s := Vx.lact s (Vx.LAct.route %s)" % c], "()", "void"
                raise Untranslatable("route() with a path other than socket->path().mid(n)")
            if is_sock and nm == "writeError" and len(real) == 1:
                p, c, t = Fn.ex(self, real[0], env)
                if t == "int" and not p:
                    return ["let s := Vx.lact s (Vx.LAct.err %s)" % c], "()", "void"
        raise Untranslatable("call in the headersParsed lambda")

    def call_free(self, n, env, want_value):
        raise Untranslatable("call in the headersParsed lambda")

    def simple(self, s, env):
        return Fn.simple(self, s, env)


ROUTE_WANTED = ["Handler::route"]
LOC_KEEP = "/:?#[]@!$&'()*+,;=%"


class RouteFn(Fn):
    """`Handler::route`: one node of the handler tree over the vocabulary of `Qhttp/Model/RxPrim.lean` (the three loops over
    middleware, redirects and sub-handlers; QRegExp answers come from the model's matcher; a sub-handler's route() is the
    model's `route` on that node)."""
    def __init__(self, ctx, key):
        Fn.__init__(self, ctx, key)
        self.state_ty = "List Act"
        self.env_sig = "(re : Rx.Env) "
        self.uses_env = True
        self.carry_state = True
        self.params = [p for p in self.params if not p[2].startswith("?")]          # Socket *socket
        self.last_subject = {}

    def member(self, n):
        n = strip(n)
        if n.get("kind") == "MemberExpr" and kids(n):
            base = strip(kids(n)[0])
            if base.get("kind") == "MemberExpr" and base.get("name") == "d" and kids(base) and strip(kids(base)[0]).get("kind") == "CXXThisExpr":
                return n["name"]
        return None

    def obj_path(self, n):
        n0 = strip(n)
        if n0.get("kind") == "DeclRefExpr" and n0.get("referencedDecl", {}).get("name") == "socket":
            return "socket"
        if n0.get("kind") == "CXXThisExpr":
            return "this"
        return None

    def effectful(self, n):
        n0 = strip(n)
        if n0.get("kind") == "CXXMemberCallExpr":
            callee = strip(kids(n0)[0])
            if callee.get("name") in ("process", "route", "writeRedirect", "writeError"):
                return True
        return any(self.effectful(c) for c in kids(n0))

    def ex(self, n, env):
        n0 = strip(n)
        if n0.get("kind") == "MemberExpr":
            m = self.member(n0)
            if m == "middleware":
                return [], "re.mws", "mwlist"
            if m == "redirects":
                return [], "re.redirects", "redirlist"
            if m == "subHandlers":
                return [], "re.subs", "sublist"
            if n0.get("name") in ("first", "second") and kids(n0):
                p, c, t = self.ex(kids(n0)[0], env)
                if t in ("redir", "subh") and not p:
                    if n0["name"] == "first":
                        return [], "%s.1" % c, "regex"
                    return [], "%s.2" % c, ("qstr" if t == "redir" else "node")
        return Fn.ex(self, n, env)

    def call_member(self, n, env, want_value):
        ks = kids(n)
        callee = strip(ks[0])
        if callee.get("kind") == "MemberExpr" and kids(callee):
            objn = kids(callee)[0]
            nm = callee["name"]
            real = [x for x in ks[1:] if x.get("kind") != "CXXDefaultArgExpr"]
            obj = self.obj_path(objn)
            if obj == "socket" and nm == "writeRedirect" and len(real) == 1:
                a0 = strip(real[0])
                # QUrl::toPercentEncoding(text, "<the characters a URL may contain>")
                if a0.get("kind") == "CallExpr" and strip(kids(a0)[0]).get("referencedDecl", {}).get("name") == "toPercentEncoding":
                    ar = [x for x in kids(a0)[1:] if x.get("kind") != "CXXDefaultArgExpr"]
                    if len(ar) == 2 and strip(ar[1]).get("kind") == "StringLiteral" and json.loads(strip(ar[1])["value"]) == LOC_KEEP:
                        p, c, t = self.ex(ar[0], env)
                        if t == "qstr":
                            return p + ["let s := Rx.redirect s re %s" % c], "()", "void"
                raise Untranslatable("writeRedirect() of something else than the percent-encoded new path")
            if obj == "this" and nm == "process" and len(real) == 2 and self.obj_path(real[0]) == "socket":
                p, c, t = self.ex(real[1], env)
                if t == "qstr":
                    return p + ["let s := Rx.process s re %s" % c], "()", "void"
            # calls on locals / their members
            pre0, oc, ot = self.ex(objn, env)
            if ot == "mwp" and nm == "process" and len(real) == 1 and self.obj_path(real[0]) == "socket":
                t = self.ctx.fresh()
                return pre0 + ["let (s, %s) := Rx.mwProcess s %s" % (t, oc)], t, "bool"
            if ot == "node" and nm == "route" and len(real) == 2 and self.obj_path(real[0]) == "socket":
                p, c, t = self.ex(real[1], env)
                if t == "qstr":
                    return pre0 + p + ["let s := Rx.subRoute s re %s %s" % (oc, c)], "()", "void"
            if ot == "regex":
                if nm == "indexIn" and len(real) == 1:
                    p, c, t = self.ex(real[0], env)
                    if t == "qstr" and not p:
                        self.last_subject[oc] = c
                        return pre0, "(Rx.indexIn re %s %s)" % (oc, c), "int"
                if nm == "matchedLength" and not real and oc in self.last_subject:
                    return pre0, "(Rx.matchedLength re %s %s)" % (oc, self.last_subject[oc]), "int"
                if nm == "capturedTexts" and not real and oc in self.last_subject:
                    return pre0, "(Rx.allCaps re %s %s)" % (oc, self.last_subject[oc]), "allcaps"
            if ot == "allcaps" and nm == "mid" and len(real) == 1 and strip(real[0]).get("kind") == "IntegerLiteral" and strip(real[0]).get("value") == "1":
                return pre0, oc.replace("Rx.allCaps", "Rx.caps", 1), "qslist"
            if ot == "qstr" and nm == "mid" and len(real) == 1:
                p, c, t = self.ex(real[0], env)
                if t == "int":
                    return pre0 + p, "(Rx.qmid %s %s)" % (oc, c), "qstr"
            raise Untranslatable("call %s on a value of type %s in Handler::route" % (nm, ot))
        return Fn.call_member(self, n, env, want_value)

    def call_free(self, n, env, want_value):
        ks = kids(n)
        fn = strip(ks[0])
        nm = fn.get("referencedDecl", {}).get("name")
        real = [x for x in ks[1:] if x.get("kind") != "CXXDefaultArgExpr"]
        if nm == "substituteCaptures" and len(real) == 2:
            pre, a = self.args(real, env)
            if [t for _, t in a] == ["qstr", "qslist"]:
                return pre, "(Qhttp.substitute %s %s)" % (a[0][0], a[1][0]), "qstr"
        raise Untranslatable("call to %s in Handler::route" % nm)

    def stmts(self, ss, env, k, brk):
        if ss:
            s0 = strip(ss[0]) if ss[0].get("kind") in ("ExprWithCleanups",) else ss[0]
            if s0.get("kind") == "ForStmt":
                return self.loop(s0, ss[1:], env, k, brk)
        return Fn.stmts(self, ss, env, k, brk)


def translate_route(repo, exp):
    ROUTE_TYPES[0] = True
    try:
        docs = clang_ast(repo, "handler.cpp", "QHttpEngine::Handler::route", exp)
        decls = {}
        for d in docs:
            if d.get("kind") == "CXXMethodDecl" and body_of(d) is not None and d.get("name") == "route":
                decls["Handler::route"] = d
        ctx = Ctx(decls, {}, "")
        ctx.fetch = lambda name: clang_ast(repo, "handler.cpp", name, exp)
        ctx.fn_class = RouteFn
        done, failed = [], []
        try:
            ctx.need("Handler::route")
        except Untranslatable as e:
            failed.append("Handler::route (%s)" % e)
        out = ["-- GENERATED on every run by tools/cxx2lean_qt.py from src/src/handler.cpp — do not edit.",
               "import Qhttp.Model.RxPrim", "set_option linter.unusedVariables false", "", "namespace QhttpGen.Route", "open Qhttp", ""]
        for key in ctx.order:
            out.append(ctx.code[key]); done.append(key)
        out.append("end QhttpGen.Route\n")
        return "\n".join(out), done, failed
    finally:
        ROUTE_TYPES[0] = False


class PhFn(Fn):
    """`ProxyHandler::process`: the socket is re-parented to the handler and a ProxySocket is created for it with the routed
    path and the configured upstream address (actions of `Qhttp/Model/VxPrim.lean`)"""
    def __init__(self, ctx, key):
        Fn.__init__(self, ctx, key)
        self.state_ty = "List Vx.PAct"
        self.env_sig = ""
        self.uses_env = False
        self.params = [p for p in self.params if not p[2].startswith("?")]          # Socket *socket

    def effectful(self, n):
        return True

    def member(self, n):
        n = strip(n)
        if n.get("kind") == "MemberExpr" and kids(n):
            base = strip(kids(n)[0])
            if base.get("kind") == "MemberExpr" and base.get("name") == "d" and kids(base) and strip(kids(base)[0]).get("kind") == "CXXThisExpr":
                return n["name"]
        return None

    def is_socket(self, n):
        n0 = strip(n)
        return n0.get("kind") == "DeclRefExpr" and n0.get("referencedDecl", {}).get("name") == "socket"

    def simple(self, s, env):
        s0 = strip(s)
        if s0.get("kind") == "CXXNewExpr" and "ProxySocket" in qt(s0):
            args = [c for c in kids(s0) if c.get("kind") == "CXXConstructExpr"]
            a = [x for x in kids(args[0]) if x.get("kind") != "CXXDefaultArgExpr"] if args else []
            if len(a) == 4 and self.is_socket(a[0]) and self.member(a[2]) == "address" and self.member(a[3]) == "port":
                p, c, t = self.ex(a[1], env)
                if t == "qstr" and not p:
                    return ["let s := Vx.pact s (Vx.PAct.newProxySocket %s)" % c], env
            raise Untranslatable("new ProxySocket with other arguments")
        if s0.get("kind") == "CXXMemberCallExpr":
            callee = strip(kids(s0)[0])
            real = [x for x in kids(s0)[1:] if x.get("kind") != "CXXDefaultArgExpr"]
            if callee.get("name") == "setParent" and kids(callee) and self.is_socket(kids(callee)[0]) and len(real) == 1 and strip(real[0]).get("kind") == "CXXThisExpr":
                return ["let s := Vx.pact s Vx.PAct.reparent"], env
            raise Untranslatable("call %s in ProxyHandler::process" % callee.get("name"))
        return Fn.simple(self, s, env)


def translate_ph(repo, exp):
    docs = clang_ast(repo, "proxyhandler.cpp", "QHttpEngine::ProxyHandler::process", exp)
    decls = {}
    for d in docs:
        if d.get("kind") == "CXXMethodDecl" and body_of(d) is not None and d.get("name") == "process":
            decls["ProxyHandler::process"] = d
    ctx = Ctx(decls, {}, "")
    ctx.fetch = lambda name: clang_ast(repo, "proxyhandler.cpp", name, exp)
    ctx.fn_class = PhFn
    done, failed = [], []
    try:
        ctx.need("ProxyHandler::process")
    except Untranslatable as e:
        failed.append("ProxyHandler::process (%s)" % e)
    out = ["-- GENERATED on every run by tools/cxx2lean_qt.py from src/src/proxyhandler.cpp — do not edit.",
           "import Qhttp.Model.VxPrim", "set_option linter.unusedVariables false", "", "namespace QhttpGen.Ph", "open Qhttp", ""]
    for key in ctx.order:
        out.append(ctx.code[key]); done.append(key)
    out.append("end QhttpGen.Ph\n")
    return "\n".join(out), done, failed


def translate_srv(repo, exp):
    docs = clang_ast(repo, "server.cpp", "QHttpEngine::Server", exp)
    decls = {}
    by_id = {}
    def index(n, cls=None):
        if n.get("kind") == "CXXRecordDecl" and n.get("name"):
            cls = n["name"]
        if n.get("kind") == "CXXMethodDecl" and "id" in n and cls:
            by_id[n["id"]] = cls
        for ch in n.get("inner", []) or []:
            index(ch, cls)
    for d in docs:
        index(d)
    for d in docs:
        if d.get("kind") == "CXXMethodDecl" and body_of(d) is not None:
            cls = by_id.get(d.get("previousDecl"))
            if cls:
                decls[cls + "::" + d["name"]] = d
    sdocs = clang_ast(repo, "server.cpp", "QHttpEngine::Socket", exp)
    ctx = Ctx(decls, enum_values(sdocs, "Socket"), "")
    ctx.fetch = lambda name: clang_ast(repo, "server.cpp", name, exp)
    ctx.fn_class = SrvFn
    done, failed = [], []
    for key in SRV_WANTED:
        try:
            ctx.need(key)
        except Untranslatable as e:
            failed.append("%s (%s)" % (key, e))
    out = ["-- GENERATED on every run by tools/cxx2lean_qt.py from src/src/server.cpp — do not edit.",
           "import Qhttp.Model.VxPrim", "set_option linter.unusedVariables false", "", "namespace QhttpGen.Srv", "open Qhttp", ""]
    for key in ctx.order:
        out.append(ctx.code[key]); done.append(key)
    helpers = [ctx.done[k]["name"] for k in ctx.order if k not in SRV_WANTED]
    out.append("end QhttpGen.Srv\n")
    if helpers:
        out.append("macro \"unfold_srv_helpers\" : tactic => `(tactic| (%s; try simp only [] at *))\n" % "; ".join("(try delta QhttpGen.Srv.%s at *)" % h for h in helpers))
    else:
        out.append("macro \"unfold_srv_helpers\" : tactic => `(tactic| skip)\n")
    return "\n".join(out), done, failed


PARSER_WANTED = ["Parser::split", "Parser::parseHeaderList", "Parser::parseHeaders", "Parser::parseRequestHeaders", "Parser::parseResponseHeaders"]

# what a function that could not be translated is replaced by: the model's function in the translated signature
# (the tie for that function is then the correspondence runs alone; recorded as `untranslated` in the generated file)
PARSER_STUBS = {
    "Parser::split": ("def Parser_split (fuel : Nat) (data : Bytes) (delim : Bytes) (maxSplit : Int) (parts : List Bytes) : List Bytes :=\n"
                      "  parts ++ Qhttp.split delim maxSplit.toNat data\n"),
    "Parser::parseHeaderList": ("def Parser_parseHeaderList (fuel : Nat) (lines : List Bytes) (headers : HeaderMap) : Bool × HeaderMap :=\n"
                                "  match Parser.parseHeaderList lines headers with\n  | some m => (true, m)\n  | none => (false, headers)\n"),
    "Parser::parseHeaders": ("def Parser_parseHeaders (fuel : Nat) (data : Bytes) (parts : List Bytes) (headers : HeaderMap) : Bool × List Bytes × HeaderMap :=\n"
                             "  match Parser.parseHeaders data headers with\n  | some (a, b, c, m) => (true, parts ++ [a, b, c], m)\n  | none => (false, parts, headers)\n"),
    "Parser::parseRequestHeaders": ("def Parser_parseRequestHeaders (fuel : Nat) (data : Bytes) (method : Int) (path : Bytes) (headers : HeaderMap) : Bool × Int × Bytes × HeaderMap :=\n"
                                    "  match Parser.parseRequestHeaders data headers with\n  | some r => (true, (r.method : Int), r.rawPath, r.headers)\n  | none => (false, method, path, headers)\n"),
    "Parser::parseResponseHeaders": ("def Parser_parseResponseHeaders (fuel : Nat) (data : Bytes) (statusCode : Int) (statusReason : Bytes) (headers : HeaderMap) : Bool × Int × Bytes × HeaderMap :=\n"
                                     "  match Parser.parseResponseHeaders data with\n  | some (c, r, m) => (true, c, r, m)\n  | none => (false, statusCode, statusReason, headers)\n"),
}


def translate_parser(repo, exp):
    """parser.cpp: the static functions of Parser as pure functions (reference parameters are returned)"""
    docs = clang_ast(repo, "parser.cpp", "QHttpEngine::Parser::", exp)
    decls = {}
    for d in docs:
        if d.get("kind") == "CXXMethodDecl" and body_of(d) is not None:
            decls["Parser::" + d["name"]] = d
    sdocs = clang_ast(repo, "parser.cpp", "QHttpEngine::Socket::Method", exp)
    senums = {}
    def walk(n):
        if n.get("kind") == "EnumDecl":
            nxt = 0
            for e in n.get("inner", []) or []:
                if e.get("kind") == "EnumConstantDecl":
                    from cxx2lean import find_value
                    v = None
                    for x in e.get("inner", []) or []:
                        fv = find_value(x)
                        if fv is not None:
                            v = fv
                    v = nxt if v is None else v
                    senums[e["name"]] = v
                    nxt = v + 1
        for c in n.get("inner", []) or []:
            walk(c)
    for d in sdocs:
        walk(d)
    ctx = Ctx(decls, senums, "")
    ctx.fetch = lambda name: clang_ast(repo, "parser.cpp", name, exp)
    done, failed, stubs = [], [], []
    for key in PARSER_WANTED:
        try:
            ctx.need(key)
        except Untranslatable as e:
            failed.append("%s (%s)" % (key, e))
    out = ["-- GENERATED on every run by tools/cxx2lean_qt.py from src/src/parser.cpp — do not edit.",
           "import Qhttp.Model.CxxPrim", "set_option linter.unusedVariables false", "", "namespace QhttpGen.Parser", "open Qhttp", ""]
    emitted = set()
    for key in ctx.order:
        info = ctx.done[key]
        if key in PARSER_WANTED and not info["fuel"]:
            # uniform signature: every parser function takes the loop bound, used or not
            ctx.code[key] = ctx.code[key].replace("def %s " % info["name"], "def %s (fuel : Nat) " % info["name"], 1)
        out.append(ctx.code[key]); done.append(key); emitted.add(key)
    # a function that failed is replaced by the model's function; callers that were translated before the failure
    # cannot exist (a caller fails with its callee), so the stubs come first
    stub_text = []
    for key in PARSER_WANTED:
        if key not in emitted:
            stubs.append(key)
            stub_text.append("/-- `%s`: NOT translated on this run; the model's function stands in -/\n%s" % (key, PARSER_STUBS[key]))
    if stubs:
        # re-translate the callers against the stubs
        ctx2 = Ctx(decls, senums, "")
        ctx2.fetch = ctx.fetch
        for key in stubs:
            nm = key.replace("::", "_")
            d = decls.get(key)
            ps = ctx2.sig(key)[0] if d is not None else []
            ctx2.done[key] = {"name": nm, "params": ps, "ret": ctx2.sig(key)[1] if d is not None else "void", "const": True, "env": False,
                              "outbuf": False, "free": True, "inouts": ctx2.inout.get(key, []), "fuel": True}
        out = out[:7] + stub_text
        done = []
        for key in PARSER_WANTED:
            if key in stubs:
                continue
            try:
                ctx2.need(key)
            except Untranslatable as e:
                pass
        for key in ctx2.order:
            info = ctx2.done[key]
            if key in PARSER_WANTED and not info["fuel"]:
                ctx2.code[key] = ctx2.code[key].replace("def %s " % info["name"], "def %s (fuel : Nat) " % info["name"], 1)
            out.append(ctx2.code[key]); done.append(key)
        for key in PARSER_WANTED:
            if key not in stubs and key not in ctx2.done:
                stubs.append(key)
                out.append("/-- `%s`: NOT translated on this run; the model's function stands in -/\n%s" % (key, PARSER_STUBS[key]))
        helpers = [ctx2.done[k]["name"] for k in ctx2.order if k not in PARSER_WANTED]
    else:
        helpers = [ctx.done[k]["name"] for k in ctx.order if k not in PARSER_WANTED]
    out.append("/-- functions of parser.cpp that are outside the translated subset on this run -/")
    out.append("def untranslated : List String := [%s]\n" % ", ".join('"%s"' % k for k in stubs))
    out.append("end QhttpGen.Parser\n")
    if helpers:
        out.append("macro \"unfold_parser_helpers\" : tactic => `(tactic| try simp only [%s] at *)\n" % ", ".join("QhttpGen.Parser." + h for h in helpers))
    else:
        out.append("macro \"unfold_parser_helpers\" : tactic => `(tactic| skip)\n")
    return "\n".join(out), done, failed, stubs


if __name__ == "__main__":
    import sys
    if len(sys.argv) > 2 and sys.argv[2] == "fs":
        text, done, failed = translate_fs(sys.argv[1], "/repo/_build/src")
        print(text)
        print("-- done:", done, "\n-- failed:", failed, file=sys.stderr)
        sys.exit(0)
    if len(sys.argv) > 2 and sys.argv[2] == "route":
        text, done, failed = translate_route(sys.argv[1], "/repo/_build/src")
        print(text)
        print("-- done:", done, "\n-- failed:", failed, file=sys.stderr)
        sys.exit(0)
    if len(sys.argv) > 2 and sys.argv[2] == "ph":
        text, done, failed = translate_ph(sys.argv[1], "/repo/_build/src")
        print(text)
        print("-- done:", done, "\n-- failed:", failed, file=sys.stderr)
        sys.exit(0)
    if len(sys.argv) > 2 and sys.argv[2] == "srv":
        text, done, failed = translate_srv(sys.argv[1], "/repo/_build/src")
        print(text)
        print("-- done:", done, "\n-- failed:", failed, file=sys.stderr)
        sys.exit(0)
    if len(sys.argv) > 2 and sys.argv[2] == "slot":
        text, done, failed = translate_slot(sys.argv[1], "/repo/_build/src")
        print(text)
        print("-- done:", done, "\n-- failed:", failed, file=sys.stderr)
        sys.exit(0)
    if len(sys.argv) > 2 and sys.argv[2] == "auth":
        text, done, failed = translate_auth(sys.argv[1], "/repo/_build/src")
        print(text)
        print("-- done:", done, "\n-- failed:", failed, file=sys.stderr)
        sys.exit(0)
    if len(sys.argv) > 2 and sys.argv[2] == "proxy":
        text, done, failed = translate_proxy(sys.argv[1], "/repo/_build/src")
        print(text)
        print("-- done:", done, "\n-- failed:", failed, file=sys.stderr)
        sys.exit(0)
    if len(sys.argv) > 2 and sys.argv[2] == "parser":
        text, done, failed, stubs = translate_parser(sys.argv[1], "/repo/_build/src")
        print(text)
        print("-- done:", done, "\n-- failed:", failed, "\n-- stubs:", stubs, file=sys.stderr)
        sys.exit(0)
    import sys
    text, done, failed = translate_socket(sys.argv[1] if len(sys.argv) > 1 else "/repo", "/repo/_build/src")
    print(text)
    print("-- done:", done, file=sys.stderr)
    print("-- failed:", failed, file=sys.stderr)
