"""Static description of each property's check: scenario budgets, bridge modules, trusted base."""

TRUSTED_COMMON = [
    "Lean 4.33 kernel; axioms accepted: propext, Classical.choice, Quot.sound (audited per theorem on every run; no sorry/admit/native_decide/bv_decide/own axioms)",
    "tools/check.py + Driver/Main.lean (compiled by leanc) evaluate the same `holds` the theorems are about on the implementation's history",
    "correspondence harness (harness/*.cpp, SimTcp as the transport) and tools/gens.py: that the model is the code is tested on the generated scenarios, not proved",
    "Qt 5.15, g++, ASan/UBSan runtime, the OS",
]

SOCK_TRUSTED = [
    "modelled, not verified: QIODevice read buffering (16 KiB chunking) and open-mode checks, QAbstractSocket::close flushing (SimTcp), QByteArray::{indexOf,mid,left,remove,trimmed,toLower,toLongLong,number}, QMultiMap ordering — validated differentially by the `qt` scenario family",
    "parameter: QUrl (validity, path(), query items) — theorems hold for every value, the concrete value comes from Qt through the harness",
]

PROPS = {
    "C01": {"count": {"quick": 3000, "thorough": 60000}, "trusted": SOCK_TRUSTED,
            "rule": "grammar-driven request heads (valid, near-miss, malformed, tiny-alphabet lines) x segmentations, through a Socket on SimTcp with `snap` at headersParsed; distinct = distinct token strings; non-trivial = at least one segment delivered"},
    "C02": {"count": {"quick": 2500, "thorough": 60000}, "trusted": SOCK_TRUSTED,
            "rule": "accepted heads with Content-Length N x bodies (CRLFCRLF planted, sizes across the 16 KiB QIODevice chunk) x trailing data x segmentations (byte-wise, around the head/body edge, random) x reader policies"},
    "C03": {"count": {"quick": 2500, "thorough": 50000}, "trusted": SOCK_TRUSTED,
            "rule": "random response API histories (status, replace/append headers over a case-variant name pool, whole maps with repeated names, explicit/implicit head, body chunks to 70 000 bytes, error/redirect/JSON), acknowledgements, post-close calls"},
    "C04": {"count": {"quick": 2500, "thorough": 40000}, "trusted": SOCK_TRUSTED,
            "rule": "rejected heads x segmentations x number of segments buffered before construction x trailing data x late events"},
    "C18": {"count": {"quick": 4000, "thorough": 100000}, "trusted": SOCK_TRUSTED,
            "rule": "all compositions of the acknowledgement sizes around the header/body edge for a small response, then random header sets, body writes and acknowledgement pieces"},
    "C19": {"count": {"quick": 2500, "thorough": 50000}, "trusted": SOCK_TRUSTED,
            "rule": "1-3 concatenated requests (valid, malformed, garbage) x segmentations x handler behaviours (respond+close at once, later, never) x post-close API calls x late transport events"},
}

# bridge modules (theorems Gen = Model over the regenerated QhttpGen/*.lean) each property depends on
BRIDGES = {
}
