"""Static description of each property's check: scenario budgets, bridge modules, trusted base."""

TRUSTED_COMMON = [
    "Lean 4.33 kernel; axioms accepted: propext, Classical.choice, Quot.sound (audited per theorem on every run; no sorry/admit/native_decide/bv_decide/own axioms)",
    "tools/check.py + Driver/Main.lean (compiled by leanc) evaluate the same `holds` the theorems are about on the implementation's history",
    "correspondence harness (harness/*.cpp, SimTcp as the transport) and tools/gens.py: that the model is the code is tested on the generated scenarios, not proved",
    "Qt 5.15, g++, ASan/UBSan runtime, the OS",
]

SOCK_TRUSTED = [
    "modelled, not verified: QIODevice read buffering (16 KiB chunking) and open-mode checks, QAbstractSocket::close flushing (SimTcp), QByteArray::{indexOf,mid,left,remove,trimmed,toLower,toLongLong,number}, QMultiMap ordering — validated differentially by the `qt` scenario family",
    "parameter: QUrl (validity, path(), query items) — theorems hold for every value, the concrete value comes from Qt through the harness",
]

PROPS = {
    "C01": {"count": {"quick": 3000, "thorough": 60000}, "trusted": SOCK_TRUSTED,
            "rule": "grammar-driven request heads (valid, near-miss, malformed, tiny-alphabet lines) x segmentations, through a Socket on SimTcp with `snap` at headersParsed; distinct = distinct token strings; non-trivial = at least one segment delivered"},
    "C02": {"count": {"quick": 2500, "thorough": 60000}, "trusted": SOCK_TRUSTED,
            "rule": "accepted heads with Content-Length N x bodies (CRLFCRLF planted, sizes across the 16 KiB QIODevice chunk) x trailing data x segmentations (byte-wise, around the head/body edge, random) x reader policies"},
    "C03": {"count": {"quick": 2500, "thorough": 50000}, "trusted": SOCK_TRUSTED,
            "rule": "random response API histories (status, replace/append headers over a case-variant name pool, whole maps with repeated names, explicit/implicit head, body chunks to 70 000 bytes, error/redirect/JSON), acknowledgements, post-close calls"},
    "C04": {"count": {"quick": 2500, "thorough": 40000}, "trusted": SOCK_TRUSTED,
            "rule": "rejected heads x segmentations x number of segments buffered before construction x trailing data x late events"},
    "C17": {"count": {"quick": 500, "thorough": 8000},
            "trusted": ["observed, not modelled: file modes and umask (stat(2)), the home directory, QJsonDocument (the file is represented by its top-level keys), QUuid (token distinctness across instances is QUuid's property; the harness checks a previous instance's token is refused)",
                        "the token comparison is made on bytes in the repaired code; header lookup is the case-insensitive header map (C01)"],
            "rule": "life cycles: optional umask {000,022,027,077,002}, optional pre-existing permissive file, create, then 0-7 of setData / setHeaderName / requests (exact token, upper-cased, last char dropped, braces stripped, NUL suffix, BOM prefix, previous instance's token, guesses, no header; under the configured, a case variant or another header name) / destroy+create / umask changes; stat + JSON parse after every call with HOME redirected to a scratch directory"},
    "C18": {"count": {"quick": 4000, "thorough": 100000}, "trusted": SOCK_TRUSTED,
            "rule": "all compositions of the acknowledgement sizes around the header/body edge for a small response, then random header sets, body writes and acknowledgement pieces"},
    "C19": {"count": {"quick": 2500, "thorough": 50000}, "trusted": SOCK_TRUSTED,
            "rule": "1-3 concatenated requests (valid, malformed, garbage) x segmentations x handler behaviours (respond+close at once, later, never) x post-close API calls x late transport events"},
    "C05": {"count": {"quick": 3000, "thorough": 60000},
            "trusted": SOCK_TRUSTED + ["parameter: QRegExp (indexIn, matchedLength, capturedTexts) — theorems hold for every matcher; the harness supplies Qt's answers for every pattern x every suffix of the path",
                                        "modelled, not verified: QString::arg (lowest place marker, all occurrences, %L), QString::mid, QString::toUtf8"],
            "rule": "random handler trees (depth <= 3, <= 3 sub-handlers, <= 2 redirects and <= 2 middleware per node) over a vocabulary of anchored/unanchored QRegExp patterns and templates with %1 %2 %L1 %%; request targets over a segment alphabet with escapes (%0d%0a, %25, %2f, non-ASCII); instrumented Handler/Middleware subclasses behind the real ServerPrivate::process on SimTcp"},
    "C06": {"count": {"quick": 3000, "thorough": 60000},
            "trusted": SOCK_TRUSTED + ["parameter: QRegExp and the middleware verdicts (theorems hold for every matcher and every verdict assignment)"],
            "rule": "as C05 with 40% refusing middleware; refusers write a 403 marked with their id so the wire shows who answered"},
    "C07": {"count": {"quick": 1500, "thorough": 30000},
            "trusted": SOCK_TRUSTED + ["modelled, not verified: QDir::setPath/absoluteFilePath/cleanPath/relativeFilePath, QUrl::fromPercentEncoding, kernel path resolution without symbolic links; parameter: the file system tree (theorems hold for every finite tree)",
                                        "the served tree is fixed (.work/fstree, created by tools/check.py); symbolic links are outside the property's domain"],
            "rule": "exhaustive request paths of <= L segments over {name, sub, .., ., empty, %2e%2e, %252e%252e, sibling, outside file, %2f, missing} with one or two leading slashes, then random paths of <= 6 segments incl. absolute prefixes, NUL, encoded names, several spellings of the document root; real FilesystemHandler on SimTcp; status, body and disclosed names compared"},
    "C08": {"count": {"quick": 1200, "thorough": 25000},
            "trusted": SOCK_TRUSTED + ["parameters: file contents, MIME names, listing HTML (oracles); modelled: header split at ',', Range string constructor (C16), copier (C14) with the default 64 KiB block"],
            "rule": "files of size 0, 12, 31, 40, 65536, 70000 (across the 64 KiB copy block) x Range headers with bounds around 0, size, 65536, 2^31, malformed / multi-range / other units / case variants, and directory listings; whole response compared"},
    "C09": {"count": {"quick": 4000, "thorough": 100000},
            "trusted": SOCK_TRUSTED + ["modelled, not verified: QByteArray::fromBase64 (Qt's lenient decoder), QByteArray::split(' '), QMap lookup; credentials are compared as UTF-8 bytes (the harness registers well-formed NUL-free text)"],
            "rule": "credential tables of <= 4 users (prefixes / case variants of each other, empty password, ':' in password) x Authorization values: valid, near misses (scheme case, two spaces, tab, trailing space, missing colon, stripped padding, junk inside the token, NUL / BOM / invalid UTF-8 in the payload, other users' passwords), repeated headers, random bytes; through BasicAuthMiddleware attached to a Handler on a Socket over SimTcp"},
    "C14": {"count": {"quick": 3500, "thorough": 40000},
            "trusted": ["modelled, not verified: QBuffer/QFile read/seek/pos/atEnd, QIODevice::write refusing a negative length, QTimer::singleShot(0) = one pending call per event-loop turn; the harness devices (MemSrc, SeqSrc, LogDest) stand for QFile / sockets"],
            "rule": "exhaustive: sources of length <= L, every block size 1..len+1, no range and every (from,to) in [0,len+1] x [-1,len+1], left to run; stop() at every turn; then random contents (to 200 000 bytes), ranges, injected open/seek/read/write failures, sequential sources delivered in arbitrary pieces"},
    "C15": {"count": {"quick": 2000, "thorough": 30000},
            "trusted": SOCK_TRUSTED + ["modelled, not verified: QMap<QString,Method> insert/contains/value, QMetaObject slot lookup and signature check (a registration is `good` or not)"],
            "rule": "registries of <= 5 names (prefixes of each other, empty name, case variants, non-ASCII) through the old-style, pointer-to-member, functor, missing-slot and wrong-signature forms, with/without readAll; bodies of 0..16390 bytes, complete or truncated, in every kind of segmentation; harness slots record bytesAvailable()"},
    "C16": {"count": {"quick": 400, "thorough": 6000},
            "trusted": ["translated from the C++ on every run (tools/cxx2lean.py, clang-14 AST): Range::from/to/length/isValid/dataSize and the numeric constructor; bridge theorems QhttpBridge.Range prove them equal to the hand model",
                        "modelled, not verified: the string constructor (QRegExp ^(\\d*)-(\\d*)$, QString::trimmed, QString::toInt) for ASCII text, QString::number; validated by the exhaustive/boundary correspondence runs",
                        "qint64 modelled as Int; theorem no_overflow shows no intermediate leaves 64 bits for magnitudes < 2^62"],
            "rule": "exhaustive cube of (from,to,size) over [-K,K]^3 through the numeric constructor, all strings over {0,7,-,space,x,1} up to length L with five sizes, then boundary-biased numbers (around 2^31, 2^62) through numeric/assignment/copy-with-size/string construction; every accessor and the Content-Range text compared"},
}

LEVEL = {
 "C01": ("Theorems: the parser model accepts a head iff it has the METHOD SP target SP HTTP/1.x + `name: value` lines shape, and the fields shown to the application are exactly those; tie: every generated head goes through the real Socket and through the model, the accessor snapshot is compared byte for byte.",
         "QUrl is a parameter of the theorems; Qt value-class sub-models validated differentially; SimTcp stands for QTcpSocket."),
 "C02": ("Theorems over the socket read-side state machine for every segmentation and reader policy; tie: streams x segmentations x reader policies on the real Socket, reads/bytesAvailable/notifications compared with the model.",
         "QIODevice buffering is modelled (16 KiB chunks) and validated by the same runs; SimTcp stands for QTcpSocket."),
 "C03": ("Theorems: the serialised response re-parses (independent strict parser) to the status, per-name value multisets and body that the API history denotes; tie: random API histories on the real Socket, wire bytes compared with the model.",
         "documented preconditions (CR/LF-free tokens, one head) are explicit in `wfOps`; kernel socket buffering is Qt/OS."),
 "C04": ("Theorems: a rejected head yields exactly one 400 with consistent Content-Length, the transport closed, no notification or routing, for every segmentation and pre-buffering; tie: malformed heads x segmentations x pre-buffered prefixes on the real Socket.",
         "as C01/C02."),
 "C17": ("Theorems over the middleware's state machine for every operation sequence, umask and pre-existing file: between construction and destruction the file exists with mode 0600 and holds the data keys plus the current token; a request is admitted iff the configured header carries exactly the token; the file is removed on destruction; tie: life cycles on the real middleware with stat()/JSON inspection after every call. Partial: modes, randomness and the home directory are observations of the OS and Qt.",
         "partial: OS file modes and QUuid uniqueness are observed, not proved."),
 "C18": ("Theorems: the sum of notified counts is max 0 (acked - H) at every point (inductive invariant over write/ack interleavings); tie: exhaustive ack compositions around the header edge + random runs on the real Socket; onBytesWritten regenerated from the C++ and bridge-proved equal to the model.",
         "SimTcp acknowledgements stand for QTcpSocket::bytesWritten."),
 "C19": ("Theorems: headersParsed at most once per run, the wire is frozen once the transport is closed, disconnect follows the last acknowledgement; tie: pipelined/garbage streams x handler behaviours x post-close calls on the real Socket.",
         "as C02/C03."),
 "C05": ("Theorems about `route` for every tree, path, matcher and verdict assignment: exactly one terminal action when all middleware accept, equal to the documented order (first matching redirect, else first matching sub-handler with the matched prefix removed, else own processing), root sees path.drop 1, no root => 500; tie: random trees with real QRegExp behind the real Server glue, terminal action/Location/header set compared.",
         "QRegExp is a parameter; sub-handler patterns are assumed start-anchored as documented for the prefix-removal clause; QString::arg modelled."),
 "C06": ("Theorems: the middleware consulted are exactly the chain's up to and including the first refusal, in attachment order; after a refusal no redirect, sub-handler or processing action exists and the wire is the refuser's response; tie: as C05 with scripted refusing middleware.",
         "as C05."),
 "C07": ("Theorems over the path algebra (cleanPath/relativeFilePath models, kernel-style resolution on an arbitrary symlink-free tree): a served location always has the document root as a prefix; plain relative paths to existing entries are served; tie: exhaustive short paths and random long ones (double encoding, absolute prefixes, root spellings) through the real handler on a real temporary tree.",
         "Qt path functions are modelled and validated by the same runs; the file system is a parameter."),
 "C08": ("Theorems: composition of the Range theorems (C16), the copier theorem (C14) and the serialiser theorem (C03): 200 with the whole file or 206 with exactly the first satisfiable range, consistent Content-Length/Content-Range; tie: files across the 64 KiB block boundary x Range header variants through the real handler.",
         "setBufferSize is not reachable through the handler: small block sizes are covered by C14's copier runs."),
 "C09": ("Theorems: the middleware's verdict equals the property's reading (Basic in any case, one space, base64 of user:password cut at the first colon, exact registered pair) for every header value and table; base64 round trip; every refusal is one 401 with the realm challenge; tie: near-miss and random Authorization values through the real middleware.",
         "fromBase64 modelled (lenient decoder); QString conversion of credentials is covered by the round-trip guard in the repaired code."),
 "C14": ("Theorems over the copier state machine for every source, block size >= 1 and range: left to run it writes exactly src[from..min to (len-1)] (termination of the block loop included), one completion after the last write; failures give error then one completion; after stop() nothing more is written or signalled; sequential sources in arbitrary pieces; tie: exhaustive small sources x blocks x ranges x stop points on the real QIODeviceCopier with instrumented devices.",
         "devices are abstracted as byte strings with failure parameters; ranges on sequential sources are outside setRange()'s documented domain."),
 "C15": ("Theorems: exactly the registration stored under the equal path is used (last registration wins), unknown => 404, unusable => 500, and with readAll the slot observation occurs exactly once and only at a point where bytesAvailable >= contentLength, for every segmentation; tie: registries x bodies x segmentations through the real QObjectHandler.",
         "Qt's meta-object lookup is abstracted to good / not good."),
 "C16": ("Theorems over Int (every offset and size): valid => 0<=from<=to<size, length, text; invalid => -1 and */size; valid iff one of the three shapes; string forms; copy/resize preserve bounds; the accessor code is regenerated from range.cpp on every run and bridge-proved equal to the model, and the compiled class is compared with the model on an exhaustive cube and on all short strings.",
         "string constructor modelled for ASCII text only; QRegExp/QString are Qt."),
}
for _k, _v in LEVEL.items():
    PROPS[_k]["level_text"], PROPS[_k]["level_note"] = _v

NOT_APPLICABLE = {}

# bridge modules (theorems Gen = Model over the regenerated QhttpGen/*.lean) each property depends on
BRIDGES = {
    "C16": ["QhttpBridge.Range"],
    "C18": ["QhttpBridge.Ack"],
    "C01": ["QhttpBridge.Tables"],
    "C03": ["QhttpBridge.Tables"],
}
