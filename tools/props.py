"""Static description of each property's check: scenario budgets, bridge modules, trusted base."""

TRUSTED_COMMON = [
    "Lean 4.33 kernel; axioms accepted: propext, Classical.choice, Quot.sound (audited per theorem on every run; no sorry/admit/native_decide/bv_decide/own axioms)",
    "tools/check.py + Driver/Main.lean (compiled by leanc) evaluate the same `holds` the theorems are about on the implementation's history",
    "correspondence harness (harness/*.cpp, SimTcp as the transport) and tools/gens.py: that the model is the code is tested on the generated scenarios, not proved",
    "Qt 5.15, g++, ASan/UBSan runtime, the OS",
]

SOCK_TRUSTED = [
    "translated from the C++ on every run (tools/cxx2lean_qt.py, clang-14 AST): every slot of SocketPrivate and every public method of Socket in socket.cpp (18 functions), as functions over the model's state in the vocabulary of Qhttp/Model/CxxPrim.lean (one hand-written definition per Qt call / signal emission: trusted); bridge theorems QhttpBridge.Sock.* (one module per function) prove each equal to the model's function (one stated side condition: a head that parses but whose target QUrl rejects, see readHeaders_badUrl); a function outside the translated subset on the current tree takes only its own bridge modules out (listed in the evidence under bridge_modules_skipped_untranslatable) and then rests on the scenario comparison alone",
    "modelled, not verified: QIODevice read buffering (16 KiB chunking) and open-mode checks, QAbstractSocket::close flushing (SimTcp), QByteArray::{indexOf,mid,left,remove,trimmed,toLower,toLongLong,number}, QMultiMap ordering — validated differentially by the `qt` scenario family",
    "parameter: QUrl (validity, path(), query items) — theorems hold for every value, the concrete value comes from Qt through the harness",
]

PROXY_TRUSTED = [
    "translated from the C++ on every run: ProxyHandler::process of proxyhandler.cpp (the socket is re-parented, ONE ProxySocket is created with the routed path as handed in and the configured address and port); bridge theorems QhttpBridge.Ph",
    "translated from the C++ on every run: ProxySocket::onUpstreamReadyRead, onUpstreamError, onDownstreamReadyRead of proxysocket.cpp over the model's Proxy.St in the vocabulary of Qhttp/Model/PxPrim.lean (calls on the downstream HTTP socket = the socket model's API; what a socket hands out when read = a parameter; trusted); bridge theorems QhttpBridge.Proxy.* prove them equal to Proxy.onUpstreamReadyRead / onUpstreamError / the branch relayReads takes; onUpstreamConnected (request line, forwarded headers, flush of the buffered body) is proved equal to the model's upstreamHead + buffered bytes (onUpstreamConnected_eq; the reverse loop over X-Forwarded-For values by induction)",
]

FS_TRUSTED = [
    "translated from the C++ on every run: FilesystemHandlerPrivate::absolutePath and FilesystemHandler::process of filesystemhandler.cpp in the vocabulary of Qhttp/Model/FxPrim.lean (QString paths as UTF-8 bytes, QDir::exists / QFileInfo::isDir as resolution on the model's tree; trusted); bridge theorems QhttpBridge.Fs.* prove that absolutePath says yes exactly when Fs.served yields a location and that process takes the decision of FsHandler.plan (404 / listing / file)",
]

AUTH_TRUSTED = [
    "translated from the C++ on every run: BasicAuthMiddleware::verify and BasicAuthMiddleware::process of basicauthmiddleware.cpp in the vocabulary of Qhttp/Model/AxPrim.lean (a QString is its UTF-8 encoding, QString::fromUtf8(b).toUtf8() is an arbitrary function `round`, QMap::contains/value are the model's last-registration lookup, Parser::split is what QhttpBridge.Parser.split_eq proves of the translated parser, QString::arg replaces every %1; trusted); bridge theorems QhttpBridge.Auth prove that process admits exactly when BasicAuth.verdict does and otherwise sets the WWW-Authenticate challenge with the realm and writes 401, for every table whose entries `round` leaves alone (they were registered as QStrings)",
]

LAUTH_TRUSTED = [
    "translated from the C++ on every run: LocalAuthMiddleware::process of localauthmiddleware.cpp in the vocabulary of Qhttp/Model/AxPrim.lean (trusted); bridge theorems QhttpBridge.LocalAuth prove that it admits exactly when the value of the configured header is the token byte for byte (name compared up to case) and answers 403 otherwise",
]

ROUTE_TRUSTED = [
    "translated from the C++ on every run: Handler::route of handler.cpp — the loops over middleware, redirects and sub-handlers — in the vocabulary of Qhttp/Model/RxPrim.lean (a middleware carries its verdict for this request, QRegExp is the model's matcher, i.e. any function, a sub-handler's route() is the model's route on that node; substituteCaptures and the percent-encoding of the Location are vocabulary, not translated; trusted); bridge theorem QhttpBridge.Route.route_eq: the translated function IS the model's `route` on the node, for every matcher, path and lists (proved by induction over the shape of the translated loops: a soft obligation, recorded when a rewritten loop is not re-proved)",
]

SRVP_TRUSTED = [
    "translated from the C++ on every run: ServerPrivate::process of server.cpp, the lambda it connects to headersParsed() included (vocabulary Qhttp/Model/VxPrim.lean; trusted); bridge theorems QhttpBridge.SrvProcess prove that the HTTP socket is created, that disconnected() deletes it, and that the lambda is the model's serverRoute: with a root handler route(socket, path.mid(1)), without one 500",
]

SRV_TRUSTED = [
    "translated from the C++ on every run: Server::incomingConnection of server.cpp as the list of things done with the new connection (vocabulary Qhttp/Model/VxPrim.lean; trusted); bridge theorems QhttpBridge.Srv prove that ServerPrivate::process is called at once exactly when no TLS configuration is set (the model's `processed := !tls`), and that with a configuration it is only connected to encrypted(), an error deletes the socket, and the handshake is started with the descriptor and the configuration in place",
]

SLOT_TRUSTED = [
    "translated from the C++ on every run: QObjectHandler::process of qobjecthandler.cpp in the vocabulary of Qhttp/Model/SxPrim.lean (QMap::contains/value are the model's last-registration lookup, socket->bytesAvailable()/contentLength() what QhttpBridge.Sock proves of the translated socket.cpp, d->invokeSlot and the connect() of the deferred call recorded as actions; trusted); bridge theorems QhttpBridge.Slot prove that process takes the decision of SlotHandler.onHp: 404 / invoke now / invoke at end-of-body, for the registration stored last under exactly the routed name; invokeSlot itself (Qt's meta-object call) is modelled, not translated",
]

PARSER_TRUSTED = [
    "translated from the C++ on every run (tools/cxx2lean.py): Parser::split, parseHeaderList, parseHeaders, parseRequestHeaders, parseResponseHeaders of parser.cpp as pure functions (reference parameters returned, `fuel` bounding the loop of split) in the vocabulary Cxx.indexOfFrom / mid / size / count / nth / takeFirst of Qhttp/Model/CxxPrim.lean (trusted); bridge theorems QhttpBridge.Parser prove each equal to the model's function for every input and every fuel above the length of the data (split: non-empty delimiter, maxSplit >= 0 - every call site), and that the vocabulary entry Cxx.parseRequestHeaders used by the translated socket.cpp is the translated parser function (cxx_parseRequestHeaders); a function outside the translated subset is replaced by the model's (listed in QhttpGen.Parser.untranslated) and then rests on the scenario comparison only",
]

PROPS = {
    "C01": {"count": {"quick": 3000, "thorough": 60000}, "trusted": SOCK_TRUSTED + PARSER_TRUSTED,
            "rule": "grammar-driven request heads (valid, near-miss, malformed, tiny-alphabet lines) x segmentations, through a Socket on SimTcp with `snap` at headersParsed; distinct = distinct token strings; non-trivial = at least one segment delivered"},
    "C02": {"count": {"quick": 2500, "thorough": 60000}, "trusted": SOCK_TRUSTED + PARSER_TRUSTED,
            "rule": "accepted heads with Content-Length N x bodies (CRLFCRLF planted, sizes across the 16 KiB QIODevice chunk) x trailing data x segmentations (byte-wise, around the head/body edge, random) x reader policies"},
    "C03": {"count": {"quick": 2500, "thorough": 50000}, "trusted": SOCK_TRUSTED,
            "rule": "random response API histories (status, replace/append headers over a case-variant name pool, whole maps with repeated names, explicit/implicit head, body chunks to 70 000 bytes, error/redirect/JSON), acknowledgements, post-close calls"},
    "C04": {"count": {"quick": 2500, "thorough": 40000}, "trusted": SOCK_TRUSTED + PARSER_TRUSTED,
            "rule": "rejected heads x segmentations x number of segments buffered before construction x trailing data x late events"},
    "C17": {"count": {"quick": 500, "thorough": 8000},
            "trusted": LAUTH_TRUSTED + ["observed, not modelled: file modes and umask (stat(2)), the home directory, QJsonDocument (the file is represented by its top-level keys), QUuid (token distinctness across instances is QUuid's property; the harness checks a previous instance's token is refused)",
                        "the token comparison is made on bytes in the repaired code; header lookup is the case-insensitive header map (C01)"],
            "rule": "life cycles: optional umask {000,022,027,077,002}, optional pre-existing permissive file, create, then 0-7 of setData / setHeaderName / requests (exact token, upper-cased, last char dropped, braces stripped, NUL suffix, BOM prefix, previous instance's token, guesses, no header; under the configured, a case variant or another header name) / destroy+create / umask changes; stat + JSON parse after every call with HOME redirected to a scratch directory"},
    "C18": {"count": {"quick": 4000, "thorough": 100000}, "trusted": SOCK_TRUSTED,
            "rule": "all compositions of the acknowledgement sizes around the header/body edge for a small response, then random header sets, body writes and acknowledgement pieces"},
    "C19": {"count": {"quick": 2500, "thorough": 50000}, "trusted": SOCK_TRUSTED,
            "rule": "1-3 concatenated requests (valid, malformed, garbage) x segmentations x handler behaviours (respond+close at once, later, never) x post-close API calls x late transport events"},
    "C05": {"count": {"quick": 3000, "thorough": 60000},
            "trusted": ROUTE_TRUSTED + SRVP_TRUSTED + SOCK_TRUSTED + ["parameter: QRegExp (indexIn, matchedLength, capturedTexts) — theorems hold for every matcher; the harness supplies Qt's answers for every pattern x every suffix of the path",
                                        "modelled, not verified: QChar::digitValue (table dumped from Qt 5.15.8), QString::mid, QString::toUtf8; the place-marker syntax of QString::arg (argScan) is the reference of the specification, proved equal to the code's own reading (tokGo_eq_argScan)"],
            "rule": "random handler trees (depth <= 3, <= 3 sub-handlers, <= 2 redirects and <= 2 middleware per node) over a vocabulary of anchored/unanchored QRegExp patterns and templates with %1 %2 %L1 %%; request targets over a segment alphabet with escapes (%0d%0a, %25, %2f, non-ASCII); 8% two-capture redirects answered with marker-like captures (%2, trailing %, leading digits, empty) against glued / two-marker / non-ASCII-digit templates; instrumented Handler/Middleware subclasses behind the real ServerPrivate::process on SimTcp"},
    "C06": {"count": {"quick": 3000, "thorough": 60000},
            "trusted": ROUTE_TRUSTED + SOCK_TRUSTED + ["parameter: QRegExp and the middleware verdicts (theorems hold for every matcher and every verdict assignment)"],
            "rule": "as C05 with 40% refusing middleware; refusers write a 403 marked with their id so the wire shows who answered"},
    "C07": {"count": {"quick": 1500, "thorough": 30000},
            "trusted": SOCK_TRUSTED + FS_TRUSTED + ["modelled, not verified: QDir::setPath/absoluteFilePath/cleanPath/relativeFilePath, QUrl::fromPercentEncoding, kernel path resolution without symbolic links; parameter: the file system tree (theorems hold for every finite tree)",
                                        "the served tree is fixed (.work/fstree, created by tools/check.py); symbolic links are outside the property's domain"],
            "rule": "exhaustive request paths of <= L segments over {name, sub, .., ., empty, %2e%2e, %252e%252e, sibling, outside file, %2f, missing} with one or two leading slashes, then random paths of <= 6 segments incl. absolute prefixes, NUL, encoded names, several spellings of the document root; real FilesystemHandler on SimTcp; status, body and disclosed names compared"},
    "C08": {"count": {"quick": 1200, "thorough": 25000},
            "trusted": SOCK_TRUSTED + FS_TRUSTED + ["parameters: file contents, MIME names, listing HTML (oracles); modelled: header split at ',', Range string constructor (C16), copier (C14) with the default 64 KiB block"],
            "rule": "files of size 0, 12, 31, 40, 65536, 70000 (across the 64 KiB copy block) x Range headers with bounds around 0, size, 65536, 2^31, malformed / multi-range / other units / case variants, and directory listings; whole response compared"},
    "C09": {"count": {"quick": 4000, "thorough": 100000},
            "trusted": SOCK_TRUSTED + AUTH_TRUSTED + ["modelled, not verified: QByteArray::fromBase64 (Qt's lenient decoder), QByteArray::split(' '), QMap lookup; credentials are compared as UTF-8 bytes (the harness registers well-formed NUL-free text)"],
            "rule": "credential tables of <= 4 users (prefixes / case variants of each other, empty password, ':' in password) x Authorization values: valid, near misses (scheme case, two spaces, tab, trailing space, missing colon, stripped padding, junk inside the token, NUL / BOM / invalid UTF-8 in the payload, other users' passwords), repeated headers, random bytes; through BasicAuthMiddleware attached to a Handler on a Socket over SimTcp"},
    "C10": {"count": {"quick": 600, "thorough": 12000},
            "trusted": SRVP_TRUSTED + SOCK_TRUSTED + ["observed, not proved: heap behaviour (ASan/UBSan verdict of every run), live QObject accounting through Qt's qtHookData table, descriptor counts from /proc/self/fd",
                                        "the ownership protocol is modelled for the HTTP socket and the file copier (Life.lean); TLS and proxy connections are exercised by their own families without a lifetime model"],
            "rule": "one connection behind ServerPrivate::process with a filesystem handler (multi-block file, small file, listing, 404, malformed head) or a slot handler waiting for a body; the request is cut at a random byte, segments arbitrary; the connection is ended by the client, by the server or by destroying the Server at a random point among turns and acknowledgements; every scenario ends with both sides closed and four event-loop turns, then live objects and descriptors are counted"},
    "C11": {"count": {"quick": 4000, "thorough": 150000}, "trusted": SOCK_TRUSTED + [
                "observed, not proved: memory safety of the compiled code and of Qt — every scenario of every family runs under ASan+UBSan (-fno-sanitize-recover); a sanitizer abort, failed assertion or hang is an observation (`crash`) and fails the predicate"],
            "rule": "random event sequences for the socket: pre-buffered data, construction, segments of valid / malformed / random heads and random bytes, acknowledgements, peer disconnects, event-loop turns and every API call from idle context, with random re-entrant reactions (API calls made from inside headersParsed / readyRead / readChannelFinished / bytesWritten / disconnected); the whole observation history is compared with the model"},
    "C12": {"count": {"quick": 500, "thorough": 8000},
            "trusted": SOCK_TRUSTED + PARSER_TRUSTED + PROXY_TRUSTED + ["the upstream side is a real QTcpSocket over loopback to a harness-owned QTcpServer; a `turn` runs the event loop until nothing moves, so timing only decides which modelled interleaving is exercised (connected before/after body segments)",
                                        "modelled, not verified: QUrl::toPercentEncoding, QHostAddress::toString, QAbstractSocket buffering of writes made before `connected`"],
            "rule": "methods x targets (escaped reserved characters, space, CR LF, '?', '#', '%', non-ASCII, query strings) x header sets (duplicates, pre-existing X-Forwarded-For / X-Real-IP) x bodies of 0..40 bytes x segmentations x position of the event-loop turns (body before / after the upstream connection) x early answers of the upstream server (35 %: interim 100, final 2xx/5xx, head cut across two writes, data after the head, heads Parser::parseResponseHeaders refuses -> 502, payloads written before the connection exists) placed between the client's segments; completeness of the body is demanded whenever two turns follow the last segment, unless the answer sent so far is a refused head (C12.settled / Proxy.upHeadOk)"},
    "C13": {"count": {"quick": 500, "thorough": 8000},
            "trusted": SOCK_TRUSTED + PARSER_TRUSTED + PROXY_TRUSTED + ["as C12; upstream segmentation is enforced by write+flush followed by a turn on loopback"],
            "rule": "scripted upstream: status 100..599 and out of range, reasons incl. empty, header multisets with repeats and padding, bodies 0..700 bytes (also starting with a blank line), every kind of cut incl. inside the head and at the head/body edge; faults: connection refused, close after k bytes of the head, close after the response, late data after close"},
    "C14": {"count": {"quick": 3500, "thorough": 40000},
            "trusted": ["modelled, not verified: QBuffer/QFile read/seek/pos/atEnd, QIODevice::write refusing a negative length, QTimer::singleShot(0) = one pending call per event-loop turn; the harness devices (MemSrc, SeqSrc, LogDest) stand for QFile / sockets"],
            "rule": "exhaustive: sources of length <= L, every block size 1..len+1, no range and every (from,to) in [0,len+1] x [-1,len+1], left to run; stop() at every turn; a random-access source already read from (every position incl. one beyond the size, ranges starting at 0 and later, stops, faults); sequential sources holding bytes that no readyRead() announced (before a piece, between pieces, together with the end of the stream; stopped; failing destination); start() again after stop() at every turn once the stale timer has fired, with and without range; then random contents (to 200 000 bytes), ranges, positions, injected open/seek/read/write failures, sequential sources delivered in arbitrary announced/quiet pieces, restarts"},
    "C15": {"count": {"quick": 2000, "thorough": 30000},
            "trusted": SOCK_TRUSTED + SLOT_TRUSTED + ["modelled, not verified: QMap<QString,Method> insert/contains/value, QMetaObject slot lookup and signature check (a registration is `good` or not)"],
            "rule": "registries of <= 5 names (prefixes of each other, empty name, case variants, non-ASCII) through the old-style, pointer-to-member, functor, missing-slot and wrong-signature forms, with/without readAll; bodies of 0..16390 bytes, complete or truncated, in every kind of segmentation; harness slots record bytesAvailable()"},
    "C16": {"count": {"quick": 400, "thorough": 6000},
            "trusted": ["translated from the C++ on every run (tools/cxx2lean.py, clang-14 AST): Range::from/to/length/isValid/dataSize and the numeric constructor; bridge theorems QhttpBridge.Range prove them equal to the hand model",
                        "modelled, not verified: the string constructor (QRegExp ^(\\d*)-(\\d*)$, QString::trimmed, QString::toInt) for ASCII text, QString::number; validated by the exhaustive/boundary correspondence runs",
                        "qint64 modelled as Int; theorem no_overflow shows no intermediate leaves 64 bits for magnitudes < 2^62"],
            "rule": "exhaustive cube of (from,to,size) over [-K,K]^3 through the numeric constructor, all strings over {0,7,-,space,x,1} up to length L with five sizes, then boundary-biased numbers (around 2^31, 2^62) through numeric/assignment/copy-with-size/string construction; every accessor and the Content-Range text compared"},
    "C20": {"count": {"quick": 120, "thorough": 3000},
            "trusted": SRVP_TRUSTED + SRV_TRUSTED + ["QSslSocket: that clear text cannot complete a handshake, record-level behaviour — observed over loopback with the certificate of /repo/tests, not proved",
                        "the gate in Server::incomingConnection is modelled by hand (Tls.lean); after the handshake the connection is the socket model of C01-C06"],
            "rule": "a real Server on loopback with and without TLS configuration; clear-text clients sending valid requests, partial / bit-flipped ClientHello records, random bytes, nothing; TLS clients completing the handshake and sending a request; handler/middleware call log, first bytes received by the client and the server's child objects after the client left are compared"},
}

LEVEL = {
 "C01": ("Theorems: the parser model accepts a head iff it has the METHOD SP target SP HTTP/1.x + `name: value` lines shape, and the fields shown to the application are exactly those; tie: every generated head goes through the real Socket and through the model, the accessor snapshot is compared byte for byte.",
         "QUrl is a parameter of the theorems; Qt value-class sub-models validated differentially; SimTcp stands for QTcpSocket."),
 "C02": ("Theorems over the socket read-side state machine for every segmentation and reader policy; tie: streams x segmentations x reader policies on the real Socket, reads/bytesAvailable/notifications compared with the model.",
         "QIODevice buffering is modelled (16 KiB chunks) and validated by the same runs; SimTcp stands for QTcpSocket."),
 "C03": ("Theorems: the serialised response re-parses (independent strict parser) to the status, per-name value multisets and body that the API history denotes; tie: random API histories on the real Socket, wire bytes compared with the model.",
         "documented preconditions (CR/LF-free tokens, one head) are explicit in `wfOps`; kernel socket buffering is Qt/OS."),
 "C04": ("Theorems: a rejected head yields exactly one 400 with consistent Content-Length, the transport closed, no notification or routing, for every segmentation and pre-buffering; tie: malformed heads x segmentations x pre-buffered prefixes on the real Socket.",
         "as C01/C02."),
 "C17": ("Theorems over the middleware's state machine for every operation sequence, umask and pre-existing file: between construction and destruction the file exists with mode 0600 and holds the data keys plus the current token; a request is admitted iff the configured header carries exactly the token; the file is removed on destruction, also when LocalFile::open() failed at construction (a directory occupying the name: ops block/unblock) and a later update published the file; while the name is blocked nothing is written and the snapshot says no file; tie: life cycles on the real middleware (about a fifth with the open failing at construction) with stat()/JSON inspection after every call. Partial: modes, randomness and the home directory are observations of the OS and Qt.",
         "partial: OS file modes and QUuid uniqueness are observed, not proved."),
 "C18": ("Theorems: the sum of notified counts is max 0 (acked - H) at every point (inductive invariant over write/ack interleavings); tie: exhaustive ack compositions around the header edge + random runs on the real Socket; onBytesWritten regenerated from the C++ and bridge-proved equal to the model.",
         "SimTcp acknowledgements stand for QTcpSocket::bytesWritten."),
 "C19": ("Theorems: headersParsed at most once per run, the wire is frozen once the transport is closed, disconnect follows the last acknowledgement; tie: pipelined/garbage streams x handler behaviours x post-close calls on the real Socket.",
         "as C02/C03."),
 "C05": ("Theorems about `route` for every tree, path, matcher and verdict assignment: exactly one terminal action when all middleware accept, equal to the documented order (first matching redirect, else first matching sub-handler with the matched prefix removed, else own processing), root sees path.drop 1, no root => 500; tie: random trees with real QRegExp behind the real Server glue, terminal action/Location/header set compared.",
         "QRegExp is a parameter; sub-handler patterns are assumed start-anchored as documented for the prefix-removal clause; Qt's place-marker syntax modelled."),
 "C06": ("Theorems: the middleware consulted are exactly the chain's up to and including the first refusal, in attachment order; after a refusal no redirect, sub-handler or processing action exists and the wire is the refuser's response; tie: as C05 with scripted refusing middleware.",
         "as C05."),
 "C07": ("Theorems over the path algebra (cleanPath/relativeFilePath models, kernel-style resolution on an arbitrary symlink-free tree): a served location always has the document root as a prefix; plain relative paths to existing entries are served; tie: exhaustive short paths and random long ones (double encoding, absolute prefixes, root spellings) through the real handler on a real temporary tree.",
         "Qt path functions are modelled and validated by the same runs; the file system is a parameter."),
 "C08": ("Theorems: composition of the Range theorems (C16), the copier theorem (C14) and the serialiser theorem (C03): 200 with the whole file or 206 with exactly the first satisfiable range, consistent Content-Length/Content-Range; tie: files across the 64 KiB block boundary x Range header variants through the real handler.",
         "setBufferSize is not reachable through the handler: small block sizes are covered by C14's copier runs."),
 "C09": ("Theorems: the middleware's verdict equals the property's reading (Basic in any case, one space, base64 of user:password cut at the first colon, exact registered pair) for every header value and table; base64 round trip; every refusal is one 401 with the realm challenge; tie: near-miss and random Authorization values through the real middleware.",
         "fromBase64 modelled (lenient decoder); QString conversion of credentials is covered by the round-trip guard in the repaired code."),
 "C10": ("Partial. Theorems on the ownership model: after `disconnected` the HTTP socket is scheduled for deletion and one turn later it is gone; no event changes a dead socket (no use after free at model level); a copy in progress is stopped by `disconnected`; observed: every scenario runs under ASan+UBSan with live-object and descriptor accounting after quiescence.",
         "partial: memory errors inside Qt or arising from allocator state cannot be exhibited by the model; they are observed."),
 "C11": ("Partial. Theorems: termination of Parser::split for the non-empty delimiters of every call site, progress of each cut, takeFirst()/parts[i] accesses in range, termination of the copier's block loop, 64-bit safety of the Range arithmetic, totality of the event handlers of the model; observed: arbitrary event/byte/re-entrancy sequences under ASan+UBSan with the full history compared against the model.",
         "partial: memory safety of the compiled code and of Qt is observed, not proved."),
 "C12": ("Theorems over the relay state machine (request line from the method table and the re-encoded routed path plus the client's raw query; header copy with X-Forwarded-For / X-Real-IP; buffer-then-flush of body bytes around the `connected` event): the upstream stream is one head the strict reader accepts followed by exactly the client's body bytes, wherever `connected` falls and whatever the upstream server answers in the meantime (event lists new (feed | turn | up)*: a relayed answer leaves the request side of the client's socket untouched, a refused one closes it and freezes a prefix); tie: real ProxyHandler with a loopback upstream.",
         "loopback timing chooses the interleaving; the percent-encoding and header-map sub-models are validated by the same runs."),
 "C13": ("Theorems: a parsable upstream head is relayed with the same code, reason, per-name value multiset and body for every segmentation; refused / truncated / unparsable upstream gives exactly one 502; tie: scripted upstream servers over loopback.",
         "as C12."),
 "C14": ("Theorems over the copier state machine for every source, block size >= 1 and range: left to run it writes exactly src[p..min to (len-1)], p = from if > 0 else the position the source stands at (termination of the block loop included), one completion after the last write; failures give error then one completion; after stop() nothing more is written or signalled; sequential sources in arbitrary pieces, announced by readyRead() or not; a second start() after stop() copies the wanted bytes again (range start > 0) or resumes where the first run stopped; tie: exhaustive small sources x blocks x ranges x stop points on the real QIODeviceCopier with instrumented devices.",
         "devices are abstracted as byte strings with failure parameters; ranges on sequential sources are outside setRange()'s documented domain."),
 "C15": ("Theorems: exactly the registration stored under the equal path is used (last registration wins), unknown => 404, unusable => 500, and with readAll the slot observation occurs exactly once and only at a point where bytesAvailable >= contentLength, for every segmentation; tie: registries x bodies x segmentations through the real QObjectHandler.",
         "Qt's meta-object lookup is abstracted to good / not good."),
 "C16": ("Theorems over Int (every offset and size): valid => 0<=from<=to<size, length, text; invalid => -1 and */size; valid iff one of the three shapes; string forms; copy/resize preserve bounds; the accessor code is regenerated from range.cpp on every run and bridge-proved equal to the model, and the compiled class is compared with the model on an exhaustive cube and on all short strings.",
         "string constructor modelled for ASCII text only; QRegExp/QString are Qt."),
 "C20": ("Partial. Theorems on the gate for every event sequence: on a TLS-configured server nothing is routed unless `handshakeDone` occurred (invariant by induction), a failed handshake releases the connection, routing after the handshake equals plain routing; observed: raw and TLS clients against the real Server over loopback.",
         "partial: that clear text cannot complete a handshake is QSslSocket's guarantee."),
}
for _k, _v in LEVEL.items():
    PROPS[_k]["level_text"], PROPS[_k]["level_note"] = _v

NOT_APPLICABLE = {}

# bridge modules (theorems Gen = Model over the regenerated QhttpGen/*.lean) each property depends on.
# One module per translated function (plus a Base module of vocabulary facts per group).  BRIDGE_NEEDS gives, per module, the
# translated functions it speaks about: when the translator reports one of them as outside its subset on the current tree,
# the module is skipped for that run (the function's tie is then the correspondence alone; recorded in the evidence) instead
# of counting as a broken obligation.  A module whose functions WERE translated must build and its theorems must check.
def _sock(*names):
    return ["QhttpBridge.Sock.Base"] + ["QhttpBridge.Sock." + n for n in names]

SOCK_ALL = _sock("SetStatusCode", "SetHeader", "SetHeaders", "WriteHeaders", "WriteData", "Close", "WriteRedirect", "WriteError", "WriteJson",
                 "BytesAvailable", "IsHeadersParsed", "ContentLength", "ReadData", "ReadDataSlot", "OnBytesWritten", "OnReadChannelFinished",
                 "ReadHeaders", "OnReadyRead")
RANGE_ALL = ["QhttpBridge.Range.Base"] + ["QhttpBridge.Range." + n for n in ("IsValid", "From", "To", "Length", "DataSize", "Ctor3", "CtorResize")]
PROXY_ALL = ["QhttpBridge.Proxy.Base"] + ["QhttpBridge.Proxy." + n for n in ("OnUpstreamError", "OnUpstreamReadyRead", "OnDownstreamReadyRead", "OnUpstreamConnected")] + ["QhttpBridge.Ph"]

# parser.cpp: ONE module, with no entry in BRIDGE_NEEDS on purpose: every theorem of QhttpBridge.Parser is proved for the translated
# function AND for the model's stand-in the translator emits for a function outside its subset (`first | stand-in | translated`
# scripts; the `_run` theorems carry the hypothesis `… ∉ QhttpGen.Parser.untranslated`), so the module is never skipped.
PARSER_ALL = ["QhttpBridge.Parser"]

FS_ALL = ["QhttpBridge.Fs.AbsolutePath", "QhttpBridge.Fs.Process"]

BRIDGE_NEEDS = {
    "QhttpBridge.Route": ["Handler::route"],
    "QhttpBridge.Ph": ["ProxyHandler::process"],
    "QhttpBridge.SrvProcess": ["ServerPrivate::process"],
    "QhttpBridge.Srv": ["Server::incomingConnection"],
    "QhttpBridge.LocalAuth": ["LocalAuthMiddleware::process"],
    "QhttpBridge.Slot": ["QObjectHandler::process"],
    "QhttpBridge.Auth": ["BasicAuthMiddleware::verify", "BasicAuthMiddleware::process"],
    "QhttpBridge.Fs.AbsolutePath": ["FilesystemHandlerPrivate::absolutePath"],
    "QhttpBridge.Fs.Process": ["FilesystemHandler::process", "FilesystemHandlerPrivate::absolutePath"],
    "QhttpBridge.Sock.SetStatusCode": ["Socket::setStatusCode"], "QhttpBridge.Sock.SetHeader": ["Socket::setHeader"],
    "QhttpBridge.Sock.SetHeaders": ["Socket::setHeaders"], "QhttpBridge.Sock.WriteHeaders": ["Socket::writeHeaders"],
    "QhttpBridge.Sock.WriteData": ["Socket::writeData", "Socket::writeHeaders"], "QhttpBridge.Sock.Close": ["Socket::close"],
    "QhttpBridge.Sock.WriteRedirect": ["Socket::writeRedirect", "Socket::setStatusCode", "Socket::setHeader", "Socket::writeHeaders", "Socket::close"],
    "QhttpBridge.Sock.WriteError": ["Socket::writeError", "Socket::setStatusCode", "Socket::setHeader", "Socket::writeHeaders", "Socket::writeData", "Socket::close"],
    "QhttpBridge.Sock.WriteJson": ["Socket::writeJson", "Socket::setStatusCode", "Socket::setHeader", "Socket::writeHeaders", "Socket::writeData", "Socket::close"],
    "QhttpBridge.Sock.BytesAvailable": ["Socket::bytesAvailable"], "QhttpBridge.Sock.IsHeadersParsed": ["Socket::isHeadersParsed"],
    "QhttpBridge.Sock.ContentLength": ["Socket::contentLength"], "QhttpBridge.Sock.ReadData": ["Socket::readData"],
    "QhttpBridge.Sock.ReadDataSlot": ["SocketPrivate::readData"], "QhttpBridge.Sock.OnBytesWritten": ["SocketPrivate::onBytesWritten"],
    "QhttpBridge.Sock.OnReadChannelFinished": ["SocketPrivate::onReadChannelFinished"],
    "QhttpBridge.Sock.ReadHeaders": ["SocketPrivate::readHeaders", "Socket::writeError", "Socket::setStatusCode", "Socket::setHeader", "Socket::writeHeaders", "Socket::writeData", "Socket::close"],
    "QhttpBridge.Sock.OnReadyRead": ["SocketPrivate::onReadyRead", "SocketPrivate::readHeaders", "SocketPrivate::readData", "Socket::writeError", "Socket::setStatusCode",
                                     "Socket::setHeader", "Socket::writeHeaders", "Socket::writeData", "Socket::close"],
    "QhttpBridge.Range.IsValid": ["Range::isValid"], "QhttpBridge.Range.From": ["Range::from", "Range::isValid"], "QhttpBridge.Range.To": ["Range::to", "Range::isValid"],
    "QhttpBridge.Range.Length": ["Range::length", "Range::isValid", "Range::from", "Range::to"], "QhttpBridge.Range.DataSize": ["Range::dataSize"],
    "QhttpBridge.Range.Ctor3": ["Range::Range/3"], "QhttpBridge.Range.CtorResize": ["Range::Range/2"],
    "QhttpBridge.Ack": ["SocketPrivate::onBytesWritten"],
    "QhttpBridge.Copier": ["QIODeviceCopierPrivate::nextBlock"],
    "QhttpBridge.Tables": ["SocketPrivate::statusReason", "Parser::parseRequestHeaders", "ProxySocket::methodToString"],
    "QhttpBridge.Proxy.OnUpstreamError": ["ProxySocket::onUpstreamError"], "QhttpBridge.Proxy.OnUpstreamReadyRead": ["ProxySocket::onUpstreamReadyRead"],
    "QhttpBridge.Proxy.OnDownstreamReadyRead": ["ProxySocket::onDownstreamReadyRead"],
    "QhttpBridge.Proxy.OnUpstreamConnected": ["ProxySocket::onUpstreamConnected"],
}

# bridge modules whose proofs contain a hand-made induction over a translated loop: a harmless rewrite of that loop
# (another iteration order, another accumulator) yields a function that is still equal to the model but that THIS proof does
# not cover.  For these, a translated function that is not re-proved is recorded (`bridge_modules_not_reproved`) and falls
# back to the correspondence tie, like an untranslatable one; they add assurance on trees where they check, not detection.
# hand inductions over the shape of a translated loop inside otherwise shape-independent bridge modules
SOFT_THEOREMS = {"QhttpBridge.Parser": ["split_eq", "parseHeaderList_run"]}
SOFT_BRIDGES = ["QhttpBridge.Proxy.OnUpstreamConnected", "QhttpBridge.Route"]

BRIDGES = {
    "C16": RANGE_ALL,
    "C18": ["QhttpBridge.Ack"] + SOCK_ALL,
    "C01": ["QhttpBridge.Tables"] + SOCK_ALL + PARSER_ALL,
    "C02": SOCK_ALL + PARSER_ALL,
    "C03": ["QhttpBridge.Tables"] + SOCK_ALL,
    "C04": SOCK_ALL + PARSER_ALL,
    "C11": SOCK_ALL + ["QhttpBridge.Parser"],
    "C19": SOCK_ALL,
    "C12": PROXY_ALL + PARSER_ALL,
    "C13": PROXY_ALL + PARSER_ALL,
    "C14": ["QhttpBridge.Copier"],
    "C08": ["QhttpBridge.Copier"] + RANGE_ALL + FS_ALL,
    "C07": FS_ALL,
    "C09": ["QhttpBridge.Auth"],
    "C15": ["QhttpBridge.Slot"],
    "C17": ["QhttpBridge.LocalAuth"],
    "C20": ["QhttpBridge.Srv", "QhttpBridge.SrvProcess"],
    "C05": ["QhttpBridge.SrvProcess", "QhttpBridge.Route"],
    "C06": ["QhttpBridge.Route"],
    "C10": ["QhttpBridge.SrvProcess"],
}
ALL_BRIDGE_MODULES = sorted({m for v in BRIDGES.values() for m in v})
