#!/bin/bash
# confirm a behaviour-preserving rewrite in the agent's scratch worktree (tests pass with it) and store it
#   tools/confirm_neutral.sh <tag> <i>   ->  /verif/neutral/<tag>-<i>
tag=$1; i=$2
W=/tmp/mut/$tag; O=$W/out/$i
cd $W || exit 2
git checkout -q -- .
git apply $O/patch.diff || { echo "PATCH DOES NOT APPLY"; exit 2; }
cmake --build build -j8 > $O/.lib.log 2>&1 || { echo "BUILD FAILED"; git checkout -q -- .; exit 2; }
mkdir -p $W/build/home; tests=$(HOME=$W/build/home ctest --test-dir build -j8 --timeout 300 2>&1 | grep -E "tests passed|tests failed" | head -1)
demo="not run"
if [ -f $O/build_demo.sh ]; then ( mkdir -p $W/build/home; cd $O && sh ./build_demo.sh > .build.log 2>&1; timeout 120 ./demo > .demo.log 2>&1; echo $? > .demo.rc ); demo="exit $(cat $O/.demo.rc)"; fi
git checkout -q -- .
cmake --build build -j8 > /dev/null 2>&1
echo "$tag-$i tests: $tests | demo on rewritten tree: $demo"
if echo "$tests" | grep -q "100% tests passed" && [ "$demo" = "exit 0" ]; then
  D=/verif/neutral/$tag-$i; mkdir -p $D
  cp $O/patch.diff $O/meta.json $D/; cp $O/demo.cpp $O/build_demo.sh $D/ 2>/dev/null
  python3 - "$D" "$tests" <<'PY'
import json,sys
d,tests=sys.argv[1:3]
m=json.load(open(d+"/meta.json")); m["confirmed_by_coordinator"]={"existing_suite_with_rewrite":tests,"demo_with_rewrite":"exit 0"}
json.dump(m,open(d+"/meta.json","w"),indent=1)
PY
  echo "STORED -> $D"
else echo "NOT STORED"; fi
