#!/usr/bin/env python3
"""Run checks against a seeded change: apply the patch to /repo, run the given properties' quick
checks (default: the property the change targets, then all others), undo the patch.
  python3 tools/seedtest.py seeded/<id> [--all] [--tier quick]
Prints one line per property: OK / VIOLATION(failing input | no-failing-input-found) / BROKEN."""
import json, os, subprocess, sys, time
ROOT = os.path.dirname(os.path.dirname(os.path.abspath(__file__)))
REPO = "/repo"

def main():
    d = sys.argv[1]
    allp = "--all" in sys.argv
    meta = json.load(open(os.path.join(d, "meta.json")))
    target = meta["property"]
    patch = os.path.abspath(os.path.join(d, "patch.diff"))
    st = subprocess.run(["git", "-C", REPO, "status", "--porcelain", "--untracked-files=no"], capture_output=True, text=True).stdout.strip()
    if st:
        print("refusing: /repo has local modifications:\n" + st); sys.exit(2)
    p = subprocess.run(["git", "-C", REPO, "apply", patch], capture_output=True, text=True)
    if p.returncode != 0:
        print("patch does not apply:", p.stderr); sys.exit(2)
    results = {}
    try:
        props = [target]
        for a in sys.argv[2:]:
            if a.startswith("--props="):
                props = a[8:].split(",")
        if allp:
            props += [json.loads(l)["id"] for l in open(os.path.join(ROOT, "properties.jsonl")) if json.loads(l)["id"] != target]
        for pid in props:
            t0 = time.time()
            r = subprocess.run([sys.executable, os.path.join(ROOT, "tools", "check.py"), pid, "--tier", "quick"],
                               capture_output=True, text=True, cwd=ROOT)
            line = [l for l in r.stdout.splitlines() if l.startswith(("VIOLATION", "OK ", "CHECK-BROKEN"))]
            verdict = line[-1] if line else "exit %d" % r.returncode
            results[pid] = {"exit": r.returncode, "verdict": verdict[:300], "wall_s": round(time.time() - t0, 1)}
            print(pid, r.returncode, verdict[:200], flush=True)
    finally:
        subprocess.run(["git", "-C", REPO, "checkout", "--", "."])
    old = {}
    if os.path.exists(os.path.join(d, "check_results.json")):
        old = json.load(open(os.path.join(d, "check_results.json")))
    old.update(results)
    json.dump(old, open(os.path.join(d, "check_results.json"), "w"), indent=1)

if __name__ == "__main__":
    main()
