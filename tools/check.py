#!/usr/bin/env python3
"""Orchestrator: one entry point for every property and tier (DESIGN.md section 6).

  python3 tools/check.py Cxx [--tier quick|thorough] [--replay FILE] [--seed N]

 1. proof half : regenerate lean/QhttpGen from /repo (tools/cxx2lean.py), `lake build`, audit the
                 axioms of every theorem of Props/Cxx.lean and of the bridge theorems it uses.
 2. tie half   : build the harness from /repo's working tree, run corpus + generated scenarios
                 through the real library and through the model, compare projections and evaluate
                 the property predicate `Cxx.holds` on the implementation's history.
 3. verdict    : exit 0, or `VIOLATION property=Cxx replay=<path>[ no-failing-input-found]` + exit 1.
"""
import argparse, fcntl, hashlib, json, os, random, re, shutil, subprocess, sys, time, glob

ROOT = os.path.dirname(os.path.dirname(os.path.abspath(__file__)))
REPO = os.environ.get("VERIF_REPO", "/repo")
LEAN = os.path.join(ROOT, "lean")
CACHE = os.path.join(ROOT, ".cache")
sys.path.insert(0, os.path.join(ROOT, "tools"))

import gens            # scenario generators, one per property
import signatures      # known-finding signatures (predicates on scenarios)
import props           # per-property static description (bridge theorems, trusted base, ...)

NCPU = min(16, os.cpu_count() or 4)
STD_AXIOMS = {"propext", "Classical.choice", "Quot.sound"}


def log(*a):
    print(*a, file=sys.stderr, flush=True)


class Lock:
    def __init__(self, name):
        os.makedirs(CACHE, exist_ok=True)
        self.path = os.path.join(CACHE, name + ".lock")
    def __enter__(self):
        self.f = open(self.path, "w")
        fcntl.flock(self.f, fcntl.LOCK_EX)
        return self
    def __exit__(self, *a):
        fcntl.flock(self.f, fcntl.LOCK_UN)
        self.f.close()


# ----------------------------------------------------------------------------- proof half

def lean_sources():
    out = []
    for d, _, fs in os.walk(LEAN):
        if ".lake" in d:
            continue
        for f in fs:
            if f.endswith(".lean"):
                out.append(os.path.join(d, f))
    return sorted(out)


def strip_comments(src):
    src = re.sub(r"/-.*?-/", "", src, flags=re.S)
    src = re.sub(r"--.*", "", src)
    return src


FORBIDDEN = re.compile(r"\bsorry\b|\badmit\b|^\s*axiom\s|native_decide|bv_decide|implemented_by|\bunsafe\s|maxHeartbeats\s+0", re.M)


def grep_forbidden():
    hits = []
    for p in lean_sources():
        if os.sep + "Driver" + os.sep in p and p.endswith("Main.lean"):
            continue                      # the driver is a program, not part of any proof
        body = strip_comments(open(p).read())
        for m in FORBIDDEN.finditer(body):
            hits.append("%s: %s" % (os.path.relpath(p, ROOT), m.group(0).strip()))
    return hits


def soft_failure(mod, out):
    """True when every proof that failed in this module is one of the designated hand inductions over the shape of a
    translated loop (props.SOFT_THEOREMS): those are re-proved when the loop has the shape they were written for and
    are otherwise recorded as not re-proved (the tie falls back to the correspondence), never raised as an alarm."""
    soft = getattr(props, "SOFT_THEOREMS", {}).get(mod)
    if not soft:
        return False
    path = os.path.join(LEAN, *mod.split(".")) + ".lean"
    rel = os.path.join(*mod.split(".")) + ".lean"
    lines = open(path).read().split("\n")
    errs = [int(m.group(1)) for m in re.finditer(r"error: " + re.escape(rel) + r":(\d+):\d+", out)]
    if not errs:
        return False
    for ln in errs:
        name = None
        for i in range(min(ln, len(lines)) - 1, -1, -1):
            mm = re.match(r"(?:private\s+)?(theorem|lemma|def|example|instance|macro)\s*([A-Za-z_][A-Za-z0-9_.']*)?", lines[i])
            if mm:
                name = mm.group(2) if mm.group(1) in ("theorem", "lemma") else None
                break
        if name not in soft:
            return False
    return True


def theorems_of(path, ns):
    if not os.path.exists(path):
        return []
    body = strip_comments(open(path).read())
    return [ns + "." + m for m in re.findall(r"^\s*theorem\s+([A-Za-z0-9_'.]+)", body, flags=re.M)]


def run_translator():
    """regenerate lean/QhttpGen/*.lean from the C++ source; returns dict of info"""
    tr = os.path.join(ROOT, "tools", "cxx2lean.py")
    if not os.path.exists(tr):
        return {"used": False, "why": "translator not built yet"}
    p = subprocess.run([sys.executable, tr, "--repo", REPO, "--out", os.path.join(LEAN, "QhttpGen")],
                       capture_output=True, text=True)
    info = {"used": p.returncode == 0, "log": p.stdout[-2000:] + p.stderr[-2000:]}
    try:
        info.update(json.loads(p.stdout.strip().splitlines()[-1]))
    except Exception:
        pass
    return info


def lake_build(targets):
    with Lock("lake"):
        p = subprocess.run(["lake", "build"] + targets, cwd=LEAN, capture_output=True, text=True)
    return p.returncode == 0, p.stdout + p.stderr


def axiom_audit(names, mods):
    """#print axioms for each name; returns ({name: [axioms]}, raw text); a missing name = not proved"""
    if not names or not mods:
        return {}, ""
    os.makedirs(os.path.join(ROOT, ".work"), exist_ok=True)
    f = os.path.join(ROOT, ".work", "audit_%d.lean" % os.getpid())
    with open(f, "w") as h:
        for m in mods:
            h.write("import %s\n" % m)
        for n in names:
            h.write("#print axioms %s\n" % n)
    with Lock("lake"):
        p = subprocess.run(["lake", "env", "lean", f], cwd=LEAN, capture_output=True, text=True)
    os.unlink(f)
    res = {}
    txt = p.stdout + p.stderr
    for m in re.finditer(r"'(\S+)' depends on axioms: \[([^\]]*)\]", txt, flags=re.S):
        res[m.group(1)] = [a.strip() for a in m.group(2).replace("\n", " ").split(",") if a.strip()]
    for m in re.finditer(r"'(\S+)' does not depend on any axioms", txt):
        res[m.group(1)] = []
    return res, txt


def proof_half(prop, tier):
    info = {"translator": run_translator()}
    # a bridge module about a function the translator could not translate on this tree is skipped (tie by correspondence)
    untr = [u.split(" (")[0] for u in info["translator"].get("untranslatable", [])]
    # safety net for defects of the translator itself: a generated file that does not even compile says nothing about the
    # code; the bridge modules over it are skipped like untranslatable ones and the fact is recorded
    gen_groups = {"QhttpGen.Sock": "QhttpBridge.Sock.", "QhttpGen.Proxy": "QhttpBridge.Proxy.", "QhttpGen.Fs": "QhttpBridge.Fs.", "QhttpGen.Auth": ("QhttpBridge.Auth", "QhttpBridge.LocalAuth"), "QhttpGen.Slot": "QhttpBridge.Slot", "QhttpGen.Srv": "QhttpBridge.Srv", "QhttpGen.Ph": "QhttpBridge.Ph", "QhttpGen.Route": "QhttpBridge.Route",
                  "QhttpGen.Range": "QhttpBridge.Range.", "QhttpGen.Parser": "QhttpBridge.Parser", "QhttpGen.Ack": "QhttpBridge.Ack",
                  "QhttpGen.Copier": "QhttpBridge.Copier", "QhttpGen.Tables": "QhttpBridge.Tables"}
    wanted = props.BRIDGES.get(prop, [])
    broken_gen = {}
    for gm, prefix in gen_groups.items():
        if any(bm.startswith(prefix) for bm in wanted):   # (str.startswith accepts a tuple of prefixes)
            okg, outg = lake_build([gm])
            if not okg:
                broken_gen[gm] = outg[-800:]
    info["generated_modules_not_compiling"] = broken_gen
    skipped = {}
    bridge_mods = []
    for bm in wanted:
        miss = [f for f in props.BRIDGE_NEEDS.get(bm, []) if f in untr]
        gen_bad = [gm for gm, prefix in gen_groups.items() if gm in broken_gen and bm.startswith(prefix)]
        if miss:
            skipped[bm] = miss
        elif gen_bad:
            skipped[bm] = ["generated module %s does not compile (translator defect)" % gen_bad[0]]
        else:
            bridge_mods.append(bm)
    info["bridges_skipped"] = skipped
    mods = ["Qhttp.Props." + prop] + bridge_mods
    ok_drv, out_drv = lake_build(["qhttp-driver"])
    if not ok_drv:
        return {"fatal": "the model/driver does not build (framework defect, not a property verdict):\n" + out_drv[-3000:]}
    built, failed_mods = [], []
    ok_all, _ = lake_build(mods)
    if ok_all:
        built = list(mods)
    else:
        for m in mods:
            ok, out = lake_build([m])
            if ok:
                built.append(m)
            elif m in getattr(props, "SOFT_BRIDGES", []) or soft_failure(m, out):
                info.setdefault("bridges_not_reproved", {})[m] = out[-600:]
            else:
                failed_mods.append((m, out[-3000:]))
    names = theorems_of(os.path.join(LEAN, "Qhttp", "Props", prop + ".lean"), "Qhttp." + prop)
    for bm in bridge_mods:
        if bm in info.get("bridges_not_reproved", {}):
            continue
        ns = bm
        for grp in ("QhttpBridge.Sock", "QhttpBridge.Range", "QhttpBridge.Proxy", "QhttpBridge.Fs"):
            if bm.startswith(grp + "."):
                ns = grp                     # the per-function modules of a group share its namespace
        names += theorems_of(os.path.join(LEAN, *bm.split(".")) + ".lean", ns)
    def ns_of(m):
        for grp in ("QhttpBridge.Sock", "QhttpBridge.Range", "QhttpBridge.Proxy", "QhttpBridge.Fs"):
            if m.startswith(grp + "."):
                return grp
        return m
    built_thms = set()
    for m in built:
        if m.startswith("QhttpBridge."):
            built_thms |= set(theorems_of(os.path.join(LEAN, *m.split(".")) + ".lean", ns_of(m)))
    checkable = [n for n in names if n in built_thms or any(n.startswith(m.replace("Qhttp.Props.", "Qhttp.") + ".") for m in built if not m.startswith("QhttpBridge."))]
    audit, txt = axiom_audit(checkable, built)
    discharged, bad = [], []
    for n in names:
        ax = audit.get(n)
        if ax is None:
            bad.append((n, "does not check"))
        elif set(ax) - STD_AXIOMS:
            bad.append((n, "non-standard axioms: %s" % sorted(set(ax) - STD_AXIOMS)))
        else:
            discharged.append(n)
    forb = grep_forbidden()
    info.update({"obligations": names, "discharged": discharged, "undischarged": bad,
                 "forbidden": forb, "axioms": sorted({a for v in audit.values() for a in v}),
                 "failed_modules": failed_mods})
    if tier == "thorough":
        lc = []
        for m in built:
            with Lock("lake"):
                p = subprocess.run(["lake", "env", "leanchecker", m], cwd=LEAN, capture_output=True, text=True)
            lc.append((m, p.returncode))
            if p.returncode != 0:
                bad.append((m, "leanchecker rejected the module"))
        info["leanchecker"] = lc
    return info


# ----------------------------------------------------------------------------- tie half

def tree_hash():
    h = hashlib.sha256()
    files = []
    for base in (os.path.join(REPO, "src"), os.path.join(ROOT, "harness")):
        for d, _, fs in os.walk(base):
            for f in fs:
                files.append(os.path.join(d, f))
    files.append(os.path.join(REPO, "CMakeLists.txt"))
    for f in sorted(files):
        h.update(f.encode())
        try:
            h.update(open(f, "rb").read())
        except OSError:
            pass
    return h.hexdigest()[:16]


def build_harness():
    """build (or reuse) the ASan/UBSan harness for the current working tree of /repo"""
    hsh = tree_hash()
    bdir = os.path.join(CACHE, "hb-" + hsh)
    exe = os.path.join(bdir, "harness")
    with Lock("harness"):
        if os.path.exists(exe):
            os.utime(bdir)
            return exe, hsh, None
        # keep the cache small: drop all but the most recent other build
        old = sorted(glob.glob(os.path.join(CACHE, "hb-*")), key=os.path.getmtime)
        for d in old[:-1]:
            shutil.rmtree(d, ignore_errors=True)
        os.makedirs(bdir, exist_ok=True)
        p = subprocess.run(["cmake", "-G", "Ninja", os.path.join(ROOT, "harness"), "-DREPO_DIR=" + REPO,
                            "-DCMAKE_BUILD_TYPE=None"], cwd=bdir, capture_output=True, text=True)
        if p.returncode == 0:
            p = subprocess.run(["ninja", "-j%d" % NCPU], cwd=bdir, capture_output=True, text=True)
        if p.returncode != 0 or not os.path.exists(exe):
            shutil.rmtree(bdir, ignore_errors=True)
            return None, hsh, (p.stdout + p.stderr)[-4000:]
        return exe, hsh, None


def ensure_fstree():
    """the fixed tree the `fs` scenario family serves (document root = fstree/parent/root)"""
    base = os.path.join(ROOT, ".work", "fstree")
    marker = os.path.join(base, ".complete-v3")
    if os.path.exists(marker):
        return base
    shutil.rmtree(base, ignore_errors=True)
    def put(rel, size, seed):
        p = os.path.join(base, rel)
        os.makedirs(os.path.dirname(p), exist_ok=True)
        open(p, "wb").write(bytes((i * 7 + seed) % 251 for i in range(size)))
    put("parent/secret.txt", 23, 1)
    put("parent/rootx/s.txt", 19, 2)
    put("parent/root/in.txt", 40, 3)
    put("parent/root/sub/deep.txt", 31, 4)
    put("parent/root/sub/.hidden", 9, 5)
    put("parent/root/a&b<c>.txt", 12, 6)
    put("parent/root/big.bin", 70000, 7)
    put("parent/root/empty.txt", 0, 8)
    put("parent/root/edge.bin", 65536, 9)
    # a name outside ASCII (2- and 3-byte UTF-8 sequences): the listing's Content-Length counts bytes, not characters (H08-1)
    put("parent/root/sub/caf\u00e9 \u4e2d.txt", 5, 10)
    open(marker, "w").write("ok")
    return base


DRIVER = os.path.join(LEAN, ".lake", "build", "bin", "qhttp-driver")
HENV = dict(os.environ, ASAN_OPTIONS="detect_leaks=0:abort_on_error=0:exitcode=77",
            UBSAN_OPTIONS="print_stacktrace=0:halt_on_error=1", QT_LOGGING_RULES="*=false",
            QT_QPA_PLATFORM="offscreen")


# scenarios in which a later object must be able to land at the address of an earlier, destroyed one (a remembered raw
# pointer that outlives its object): ASan's quarantine would keep freed blocks out of circulation, so these run without it
HENV_REUSE = dict(HENV, ASAN_OPTIONS=HENV["ASAN_OPTIONS"] + ":quarantine_size_mb=0:thread_local_quarantine_size_kb=0")
REUSE_RE = re.compile(r" mw:\d+:\d+:2( |$)")


def run_shard(exe, lines, timeout, env=None):
    """run scenario lines through the harness (restarting after a crash) and the driver"""
    env = env or HENV
    pending = list(lines)
    hout = []
    crashes = []
    while pending:
        try:
            p = subprocess.run([exe], input="\n".join(pending) + "\n", capture_output=True, text=True,
                               env=env, timeout=timeout, cwd=os.path.join(ROOT, ".work"))
            out, err, rc, hung = p.stdout, p.stderr, p.returncode, False
        except subprocess.TimeoutExpired as e:
            out = (e.stdout or b"").decode() if isinstance(e.stdout, bytes) else (e.stdout or "")
            err, rc, hung = "timeout", -9, True
        ol = out.splitlines()
        done = sum(1 for l in ol if l.startswith("OBS "))
        if rc == 0 and done == len(pending):
            hout += ol
            break
        # the scenario after the last complete one crashed (or hung)
        if ol and not ol[-1].startswith("OBS ") and not ol[-1].startswith("SCN "):
            ol = ol[:-1]                      # drop a torn ORA line
        while ol and ol[-1].startswith("ORA ") and not ol[-1].startswith("ORA * "):
            ol = ol[:-1]
        if not ol or not ol[-1].startswith("SCN "):
            ol.append(pending[done])
        sid = pending[done].split()[3]
        kind = "hang" if hung else "crash"
        ol.append("ORA %s -" % sid)
        ol.append("OBS %s %s" % (sid, kind))
        crashes.append((pending[done], (err or "")[-1500:]))
        hout += ol
        pending = pending[done + 1:]
    p = subprocess.run([DRIVER], input="\n".join(hout) + "\n", capture_output=True, text=True)
    return p.stdout.splitlines(), crashes, hout


def run_scenarios(exe, lines, timeout=600):
    from concurrent.futures import ThreadPoolExecutor
    reuse = [l for l in lines if REUSE_RE.search(l)]
    lines = [l for l in lines if not REUSE_RE.search(l)]
    n = max(1, min(NCPU, len(lines) // 20 + 1))
    shards = [(lines[i::n], HENV) for i in range(n)]
    if reuse:
        m = max(1, min(4, len(reuse) // 20 + 1))
        shards += [(reuse[i::m], HENV_REUSE) for i in range(m)]
    res, crashes, raw = [], [], []
    with ThreadPoolExecutor(max_workers=min(NCPU, len(shards))) as ex:
        for r, c, h in ex.map(lambda s: run_shard(exe, s[0], timeout, s[1]), shards):
            res += r
            crashes += c
            raw += h
    return res, crashes, raw


def parse_res(l):
    m = re.match(r"RES (\S+) (\S+) eq=(\d) hm=(\d) hi=(\d) miss=(\d) crash=(\d)(.*)", l)
    if not m:
        return None
    rest = m.group(8).split(" | ")
    return {"prop": m.group(1), "id": m.group(2), "eq": m.group(3) == "1", "hm": m.group(4) == "1",
            "hi": m.group(5) == "1", "miss": m.group(6) == "1", "crash": m.group(7) == "1",
            "pm": rest[1].strip() if len(rest) > 1 else "", "pi": rest[2].strip() if len(rest) > 2 else "",
            "extra": rest[3].strip() if len(rest) > 3 else ""}


def shrink(exe, line, still_fails):
    """delta-debug the token list of one scenario line while `still_fails` holds"""
    head, toks = line.split()[:4], line.split()[4:]
    n = 2
    budget = 60
    while len(toks) >= 2 and budget > 0:
        chunk = max(1, len(toks) // n)
        changed = False
        for i in range(0, len(toks), chunk):
            cand = toks[:i] + toks[i + chunk:]
            if not cand:
                continue
            budget -= 1
            if still_fails(" ".join(head + cand)):
                toks, changed = cand, True
                n = max(n - 1, 2)
                break
            if budget <= 0:
                break
        if not changed:
            if chunk == 1:
                break
            n = min(len(toks), n * 2)
    return " ".join(head + toks)


# ----------------------------------------------------------------------------- verdict

def load_known():
    p = os.path.join(ROOT, "known_findings.json")
    if not os.path.exists(p):
        return []
    return json.load(open(p)).get("findings", [])


def write_replay(prop, tag, payload):
    d = os.path.join(ROOT, "replay")
    os.makedirs(d, exist_ok=True)
    h = hashlib.sha256(json.dumps(payload, sort_keys=True).encode()).hexdigest()[:10]
    path = os.path.join(d, "%s-%s-%s.json" % (prop, tag, h))
    json.dump(payload, open(path, "w"), indent=1)
    return path


def main():
    ap = argparse.ArgumentParser()
    ap.add_argument("prop")
    ap.add_argument("--tier", default=os.environ.get("VERIF_TIER", "quick"))
    ap.add_argument("--replay")
    ap.add_argument("--seed", type=int, default=int(os.environ.get("VERIF_SEED", "1")))
    ap.add_argument("--show", type=int, default=0, help="print the first N problem results (debugging)")
    ap.add_argument("--budget", type=float, default=1.0, help="multiplier of the scenario count")
    a = ap.parse_args()
    prop, tier, seed = a.prop, a.tier, a.seed
    t0 = time.time()
    os.makedirs(os.path.join(ROOT, ".work"), exist_ok=True)
    os.makedirs(os.path.join(ROOT, "evidence"), exist_ok=True)
    desc = props.PROPS[prop]

    # ---- proof half
    pinfo = proof_half(prop, tier)
    if "fatal" in pinfo:
        log(pinfo["fatal"])
        print("CHECK-BROKEN property=%s the Lean model or driver does not build" % prop)
        sys.exit(2)
    if pinfo["forbidden"]:
        log("forbidden constructs in the Lean sources:", pinfo["forbidden"])
        print("CHECK-BROKEN property=%s forbidden construct in proofs: %s" % (prop, pinfo["forbidden"][:3]))
        sys.exit(2)

    # ---- tie half
    exe, hsh, err = build_harness()
    if exe is None:
        log("the harness does not build against the current tree:\n" + err)
        # /repo no longer compiles with the harness: nothing can be observed
        print("CHECK-BROKEN property=%s harness build failed" % prop)
        sys.exit(2)

    ensure_fstree()
    rng = random.Random(seed * 1000003 + sum(map(ord, prop)))
    lines = []
    if a.replay:
        rp = json.load(open(a.replay))
        lines = rp.get("scenario_lines", [])
    else:
        cdir = os.path.join(ROOT, "corpus", prop)
        for f in sorted(glob.glob(os.path.join(cdir, "*.scn"))):
            lines += [l.strip().replace("@FSROOT@", gens.FSROOT.encode().hex()) for l in open(f) if l.startswith("SCN ")]
        ncorpus = len(lines)
        gen = getattr(gens, "gen_" + prop)
        count = int(desc["count"][tier] * a.budget)
        for i, g in enumerate(gen(rng, count, tier)):
            lang, toks = g
            lines.append("SCN %s %s g%d %s" % (prop, lang, i, toks))
    # unique ids
    seen = {}
    for i, l in enumerate(lines):
        t = l.split()
        if t[3] in seen:
            t[3] = t[3] + "_%d" % i
            lines[i] = " ".join(t)
        seen[t[3]] = 1
    byid = {l.split()[3]: l for l in lines}

    res_lines, crashes, raw = run_scenarios(exe, lines)
    results = [r for r in map(parse_res, res_lines) if r]
    if a.show:
        shown = 0
        for r in results:
            if (not r["eq"] or not r["hi"] or not r["hm"] or r["miss"]) and shown < a.show:
                shown += 1
                log("----", r["id"], "eq=%d hm=%d hi=%d miss=%d" % (r["eq"], r["hm"], r["hi"], r["miss"]))
                short = lambda x: re.sub(r"[0-9a-f]{64,}", lambda m: m.group(0)[:56] + "…", x or "")
                log("  scn :", short(byid.get(r["id"])))
                log("  model:", short(r["pm"]))
                log("  impl :", short(r["pi"]))
    known = [k for k in load_known() if k["property"] == prop and k.get("status") == "known"]

    broken = []        # framework problems (never a verdict about the property)
    failing = []       # holds(impl) = false
    diverging = []     # projections differ, holds(impl) = true
    known_hits = {}
    if len(results) != len(lines):
        broken.append("driver returned %d results for %d scenarios" % (len(results), len(lines)))
    for r in results:
        scn = byid.get(r["id"], "")
        ksig = None
        for k in known:
            if signatures.match(k["signature"], scn):
                ksig = k
                break
        if r["miss"] and not r["crash"]:
            broken.append("oracle miss / unparsable token in %s: %s" % (r["id"], r["extra"]))
            continue
        if r["crash"]:
            # the library aborted (sanitizer report, failed assertion) or hung on this scenario: the
            # oracle lines of that run are lost, so only the fact itself is used
            r["eq"] = False
            if prop == "C11":
                r["hi"] = False
        if not r["hm"] and not ksig:
            broken.append("holds(model)=false on %s outside every known signature (theorem and driver out of step)" % r["id"])
            continue
        if not r["hi"]:
            if ksig:
                known_hits.setdefault(ksig["id"], []).append(r["id"])
            else:
                failing.append(r)
        elif not r["eq"]:
            if ksig:
                # inside a known signature either the defective or the conforming behaviour is accepted
                continue
            diverging.append(r)

    und = pinfo["undischarged"]
    violations = []

    def minimal(r):
        scn = byid[r["id"]]
        def still(line):
            if " new" in scn and " new" not in line:
                return False                     # a connection that never starts is another scenario
            rl, _, _ = run_shard(exe, [line], 120)
            rr = [x for x in map(parse_res, rl) if x]
            # the shrunk scenario must stay inside the domain of the theorem: the model satisfies the predicate on it
            # (otherwise e.g. an application record without the call it records "fails" on the unchanged library too)
            return bool(rr) and (not rr[0]["hi"]) and not rr[0]["miss"] and bool(rr[0]["hm"])
        try:
            return shrink(exe, scn, still)
        except Exception:
            return scn

    if failing:
        # group by first differing shape: report the smallest
        failing.sort(key=lambda r: len(byid[r["id"]]))
        r = failing[0]
        m = minimal(r)
        path = write_replay(prop, "fail", {"property": prop, "kind": "failing-input", "seed": seed,
                                          "scenario_lines": [m], "original": byid[r["id"]],
                                          "model": r["pm"], "impl": r["pi"], "others": [byid[x["id"]] for x in failing[1:6]]})
        violations.append("VIOLATION property=%s replay=%s" % (prop, path))
    elif (diverging or und) and not a.replay:
        # directed search: more scenarios, looking for holds(impl)=false
        extra = []
        rng2 = random.Random(seed + 7919)
        gen = getattr(gens, "gen_" + prop)
        for i, g in enumerate(gen(rng2, int(desc["count"]["thorough"] * 0.5) + 200, "thorough")):
            extra.append("SCN %s %s s%d %s" % (prop, g[0], i, g[1]))
        for l in extra:
            byid[l.split()[3]] = l
        rl, cr2, _ = run_scenarios(exe, extra)
        found = [x for x in map(parse_res, rl) if x and not x["hi"] and not x["miss"]
                 and not any(signatures.match(k["signature"], byid[x["id"]]) for k in known)]
        if found:
            found.sort(key=lambda r: len(byid[r["id"]]))
            r = found[0]
            m = minimal(r)
            path = write_replay(prop, "fail", {"property": prop, "kind": "failing-input", "seed": seed,
                                              "scenario_lines": [m], "original": byid[r["id"]],
                                              "model": r["pm"], "impl": r["pi"]})
            violations.append("VIOLATION property=%s replay=%s" % (prop, path))
        else:
            what = {"property": prop, "kind": "no-failing-input-found", "seed": seed,
                    "undischarged_theorems": und,
                    "failed_modules": [(m, o[-1500:]) for m, o in pinfo.get("failed_modules", [])],
                    "correspondence_mismatches": [{"scenario": byid[r["id"]], "model": r["pm"], "impl": r["pi"]} for r in diverging[:5]],
                    "scenario_lines": [byid[r["id"]] for r in diverging[:5]],
                    "searched": len(extra)}
            path = write_replay(prop, "unshown", what)
            violations.append("VIOLATION property=%s replay=%s no-failing-input-found" % (prop, path))
    elif diverging and a.replay:
        path = write_replay(prop, "unshown", {"property": prop, "kind": "no-failing-input-found",
                                             "scenario_lines": [byid[r["id"]] for r in diverging[:5]]})
        violations.append("VIOLATION property=%s replay=%s no-failing-input-found" % (prop, path))

    # ---- evidence
    distinct = len({" ".join(l.split()[4:]) for l in lines})
    nontriv = sum(1 for l in set(" ".join(x.split()[4:]) for x in lines) if gens.nontrivial(prop, l))
    samples = [{"scenario": lines[i], "result": res_lines[i] if i < len(res_lines) else ""}
               for i in range(0, min(len(lines), 3))]
    ev = {
        "property_id": prop, "tier": tier if tier in ("quick", "thorough") else "quick", "seed": seed,
        "level": "proof",
        "coverage": {
            "obligations": len(pinfo["obligations"]), "discharged": len(pinfo["discharged"]),
            "theorems": pinfo["obligations"], "undischarged": und,
            "checker_cmd": "cd lean && lake build Qhttp && lake env lean <audit: #print axioms on every theorem>"
                           + (" && lake env leanchecker <modules>" if tier == "thorough" else ""),
            "axioms_reported": pinfo["axioms"],
            "trusted_base": props.TRUSTED_COMMON + desc.get("trusted", []),
            "translator": pinfo["translator"],
            "bridge_modules_skipped_untranslatable": pinfo.get("bridges_skipped", {}),
            "bridge_modules_not_reproved": sorted(pinfo.get("bridges_not_reproved", {})),
            "generated_modules_not_compiling": sorted(pinfo.get("generated_modules_not_compiling", {})),
            "evaluations": len(lines), "distinct_nontrivial": nontriv, "distinct": distinct,
            "rule": desc["rule"],
            "traces_validated_against_impl": sum(1 for r in results if r["eq"]),
            "samples": samples,
            "histogram": gens.histogram(prop, lines),
            "harness_source_sha": hsh,
            "sanitizer_aborts": len(crashes),
            "known_findings_reported": sorted(known_hits),
            "diverging": len(diverging), "failing": len(failing),
        },
        "assumptions": desc.get("assumptions", []),
        "wall_s": round(time.time() - t0, 2),
        "violations": len(violations),
    }
    if not a.replay:
        json.dump(ev, open(os.path.join(ROOT, "evidence", prop + ".json"), "w"), indent=1)

    for k in known:
        if k["id"] in known_hits:
            print("KNOWN-FINDING: property=%s %s" % (prop, k["what"]))
    if broken:
        for b in broken[:10]:
            log("BROKEN:", b)
        print("CHECK-BROKEN property=%s %s" % (prop, broken[0]))
        sys.exit(2)
    if violations:
        for v in violations:
            print(v)
        sys.exit(1)
    nb = len(props.BRIDGES.get(prop, []))
    nskip = len(pinfo.get("bridges_skipped", {})) + len(pinfo.get("bridges_not_reproved", {}))
    print("OK property=%s tier=%s theorems=%d/%d scenarios=%d agree=%d wall=%.1fs%s" % (
        prop, tier, len(pinfo["discharged"]), len(pinfo["obligations"]), len(lines),
        sum(1 for r in results if r["eq"]), time.time() - t0,
        (" bridges=%d/%d" % (nb - nskip, nb)) if nb else ""))
    if nskip:
        # not an alarm: these functions of /repo are outside what the translator (or a shape-bound proof) covers on this
        # tree, so their tie to the model is the scenario comparison alone on this run
        print("NOTE property=%s translated-code obligations not available on this tree (tie by correspondence only): %s" % (
            prop, ", ".join(sorted(list(pinfo.get("bridges_skipped", {})) + list(pinfo.get("bridges_not_reproved", {})))))) 
    sys.exit(0)


if __name__ == "__main__":
    main()
