"""Signatures of known findings: predicates on the *scenario line* (never on the property)."""

def unhx(s):
    return b"" if s in ("-", "~") else bytes.fromhex(s)

def tokens(line):
    return line.split()[4:]

def fed(line):
    return b"".join(unhx(t.split(":")[1]) for t in tokens(line) if t.startswith("feed:") or t.startswith("prebuf:"))

SIGS = {}
def sig(name):
    def d(f):
        SIGS[name] = f
        return f
    return d

def match(name, line):
    f = SIGS.get(name)
    try:
        return bool(f and line and f(line))
    except Exception:
        return False
