"""Signatures of known findings: predicates on the *scenario line* (never on the property)."""

def unhx(s):
    return b"" if s in ("-", "~") else bytes.fromhex(s)

def tokens(line):
    return line.split()[4:]

def fed(line):
    return b"".join(unhx(t.split(":")[1]) for t in tokens(line) if t.startswith("feed:") or t.startswith("prebuf:"))

SIGS = {}
def sig(name):
    def d(f):
        SIGS[name] = f
        return f
    return d

def match(name, line):
    f = SIGS.get(name)
    try:
        return bool(f and line and f(line))
    except Exception:
        return False


@sig("C12-empty-header-name")
def _c12_empty_name(line):
    """proxy language: some header line of the client's request head has an empty (or blank) name"""
    head = fed(line).split(b"\r\n\r\n")[0]
    for l in head.split(b"\r\n")[1:]:
        if b":" in l and l.split(b":", 1)[0].strip(b" \t\r\n\x0b\x0c") == b"":
            return True
    return False


@sig("C13-upstream-empty-header-name")
def _c13_empty_name(line):
    """proxy language: some header line of the scripted upstream response has an empty (or blank) name"""
    up = b"".join(unhx(t.split(":")[1]) for t in tokens(line) if t.startswith("up:"))
    head = up.split(b"\r\n\r\n")[0]
    for l in head.split(b"\r\n")[1:]:
        if b":" in l and l.split(b":", 1)[0].strip(b" \t\r\n\x0b\x0c") == b"":
            return True
    return False
