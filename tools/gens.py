"""Scenario generators (structure-aware, boundary-biased), one per property.
Every random choice comes from the `rng` handed in by check.py (seeded from VERIF_SEED).
Each generator yields (language, token string)."""
import re

def hx(b):
    return b.hex() if b else "-"

METHODS = [b"OPTIONS", b"GET", b"HEAD", b"POST", b"PUT", b"DELETE", b"TRACE", b"CONNECT"]
NEAR_METHODS = [b"get", b"Get", b"GE", b"GETX", b"", b"PATCH", b"POST ", b"\tGET", b"OPTION", b"CONNECTS",
                b"GET\x00", b"GET\x00POST", b"POST\x00\x00", b"\x00GET", b"PU\x00T", b"HEAD\x00x", b"DELETE\x00"]
VERSIONS = [b"HTTP/1.0", b"HTTP/1.1"]
NEAR_VERSIONS = [b"HTTP/1.2", b"HTTP/0.9", b"HTTP/2.0", b"http/1.1", b"HTTP/1.1 ", b"HTTP/1.", b"", b"HTTP/1.10", b"HTTP/1.1\r",
                 b"HTTP/1.1\x00", b"HTTP/1.0\x00x", b"HTTP/1.\x001"]
SEGS = [b"a", b"index.html", b"%20", b"%41", b"%2e%2e", b"%2F", b"%25", b"x y".replace(b" ", b"%20"), b"\xc3\xa9", b"%C3%A9",
        b"..", b".", b"", b"~user", b"a-b_c.d", b"%7e", b"%0d%0a", b"+", b"a;b", b"a=b", b"@", b":"]
BAD_TARGETS = [b"http://[::1", b"/%zz", b"//[", b"/a b", b"\x00", b"/\xff\xfe", b"http://a:b/", b"/%", b"/%4", b"[", b"/a\x7f", b" "]
NAMES = [b"Host", b"host", b"HOST", b"Content-Length", b"content-length", b"X-A", b"x-a", b"X-B", b"Accept", b"X-\xc9", b"x-\xe9",
         b"Authorization", b"Range", b"", b"A B", b"X-Id\x00a", b"X-Id\x00b", b"x-id\x00A", b"X-Id", b"Content-Length\x00x"]
# names a header line may carry: a blank name (NAMES has b"") makes the line malformed (the parser refuses it)
NAMES_NB = [n for n in NAMES if n.strip()]
# header lines with nothing but white space before the first colon: not of the form `name: value`
BLANK_NAME_LINES = [b": v", b":", b" : v", b" \t:v", b"::", b"\r: v", b": a: b"]
VALUES = [b"1", b"abc", b"", b"a, b", b"a:b", b" padded ", b"\tx\t", b"x" * 30, b"\xff\x00z", b"a\rb", b"a\nb", b"0", b"17"]


# request headers that mean something to HTTP servers in general (this library gives them no meaning)
SPECIAL_LINES = [b"Expect: 100-continue", b"expect: 100-Continue", b"Connection: close", b"Connection: keep-alive",
                 b"Transfer-Encoding: chunked", b"Upgrade: h2c", b"Connection: Upgrade", b"TE: trailers", b"Expect: 100-continue"]


def pick(rng, l):
    return l[rng.randrange(len(l))]


def target(rng, valid=True):
    if not valid:
        return pick(rng, BAD_TARGETS)
    n = rng.randrange(0, 4)
    p = b"/" + b"/".join(pick(rng, SEGS) for _ in range(n))
    if rng.random() < 0.4:
        qs = []
        for _ in range(rng.randrange(1, 4)):
            k = pick(rng, [b"a", b"b", b"k1", b"", b"x%20y", b"a"])
            v = pick(rng, [b"1", b"", b"v%3Dw", b"2", b"zz"])
            qs.append(k + (b"=" + v if rng.random() < 0.85 else b""))
        p += b"?" + b"&".join(qs)
    return p


def header_lines(rng, cl=None, malformed=False, nmax=5, names=NAMES):
    ls = []
    for _ in range(rng.randrange(0, nmax + 1)):
        n = pick(rng, names)
        v = pick(rng, VALUES)
        if n.lower() == b"content-length":
            continue
        pad1 = pick(rng, [b"", b"", b" ", b"  ", b"\t"])
        pad2 = pick(rng, [b"", b" ", b" ", b"  "])
        ls.append(pad1 + n + pad1 + b":" + pad2 + v + pick(rng, [b"", b"", b" "]))
    if rng.random() < 0.15:
        ls.insert(rng.randrange(len(ls) + 1), pick(rng, SPECIAL_LINES))
    if cl is not None:
        name = pick(rng, [b"Content-Length", b"content-length", b"CONTENT-LENGTH", b"Content-length"])
        ls.insert(rng.randrange(len(ls) + 1), name + b":" + pick(rng, [b" ", b"", b"  "]) + cl)
    if malformed:
        bad = pick(rng, [b"NoColonHere", b" ", b"novalue", b"\x00", b"a b c"] + BLANK_NAME_LINES[:4])
        ls.insert(rng.randrange(len(ls) + 1), bad)
    return ls


def valid_head(rng, cl=None, plain=False):
    m = pick(rng, METHODS)
    t = b"/x" if plain else target(rng)
    v = pick(rng, VERSIONS)
    ls = [] if plain else header_lines(rng, cl=None, names=NAMES_NB)
    if cl is not None:
        name = pick(rng, [b"Content-Length", b"content-length", b"CONTENT-LENGTH"])
        ls.insert(rng.randrange(len(ls) + 1), name + b": " + cl)
    # header values with embedded lone CR/LF are fine for the parser; CRLF would split the line
    return m + b" " + t + b" " + v + b"".join(b"\r\n" + l for l in ls)


def special_request(rng):
    """a request whose headers mean something to HTTP servers in general (Expect, Connection, Upgrade,
    Transfer-Encoding) with a declared body that is withheld, partly sent or complete; returns the bytes"""
    n = pick(rng, [0, 1, 5, 30])
    lines = [pick(rng, SPECIAL_LINES)]
    if rng.random() < 0.3:
        lines.append(pick(rng, SPECIAL_LINES))
    if n or rng.random() < 0.5:
        lines.insert(rng.randrange(len(lines) + 1), pick(rng, [b"Content-Length", b"content-length"]) + b": " + str(n).encode())
    head = pick(rng, [b"POST", b"PUT", b"GET"]) + b" /x " + pick(rng, VERSIONS) + b"".join(b"\r\n" + l for l in lines)
    body = b"b" * pick(rng, [0, 0, n // 2, n])
    return head + b"\r\n\r\n" + body


def bad_head(rng):
    k = rng.randrange(9)
    m, t, v = pick(rng, METHODS), target(rng), pick(rng, VERSIONS)
    ls = header_lines(rng)
    if k == 0:
        m = pick(rng, NEAR_METHODS)
    elif k == 1:
        v = pick(rng, NEAR_VERSIONS)
    elif k == 2:
        t = target(rng, valid=False)
    elif k == 3:
        ls = header_lines(rng, malformed=True)
    elif k == 4:
        return m + b" " + t                                     # two parts only
    elif k == 5:
        return m + b"  " + t + b" " + v                         # empty target, shifted parts
    elif k == 6:
        return bytes(rng.randrange(256) for _ in range(rng.randrange(0, 30))).replace(b"\r\n\r\n", b"\r\n")
    elif k == 7:
        return b""
    else:
        return m + b" " + t + b" " + v + b" extra" + b"".join(b"\r\n" + l for l in ls)
    return m + b" " + t + b" " + v + b"".join(b"\r\n" + l for l in ls)


def cuts(rng, stream, marks=()):
    """a segmentation of `stream`; `marks` are offsets around which cuts are biased"""
    n = len(stream)
    mode = rng.randrange(6)
    if n == 0:
        return [stream]
    if mode == 0:
        pts = []
    elif mode == 1 and n <= 120:
        pts = list(range(1, n))                                  # byte by byte
    elif mode in (2, 3) and marks:
        pts = set()
        for _ in range(rng.randrange(1, 4)):
            mk = pick(rng, list(marks))
            pts.add(min(n - 1, max(1, mk + rng.randrange(-4, 5))))
        pts = sorted(pts)
    else:
        pts = sorted({rng.randrange(1, n) for _ in range(rng.randrange(1, 5))}) if n > 1 else []
    out, prev = [], 0
    for p in pts:
        if 0 < p < n and p > prev:
            out.append(stream[prev:p])
            prev = p
    out.append(stream[prev:])
    return out


def feeds(segs):
    return " ".join("feed:" + hx(s) for s in segs)


# ------------------------------------------------------------------------------------ C01

def gen_C01(rng, count, tier):
    for g in gen_qt(rng, 40 if tier == "quick" else 400):
        yield g
    for i in range(count):
        r = rng.random()
        if r < 0.55:
            cl = pick(rng, [None, None, b"0", b"5", b" 12 ", b"+3", b"-1", b"abc", b"9223372036854775807", b"9223372036854775808", b"1 2", b""])
            if rng.random() < 0.5:
                head = valid_head(rng, cl)
            else:
                head = pick(rng, METHODS) + b" " + target(rng) + b" " + pick(rng, VERSIONS) + b"".join(b"\r\n" + l for l in header_lines(rng, cl=cl))
        elif r < 0.9:
            head = bad_head(rng)
        else:
            # exhaustive-style small request lines over a tiny alphabet
            alpha = [b"G", b"E", b"T", b" ", b"/", b"H", b"T", b"P", b"1", b".", b"\r", b"\n", b":"]
            head = b"".join(pick(rng, alpha) for _ in range(rng.randrange(0, 14)))
            if rng.random() < 0.5:
                head = b"GET / HTTP/1.1\r\n" + head
        head = head.replace(b"\r\n\r\n", b"\r\n")
        stream = head + b"\r\n\r\n" + pick(rng, [b"", b"", b"body", b"\r\n"])
        segs = cuts(rng, stream, marks=(len(head), len(head) + 2, len(head) + 4))
        yield ("sock", "@hp snap @end new " + feeds(segs))


# ------------------------------------------------------------------------------------ C02

def reader(rng):
    k = rng.randrange(7)
    if k == 0:
        return "@rr avail readall @end"
    if k == 1:
        return "@rcf avail readall @end"
    if k == 2:
        return "@rr read:%d @end" % pick(rng, [1, 2, 3, 7, 16384, 20000])
    if k == 3:
        return "@hp read:%d @end @rr readall @end" % pick(rng, [1, 2, 5, 100, 16384])
    if k == 4:
        return "@hp readall @end @rr read:1 read:1 @end @rcf readall @end"
    if k == 5:
        return ""                                           # lazy: only the final readall
    return "@rr avail readall @end @rcf avail readall @end"


def gen_C02(rng, count, tier):
    big = [16383, 16384, 16385, 32768, 40000] if tier == "thorough" else [16384, 16390]
    for i in range(count):
        if rng.random() < 0.04:
            # a body larger than one QIODevice chunk (16 KiB), partly consumed by small reads while more of
            # it - and bytes beyond the declared length - are still to come (offsets into a partly read buffer)
            n = rng.randrange(16500, 42000)
            body = bytes((j * 11 + i) % 253 for j in range(n))
            m = rng.randrange(16385, n)
            head = valid_head(rng, cl=str(n).encode(), plain=True)
            rd = pick(rng, ["@rr read:%d @end" % pick(rng, [1, 100, 5000, 16384, 16385]), "@hp read:%d @end" % pick(rng, [1, 100, 20000]),
                            "@rr read:7 avail @end @rcf avail readall @end"])
            evs = ["feed:" + hx(head + b"\r\n\r\n" + body[:m])]
            if rng.random() < 0.4:
                evs.append(pick(rng, ["read:1", "read:100", "avail", "read:16384"]))
            m2 = rng.randrange(m, n + 1)
            if m2 > m and rng.random() < 0.5:
                evs.append("feed:" + hx(body[m:m2]))
                m = m2
            evs.append("feed:" + hx(body[m:] + pick(rng, [b"EXTRA", b"", b"Z", b"GET /2 HTTP/1.1\r\n\r\n"])))
            evs.append(pick(rng, ["readall", "read:50 avail readall", "avail readall"]))
            yield ("sock", " ".join([rd, "new"] + evs))
            continue
        if rng.random() < 0.04:
            # a declared length around and beyond the width of an int; only the beginning of the body is sent
            n = pick(rng, [2147483647, 2147483648, 3221225472, 4294967295, 4294967296, 4294967301, 1 << 40])
            sent = bytes((j * 13 + i) % 249 for j in range(pick(rng, [1, 5, 6, 700, 6000])))
            head = valid_head(rng, cl=str(n).encode(), plain=True)
            stream = head + b"\r\n\r\n" + sent
            h = len(head)
            evs = ["feed:" + hx(x) for x in cuts(rng, stream, marks=(h, h + 2, h + 4, h + 9))]
            yield ("sock", " ".join(x for x in [reader(rng), "new"] + evs + [pick(rng, ["readall", "avail readall", "read:3 readall"])] if x))
            continue
        n = pick(rng, [0, 1, 2, 3, 4, 5, 8, 13, 40]) if rng.random() < 0.93 else pick(rng, big)
        body = bytes(rng.randrange(256) for _ in range(n)) if n < 100 else bytes((j * 7 + i) % 251 for j in range(n))
        if n >= 4 and rng.random() < 0.3:
            k = rng.randrange(0, n - 3)
            body = body[:k] + b"\r\n\r\n" + body[k + 4:]
        trailing = pick(rng, [b"", b"", b"", b"Z", b"GET /2 HTTP/1.1\r\n\r\n", b"\r\n"])
        short = rng.random() < 0.1 and n > 0
        sent = body[:rng.randrange(0, n)] if short else body + trailing
        head = valid_head(rng, cl=str(n).encode(), plain=rng.random() < 0.5)
        stream = head + b"\r\n\r\n" + sent
        h = len(head)
        segs = cuts(rng, stream, marks=(h, h + 2, h + 4, h + 4 + n, h + 4 + n // 2))
        evs = ["feed:" + hx(s) for s in segs]
        # idle-context reads between segments, one or two turns later
        if rng.random() < 0.3:
            pos = rng.randrange(len(evs) + 1)
            evs.insert(pos, pick(rng, ["readall", "read:1", "read:3", "turn", "avail readall"]))
        fin = "readall" if rng.random() < 0.85 else "turn"
        # the client leaves (or half-closes) before, at or after the end of the declared body: no end-of-body
        # notification for a body that did not arrive in full
        if (short and rng.random() < 0.7) or rng.random() < 0.06:
            evs.append(pick(rng, ["peerclose", "peerclose turn", "peerclose avail readall"]))
        yield ("sock", " ".join(x for x in [reader(rng), "new"] + evs + [fin] if x))


# ------------------------------------------------------------------------------------ C03

HN = [b"A", b"a", b"B", b"X-Long-Name", b"x-long-name", b"Set-Cookie", b"Content-Type", b"content-length", b"Location", b"C"]
HV = [b"1", b"2", b"v", b"a, b", b"", b"x=y; z", b"text/plain", b"0", b"w" * 20, b"\xc3\xa9"]
REASONS = ["~", "~", hx(b"FINE"), "-", hx(b"two words"), hx(b"caf\xc3\xa9")]
CODES = [200, 201, 204, 206, 301, 302, 400, 404, 500, 502, 299, 600, 0, 99999]


def api_history(rng, allow_multi=True):
    ops = []
    multi = set()
    for _ in range(rng.randrange(0, 7)):
        k = rng.randrange(10)
        if k < 2:
            ops.append("status:%d:%s" % (pick(rng, CODES), pick(rng, REASONS)))
        elif k < 8:
            n = pick(rng, HN)
            ops.append("hdr:%s:%s:%s" % (hx(n), hx(pick(rng, HV)), pick(rng, ["r", "a", "a"])))
        elif allow_multi:
            m = []
            for _ in range(rng.randrange(0, 5)):
                m.append((pick(rng, HN), pick(rng, HV)))
            ops.append("hdrs:" + (",".join(hx(k2) + "=" + hx(v) for k2, v in m) if m else "-"))
            low = [k2.lower() for k2, _ in m]
            multi = {k2 for k2 in low if low.count(k2) > 1}
    return ops


def body_chunk(rng):
    n = pick(rng, [0, 1, 2, 5, 17, 64]) if rng.random() < 0.95 else pick(rng, [70000, 16384])
    return bytes((rng.randrange(256) if n < 100 else (j % 253)) for j in range(n))


def gen_C03(rng, count, tier):
    # over real sockets: a response larger than every buffer, read by a client that pauses for eleven (virtual) seconds
    yield ("tls", "plain slowread")
    for i in range(count):
        ops = api_history(rng)
        k = rng.randrange(10)
        tail = []
        if k < 5:
            if rng.random() < 0.5:
                tail.append("wh")
            for _ in range(rng.randrange(0, 4)):
                tail.append("write:" + hx(body_chunk(rng)))
                if rng.random() < 0.3:
                    tail.append(pick(rng, ["ack:1", "ack:10", "ackall", "ack:1000"]))
            if rng.random() < 0.7:
                tail.append("close")
        elif k < 7:
            tail.append("err:%d:%s" % (pick(rng, CODES), pick(rng, REASONS)))
        elif k < 8:
            tail.append("redir:%s:%d" % (hx(pick(rng, [b"/new", b"/a b", b"http://h/x?y=1", b"/\xc3\xa9"])), rng.randrange(2)))
        elif k < 9:
            doc = pick(rng, [b"{}", b'{"a":1}', b'[1,2,3]', b'{"k":"v","n":[true,null]}'])
            tail.append("json:%s:%d" % (hx(doc), pick(rng, [200, 201, 400])))
        else:
            tail.append("close")
        post = []
        for _ in range(rng.randrange(0, 3)):
            post.append(pick(rng, ["ackall", "write:" + hx(b"late"), "wh", "close", "turn", "err:500:~", "ack:3"]))
        pre = []
        if rng.random() < 0.25:
            # the response answers a request (whose headers the library gives no meaning to)
            pre = [feeds([special_request(rng) if rng.random() < 0.6 else valid_head(rng, plain=True) + b"\r\n\r\n"])] + (["turn"] if rng.random() < 0.5 else [])
        yield ("sock", " ".join(["new"] + pre + ops + tail + post))


# ------------------------------------------------------------------------------------ C04

def gen_C04(rng, count, tier):
    # through the Server's glue, with a handler and a middleware that record being asked: a malformed head that is
    # already buffered when the server takes the connection (and one that arrives afterwards)
    for bad in (b"", b"/a b", b"/%zz", b"http://[::1", b"/\x00x"):
        for pre in (["prebuf"], []):
            yield ("route", " ".join(["node:0:-1:0:1", "mw:0:0:1", "req:" + hx(bad)] + pre))
    for i in range(count):
        head = bad_head(rng).replace(b"\r\n\r\n", b"\r\n")
        trailing = pick(rng, [b"", b"", b"garbage", b"GET / HTTP/1.1\r\n\r\n", b"\r\n\r\n"])
        stream = head + b"\r\n\r\n" + trailing
        h = len(head)
        segs = cuts(rng, stream, marks=(h, h + 2, h + 4))
        k = pick(rng, [0, 0, 0, 1, len(segs)])                  # leading segments already buffered
        k = min(k, len(segs))
        pre = ["prebuf:" + hx(s) for s in segs[:k]]
        rest = ["feed:" + hx(s) for s in segs[k:]]
        react = pick(rng, ["", "@hp snap @end", "@hp err:404:~ @end"])
        late = []
        for _ in range(rng.randrange(0, 3)):
            late.append(pick(rng, ["turn", "ackall", "feed:" + hx(b"GET / HTTP/1.1\r\n\r\n"), "peerclose", "ack:7"]))
        yield ("sock", " ".join(x for x in [react] + pre + ["new"] + (["turn"] if k else []) + rest + late if x))


# ------------------------------------------------------------------------------------ C18

def compositions(total):
    """all compositions of `total` into positive parts"""
    if total == 0:
        yield []
        return
    for first in range(1, total + 1):
        for rest in compositions(total - first):
            yield [first] + rest


def gen_C18(rng, count, tier):
    # over real sockets: the application writes the next piece from inside bytesWritten(); every body byte is announced
    yield ("tls", "plain chain")
    # ... and with more than 2^31 body bytes in all (about ten seconds under the sanitizers)
    yield ("tls", "plain chainbig")
    n = 0
    # exhaustive part: tiny header block (status line only, 19 bytes) is impossible to shrink below,
    # so enumerate acknowledgement patterns around the header/body edge for a fixed small response
    base = ["new", "status:200:" + hx(b"K")]                   # "HTTP/1.0 200 K\r\n\r\n" = 18 bytes
    H = 18
    for bodylen in (0, 1, 3):
        for comp in compositions(4 + bodylen):
            # first acknowledge H-4 bytes in one piece, then the composition covers the edge
            toks = base + ["write:" + hx(b"xyz"[:bodylen])] + ["ack:%d" % (H - 4)] + ["ack:%d" % c for c in comp] + ["ackall"]
            if n < count:
                n += 1
                yield ("sock", " ".join(toks))
    while n < count:
        n += 1
        ops = api_history(rng, allow_multi=False)
        evs = ["new"]
        if rng.random() < 0.4:
            # the response answers a request that was received first
            evs += [feeds([special_request(rng) if rng.random() < 0.4 else valid_head(rng, plain=True) + b"\r\n\r\n"]), "turn"]
        evs += ops
        if rng.random() < 0.5:
            evs.append("wh")
        for _ in range(rng.randrange(1, 5)):
            evs.append("write:" + hx(body_chunk(rng)))
            for _ in range(rng.randrange(0, 4)):
                evs.append(pick(rng, ["ack:1", "ack:2", "ack:17", "ack:18", "ack:19", "ack:40", "ack:100000", "ackall"]))
        if rng.random() < 0.15:
            evs.append("close")
        evs.append("ackall")
        yield ("sock", " ".join(evs))


# ------------------------------------------------------------------------------------ C19

def gen_C19(rng, count, tier):
    # over an established TLS connection: everything written before close() arrives, whatever its size
    yield ("tls", "tls bigbody")
    for i in range(count):
        reqs = []
        for _ in range(rng.randrange(1, 4)):
            r = rng.random()
            if r < 0.7:
                n = pick(rng, [0, 0, 3])
                clv = str(n).encode() if n or rng.random() < 0.3 else None
                if rng.random() < 0.15:
                    clv = pick(rng, [b"12abc", b"-1", b"", b"abc", b" 3", b"3 ", b"+3", b"0x3"])     # unusual declared lengths
                reqs.append(valid_head(rng, cl=clv, plain=True) + b"\r\n\r\n" + b"b" * n)
            elif r < 0.9:
                reqs.append(bad_head(rng).replace(b"\r\n\r\n", b"\r\n") + b"\r\n\r\n")
            else:
                reqs.append(b"\x00\xffjunk")
        stream = b"".join(reqs)
        marks = []
        o = 0
        for r in reqs:
            o += len(r)
            marks.append(o)
        segs = cuts(rng, stream, marks=tuple(marks))
        behaviour = pick(rng, ["@hp write:%s close @end" % hx(b"hello"), "@hp err:404:~ @end", "@hp wh @end @rcf write:%s close @end" % hx(b"ok"),
                               "", "@hp write:%s @end" % hx(b"partial"), "@hp redir:%s:0 @end" % hx(b"/n"),
                               # API calls issued after the close, inside the same notification
                               "@hp err:403:~ wh write:%s close @end" % hx(b"more"),
                               "@hp write:%s close write:%s wh err:500:~ close @end" % (hx(b"hello"), hx(b"more")),
                               "@hp redir:%s:1 redir:%s:0 json:%s:200 @end" % (hx(b"/n"), hx(b"/m"), hx(b"{}")),
                               "@hp close wh write:%s @end" % hx(b"x")])
        if rng.random() < 0.12:
            # respond with a declared length, exactly that much data, and close only after the transport has
            # taken everything (the request body, if declared, is complete by then)
            body = pick(rng, [b"hello", b"", b"x" * 40])
            behaviour = "@%s hdr:%s:%s:r write:%s @end" % (pick(rng, ["hp", "hp", "rcf"]), hx(b"Content-Length"), hx(str(len(body)).encode()), hx(body))
            if not body:
                behaviour = behaviour.replace("write:-", "wh")
            evs = ["feed:" + hx(s) for s in segs] + [pick(rng, ["ackall", "ack:100000", "ackall turn"]), "close"]
            for _ in range(rng.randrange(0, 3)):
                evs.append(pick(rng, ["turn", "ackall", "write:" + hx(b"after"), "close"]))
            evs.append("ackall")
            line = " ".join([behaviour, "new"] + evs)
            line = " ".join(t + " mark" if t == "close" else t for t in line.split())
            yield ("sock", line)
            continue
        evs = ["feed:" + hx(s) for s in segs]
        if behaviour == "" or rng.random() < 0.3:
            evs.insert(rng.randrange(len(evs) + 1), pick(rng, ["write:%s close" % hx(b"idle"), "close", "err:500:~"]))
        for _ in range(rng.randrange(0, 4)):
            evs.append(pick(rng, ["write:" + hx(b"after"), "wh", "err:500:~", "close", "ack:5", "feed:" + hx(b"GET /late HTTP/1.1\r\n\r\n"), "peerclose", "turn"]))
        evs.append("ackall")
        line = " ".join(x for x in [behaviour, "new"] + evs if x)
        # the application records each point at which it has closed the socket (observed on both sides)
        line = " ".join(t + " mark" if t == "close" or t.split(":")[0] in ("err", "redir", "json") else t for t in line.split())
        yield ("sock", line)


# ------------------------------------------------------------------------------------ accounting

def nontrivial(prop, toks):
    """a scenario is non-trivial when it drives the library beyond construction: it contains at
    least one delivered segment or API call besides `new`"""
    t = [x for x in toks.split() if not x.startswith("@")]
    return len([x for x in t if x != "new"]) >= 1


def histogram(prop, lines):
    h = {}
    for l in lines:
        toks = l.split()[4:]
        nseg = sum(1 for t in toks if t.startswith("feed:"))
        h.setdefault("segments", {}).setdefault(str(min(nseg, 8)), 0)
        h["segments"][str(min(nseg, 8))] += 1
        for t in toks:
            op = t.split(":")[0]
            h.setdefault("ops", {}).setdefault(op, 0)
            h["ops"][op] += 1
    return h


# ------------------------------------------------------------------------------------ C16

def gen_C16(rng, count, tier):
    n = 0
    K = 6 if tier == "quick" else 12
    vals = list(range(-K, K + 1))
    # exhaustive small cube, packed many builds per scenario
    batch = []
    for f in vals:
        for t in vals:
            for s in vals:
                batch.append("n:%d:%d:%d" % (f, t, s))
                if len(batch) == 60:
                    yield ("range", " ".join(batch)); batch = []; n += 1
    if batch:
        yield ("range", " ".join(batch)); n += 1
    # copy-with-new-size over a small cube (the copy constructor keeps the raw bounds)
    batch = []
    for f in range(-3, 7):
        for t in range(-3, 7):
            for s2 in range(-2, 7):
                batch.append("c:%d:%d:%d:%d" % (f, t, pick(rng, [-1, 5, 100]), s2))
                if len(batch) == 60:
                    yield ("range", " ".join(batch)); batch = []; n += 1
    if batch:
        yield ("range", " ".join(batch)); n += 1
    # all strings over a small alphabet up to length 5 (quick) / 6
    alpha = [b"0", b"7", b"-", b" ", b"x", b"1"]
    L = 5 if tier == "quick" else 6
    import itertools
    batch = []
    for ln in range(0, L + 1):
        for tup in itertools.product(alpha, repeat=ln):
            x = b"".join(tup)
            for size in (-1, 0, 1, 8, 100):
                batch.append("s:%s:%d" % (hx(x), size))
                if len(batch) == 60:
                    yield ("range", " ".join(batch)); batch = []; n += 1
    if batch:
        yield ("range", " ".join(batch)); n += 1
    big = [0, 1, -1, 2, 2**31 - 2, 2**31 - 1, 2**31, 2**31 + 1, 2**32, 2**62 - 1, -(2**62) + 1, 2**61, 10**9, 500, 499, 1000]
    # boundary-biased part: always run (the exhaustive part above may already exceed `count`)
    n = min(n, count - max(150, count // 2))
    while n < count:
        n += 1
        toks = []
        for _ in range(20):
            k = rng.randrange(6)
            f, t, s, s2 = (pick(rng, big + vals) * pick(rng, [1, 1, -1]) for _ in range(4))
            if k == 5 and rng.random() < 0.3:
                # copy-with-new-size of a range that was asked about first
                toks.append("qc:%d:%d:%d:%d" % (f, t, s, s2))
            elif k == 5 and rng.random() < 0.2:
                # digits of other scripts (QChar::isDigit() is true of them, toInt() is not): not a byte range
                dig = pick(rng, ["\u0661", "\u0663", "\u06f2", "\u0967", "\uff11", "1\u0662"])
                txt = pick(rng, [dig + "-" + dig, dig + "-", "-" + dig, "1-" + dig, dig + "-5"])
                toks.append("s:%s:%d" % (hx(txt.encode("utf-8")), pick(rng, [-1, 10, 1000])))
            elif k == 5:
                # the object held another range, and was asked about it, before it was assigned this one
                f0, t0, s0 = pick(rng, [(0, 99, 100), (100, 10, 50), (0, -1, -1), (5, 5, 3), (-3, -1, 10), (0, 0, 0)])
                if rng.random() < 0.6:
                    toks.append("q:%d:%d:%d:%d:%d:%d" % (f0, t0, s0, f, t, s))
                else:
                    toks.append("qs:%d:%d:%d:%s:%d" % (f0, t0, s0, hx(pick(rng, [b"0-99", b"5-", b"-5", b"9-2", b"x", b""])), pick(rng, [-1, 0, 10, 100])))
            elif k == 0:
                toks.append("n:%d:%d:%d" % (f, t, s))
            elif k == 1:
                toks.append("a:%d:%d:%d" % (f, t, s))
            elif k == 2:
                toks.append("c:%d:%d:%d:%d" % (f, t, s, s2))
            else:
                a = pick(rng, [b"", b"0", b"10", b"00012", b"2147483647", b"2147483648", b"99999999999", b"9223372036854775808", b"5", b"500", b"1x", b"+1", b"-"])
                c = pick(rng, [b"", b"0", b"10", b"600", b"2147483647", b"2147483648", b"99999999999999999999", b"7", b"-3", b" 4"])
                pad1, pad2 = pick(rng, [b"", b"", b" ", b"\t", b"\n "]), pick(rng, [b"", b"", b" ", b"\r\n"])
                sep = pick(rng, [b"-", b"-", b"-", b"--", b" - ", b"", b","])
                toks.append("s:%s:%d" % (hx(pad1 + a + sep + c + pad2), pick(rng, [-1, 0, 1, 10, 500, 1000, 2**31, 2**40, -5])))
        yield ("range", " ".join(toks))


# ------------------------------------------------------------------------------------ C05 / C06

def hx16(s):
    return s.encode("utf-16-be").hex() if s else "-"

SUBPATS = ["^api/", "^a/", "^([a-z]+)/", "^v(\\d+)/", "^static", "^", "^x", "x/", "^a", "^api", "^(a|ab)/?", "^[^/]*/"]
REDPATS = ["^$", "^r/(.*)$", "^old/(.*)/(.*)$", "^(\\d+)$", "^go$", "^r/", "(b)(c)?", "^never-matches-\\d{9}$", "^(.*)\\.php$"]
TEMPLATES = ["/new/%1", "/n/%1/%2", "/%2/%1", "/fixed", "/%1%1", "/p%", "http://h/%1", "/%L1", "/%1/%3", "/a b", "/%%1"]
RSEGS = ["api", "a", "r", "old", "123", "abc", "x", "v2", "static", "go", "%0d%0aInjected:%20x", "%25", "%252", "%2f", "a%20b", "%C3%A9", "", "b", "bc",
         "i.php", "ab", "%251"]
# captures against place markers (finding D12, repaired): templates with two markers / glued markers and
# request segments whose decoded text contains, starts or completes a marker; a capture must be inserted
# verbatim and never scanned again.  \u0661 (ARABIC-INDIC DIGIT ONE) and \u00b2 are digits for QChar::digitValue().
MTEMPLATES = ["/n/%1/%2", "/%2/%1", "/%1/%3", "/%%1", "/%2%1", "/%105", "/%1%2", "/%%155", "/%L1/%2", "/%1/%2/%1", "/%2/%L1%",
              "/%0/%1", "/%\u0661/%2", "/%1\u00b2/%1"]
MSEGS = ["%252", "%251", "%25", "%2525", "123", "3", "1", "", "%25L1", "%25L", "x", "a%252", "%2512", "0", "%253", "%25%D9%A1", "%25%C2%B2"]


def gen_tree(rng, accept_p):
    toks = []
    pats = SUBPATS + REDPATS
    used = {}
    def pat(p):
        if p not in used:
            used[p] = len(used)
            toks.append("pat:%d:%s" % (used[p], hx16(p)))
        return used[p]
    nid = [0]
    mwid = [0]
    def node(parent, patidx, depth):
        me = nid[0]
        nid[0] += 1
        toks.append("node:%d:%d:%d:%d" % (me, parent, patidx, 1 if rng.random() < 0.3 else 0))
        for _ in range(rng.choice([0, 0, 1, 2])):
            toks.append("mw:%d:%d:%d" % (me, mwid[0], 1 if rng.random() < accept_p else 0))
            mwid[0] += 1
        for _ in range(rng.choice([0, 0, 1, 2])):
            toks.append("redir:%d:%d:%s" % (me, pat(pick(rng, REDPATS)), hx16(pick(rng, TEMPLATES))))
        if depth < 3:
            for _ in range(rng.choice([0, 1, 1, 2, 3]) if depth < 2 else rng.choice([0, 0, 1])):
                pi = pat(pick(rng, SUBPATS))
                node(me, pi, depth + 1)
    node(-1, 0, 0)
    return toks


def gen_route(rng, count, accept_p):
    for i in range(count):
        toks = gen_tree(rng, accept_p)
        segs = [pick(rng, RSEGS) for _ in range(rng.randrange(0, 5))]
        t = "/" + "/".join(segs)
        if rng.random() < 0.45:
            # aimed at the redirect patterns, behind 0-2 sub-handler prefixes
            pre = "".join(pick(rng, ["api/", "a/", "v2/", "abc/", "x/", "static", ""]) for _ in range(rng.randrange(0, 3)))
            s1, s2 = pick(rng, RSEGS), pick(rng, RSEGS)
            t = "/" + pre + pick(rng, ["r/" + s1, "old/" + s1 + "/" + s2, "123", "go", s1 + ".php", "", "r/" + s1 + "/" + s2, "xbc"])
        if rng.random() < 0.2:
            t += "?q=1"
        if rng.random() < 0.05:
            t = pick(rng, ["/", "", "*", "//", "/a//b"])
        if rng.random() < 0.08:
            # a two-capture redirect, first in the root's list, answered with marker-like captures
            k = sum(1 for x in toks if x.startswith("pat:"))
            at = min(j for j, x in enumerate(toks) if x.startswith("node:")) + 1
            toks[at:at] = ["pat:%d:%s" % (k, hx16("^old/(.*)/(.*)$")), "redir:0:%d:%s" % (k, hx16(pick(rng, MTEMPLATES)))]
            t = "/old/" + pick(rng, MSEGS) + "/" + pick(rng, MSEGS)
        r = rng.random()
        if r >= 0.16 and rng.random() < 0.25:
            # earlier requests (for the same path, mostly) on other connections while the tree is still being
            # built: what is attached afterwards must be in force for the observed request
            first = min(j for j, x in enumerate(toks) if x.startswith("node:"))
            if rng.random() < 0.4:
                # a middleware that admitted those earlier requests refuses the observed one (another client, other
                # credentials): verdict 2
                toks = [("%s:2" % x[:-2]) if x.startswith("mw:") and x.endswith(":0") and rng.random() < 0.7 else x for x in toks]
            for _ in range(rng.choice([1, 1, 2])):
                wt = t if rng.random() < 0.7 else "/" + "/".join(pick(rng, RSEGS) for _ in range(rng.randrange(0, 3)))
                pos = rng.randrange(first + 1, len(toks) + 1)
                while pos < len(toks) and toks[pos].startswith("pat:") is False and pos > 0 and toks[pos - 1].startswith("pat:"):
                    pos += 1                 # never between a pattern and the node/redirect that introduces it... keep order simple
                toks.insert(pos, "warm:" + hx(wt.encode()))
        toks.append("req:" + hx(t.encode()))
        if r < 0.04:
            toks.append("noroot")
        elif r < 0.12:
            toks.append("late")          # handler installed after the connection was accepted
        elif r < 0.16:
            toks.append("unsetlate")     # handler removed after the connection was accepted
        if rng.random() < 0.1 and not any(x.startswith("warm:") for x in toks):
            # a one-shot middleware: it accepts and destroys itself inside process() (verdict 3); those attached after it are
            # still consulted for this request (no earlier requests in these scenarios: the handler keeps a raw pointer)
            for j, x in enumerate(toks):
                if x.startswith("mw:") and x.endswith(":1"):
                    toks[j] = x[:-2] + ":3"
                    break
        if r >= 0.16 and rng.random() < 0.12:
            # the request (well-formed or not) is already in the transport's buffer when the server takes the connection
            if rng.random() < 0.5:
                toks = [x for x in toks if not x.startswith("req:")] + ["req:" + hx(pick(rng, [b"", b"/a b", b"/%zz", b"http://[::1", b"/\x00"]))]
            toks.append("prebuf")
        elif rng.random() < 0.3:
            toks.append("soft")          # refusing middleware write their own response and do not close
        yield ("route", " ".join(toks))


def gen_C05(rng, count, tier):
    return gen_route(rng, count, 0.93)


def gen_C06(rng, count, tier):
    return gen_route(rng, count, 0.6)


# ------------------------------------------------------------------------------------ C09

import base64

USERS = [b"alice", b"Alice", b"al", b"bob", b"a:b", b"", b"user", b"caf\xc3\xa9", b"x y"]
PASSES = [b"secret", b"Secret", b"sec", b"", b"p:w", b"pass", b"pa ss", b"\xc3\xa9\xc3\xa9", b"secret1"]


def gen_C09(rng, count, tier):
    for i in range(count):
        table = []
        for _ in range(rng.randrange(0, 5)):
            u = pick(rng, USERS)
            if b":" in u:
                u = u.replace(b":", b"")
            table.append((u, pick(rng, PASSES)))
        realm = pick(rng, [b"r", b"My Realm", b"", b"caf\xc3\xa9", b"a\"b"])
        k = rng.randrange(20)
        if table and rng.random() < 0.15:
            # a long registered password: attempts that share a prefix and differ in length by 2^8, 2^9, 2^16
            j = rng.randrange(len(table))
            table[j] = (table[j][0], table[j][1] + bytes(97 + (q * 7) % 26 for q in range(pick(rng, [256, 300, 512, 520]))))
        u, p = (pick(rng, table) if table and rng.random() < 0.8 else (pick(rng, USERS), pick(rng, PASSES)))
        payload = u + b":" + p
        if k == 16: payload = u + b":" + p + b"x" * pick(rng, [255, 256, 257, 512, 65536])   # same prefix, longer
        elif k == 17 and len(p) > 256: payload = u + b":" + p[:len(p) - pick(rng, [256, 255, 512 if len(p) > 512 else 256])]
        elif k == 18 and p: payload = u + b":" + p[:-1] + bytes([p[-1] ^ pick(rng, [1, 0x20, 0x80])])   # one bit off
        if k == 19 or (k == 0 and rng.random() < 0.5):
            # the same text with one or every character moved by a multiple of 0x100 code units (well-formed UTF-8)
            def shift(b, allc):
                try:
                    t = b.decode("utf-8")
                except UnicodeDecodeError:
                    return b
                if not t:
                    return b
                j = rng.randrange(len(t))
                d = pick(rng, [0x100, 0x200, 0x2000])
                return "".join(chr(ord(c) + d) if (allc or q == j) and ord(c) + d < 0xD800 else c for q, c in enumerate(t)).encode("utf-8")
            if rng.random() < 0.7:
                payload = u + b":" + shift(p, rng.random() < 0.3)
            else:
                payload = shift(u, False) + b":" + p
        if k == 1: payload = u + b":" + p[:-1]                         # prefix password
        elif k == 2: payload = u + b":" + p.swapcase()
        elif k == 3: payload = u + b":"                                # empty password
        elif k == 4: payload = u + p                                   # no colon
        elif k == 5: payload = u + b":" + p + b"\x00junk"              # NUL
        elif k == 6: payload = b"\xef\xbb\xbf" + u + b":" + p          # BOM
        elif k == 7: payload = u + b"\x00x:" + p
        elif k == 8 and table: payload = u + b":" + pick(rng, table)[1]  # other user's password
        elif k == 9: payload = u.upper() + b":" + p
        elif k == 10: payload = u + b":" + p + b":" + p
        elif k == 11: payload = u + b":" + p + b"\xff"
        tok = base64.b64encode(payload)
        scheme = pick(rng, [b"Basic", b"Basic", b"Basic", b"basic", b"BASIC", b"bAsIc", b"Bearer", b"Basi", b"Basicx", b"",
                            b"Basic\x00", b"Basic\x00Bearer", b"basic\x00x", b"\x00Basic", b"Basic\x01"])
        sep = pick(rng, [b" ", b" ", b" ", b" ", b"  ", b"\t", b""])
        m = rng.randrange(12)
        if m == 0: tok = tok.rstrip(b"=")
        elif m == 1: tok = tok[:3] + b"*" + tok[3:]                    # junk inside the token
        elif m == 2: tok = tok + b" "                                  # trailing space (trimmed by the parser)
        elif m == 3: tok = tok + b" x"
        elif m == 4: tok = tok[:5] + b" " + tok[5:]
        elif m == 5: tok = b"=" + tok
        elif m == 6: tok = bytes(rng.randrange(33, 127) for _ in range(rng.randrange(0, 12)))
        val = scheme + sep + tok
        r = rng.random()
        if r < 0.06:
            lines = []
        elif r < 0.12:
            lines = [b"Authorization: " + val, b"authorization: Basic " + base64.b64encode(b"nobody:x")]
        elif r < 0.16:
            lines = [b"Authorization: Basic " + base64.b64encode(b"nobody:x"), b"AUTHORIZATION:" + val]
        else:
            lines = [pick(rng, [b"Authorization", b"authorization"]) + b": " + val]
        head = b"GET / HTTP/1.1" + b"".join(b"\r\n" + l for l in lines)
        head = head.replace(b"\r\n\r\n", b"\r\n")
        toks = ["cred:%s:%s" % (hx(a), hx(b2)) for a, b2 in table] + ["realm:" + hx(realm), "head:" + hx(head)]
        # history: more requests on the same middleware, with credentials replaced in between
        if rng.random() < 0.35 and table:
            def req(u2, p2):
                return "head:" + hx(b"GET / HTTP/1.1\r\nAuthorization: Basic " + base64.b64encode(u2 + b":" + p2))
            u2, p2 = pick(rng, table)
            newp = pick(rng, [b"changed", p2 + b"x", b""])
            toks += [req(u2, p2), "cred:%s:%s" % (hx(u2), hx(newp)), req(u2, p2), req(u2, newp), req(u2, p2)]
        elif rng.random() < 0.25 and table:
            # history: a request that is admitted, then the same header in another letter case (the token too)
            u2, p2 = pick(rng, table)
            tok2 = base64.b64encode(u2 + b":" + p2)
            var = pick(rng, [tok2.lower(), tok2.upper(), tok2.swapcase()])
            toks += ["head:" + hx(b"GET / HTTP/1.1\r\nAuthorization: Basic " + tok2),
                     "head:" + hx(b"GET / HTTP/1.1\r\nAuthorization: " + pick(rng, [b"Basic ", b"basic ", b"BASIC "]) + var),
                     "head:" + hx(b"GET / HTTP/1.1\r\nAuthorization: Basic " + tok2)]
        yield ("auth", " ".join(toks))


# ------------------------------------------------------------------------------------ C14

def gen_C14(rng, count, tier):
    n = 0
    # stop() called from inside a write of the destination (a slot reached from the destination's own signals): the copy
    # ends there, with the one completion stop() signals - also when it is the last block
    for ln, block in ((4, 1), (4, 2), (9, 4), (12, 4), (5, 8), (1, 1)):
        nblocks = (ln + block - 1) // block
        for k in range(nblocks):
            n += 1
            yield ("copier", " ".join(["src:" + hx(bytes(range(65, 65 + ln))), "block:%d" % block, "stopin:%d" % k, "start"] + ["turn"] * (nblocks + 3)))
    # the same over the whole domain of the theorem C14.stopin_equiv: a range (seek or not), a source that has been read
    # from, a write the copy does not get to, fewer turns than that write needs, a device fault before / at / after it
    for extra in (["range:2:5"], ["range:0:3"], ["range:3:-1"], ["prepos:2"], ["prepos:1", "range:0:4"], ["range:5:2"],
                  ["fail:write:0"], ["fail:write:1"], ["fail:write:2"], ["fail:read:1"], ["fail:read:2"], ["fail:seek", "range:2:5"]):
        for k in range(0, 4):
            for turns in (k, k + 1, 6):
                n += 1
                yield ("copier", " ".join(["src:" + hx(bytes(range(65, 72))), "block:3"] + extra + ["stopin:%d" % k, "start"] + ["turn"] * turns))
    maxlen = 5 if tier == "quick" else 8
    # exhaustive: random-access source, every block size, every range, left to run
    for ln in range(0, maxlen + 1):
        src = bytes(range(65, 65 + ln))
        for block in range(1, ln + 2):
            ranges = [None] + [(f, t) for f in range(0, ln + 2) for t in list(range(-1, ln + 2))]
            for r in ranges:
                turns = ln // block + 3
                toks = ["src:" + hx(src), "block:%d" % block] + (["range:%d:%d" % r] if r else []) + ["start"] + ["turn"] * turns
                n += 1
                yield ("copier", " ".join(toks))
    # stop at every turn, with and without range
    for ln in (0, 1, 4, 7):
        src = bytes(range(97, 97 + ln))
        for block in (1, 2, 3, 8):
            total = ln // block + 3
            for at in range(0, total + 1):
                for r in (None, (1, 3)):
                    toks = ["src:" + hx(src), "block:%d" % block] + (["range:%d:%d" % r] if r else []) + ["start"] + ["turn"] * at + ["stop"] + ["turn"] * 3
                    n += 1
                    yield ("copier", " ".join(toks))
    # a destination with a backlog (bytesToWrite() > 0) that announces progress with bytesWritten(), once or several
    # times between two turns: the copier's protocol does not depend on it
    for ln, block in ((3, 1), (5, 1), (6, 2), (9, 3), (4, 1)):
        src = bytes(range(65, 65 + ln))
        for pattern in (["turn", "dack:1", "dack:1"], ["turn", "dack:1"], ["turn", "turn", "dack:1", "dack:1", "dack:5"], ["dack:2", "turn"]):
            toks = ["src:" + hx(src), "block:%d" % block, "dbuf", "start"]
            for _ in range(ln // block + 4):
                toks += pattern
            toks += ["turn"] * 3
            n += 1
            yield ("copier", " ".join(toks))
    # a sequential source that holds bytes no readyRead() of their own announced (`arriveq`): a piece that comes
    # together with the end of the stream, or between two announced pieces; with and without the timer turn, stopped,
    # with a failing destination
    for src in (b"", b"A", b"ABC", b"ABCDE"):
        for cut in range(0, len(src) + 1):
            head, tail = src[:cut], src[cut:]
            A, AQ = "arrive:", "arriveq:"
            pats = [["start", A + hx(head), AQ + hx(tail), "eof"],
                    ["start", "turn", A + hx(head), AQ + hx(tail), "eof"],
                    ["start", AQ + hx(head), A + hx(tail), "eof"],
                    ["start", AQ + hx(head), "turn", A + hx(tail), "eof"],
                    ["start", AQ + hx(head), AQ + hx(tail), "eof"],
                    ["start", "turn", AQ + hx(head), "turn", AQ + hx(tail), "eof"],
                    ["start", "turn", A + hx(head), AQ + hx(tail), "turn", "turn", "eof"],
                    ["start", A + hx(head), AQ + hx(tail), "stop", "eof"],
                    ["start", A + hx(head), "stop", AQ + hx(tail), "turn", "eof"],
                    ["start", "turn", AQ + hx(head), AQ + hx(tail)]]
            for evs in pats:
                n += 1
                yield ("copier", " ".join(["src:" + hx(src), "seq"] + evs))
            for flt in ("write:0", "write:1", "dstopen", "srcopen"):
                n += 1
                yield ("copier", " ".join(["src:" + hx(src), "seq", "fail:" + flt, "start", "turn", A + hx(head), AQ + hx(tail), "eof"]))
    # a random-access source that has been read from before start(): every position (one beyond the size included:
    # the device refuses it), every block size, no range / ranges starting at 0 (no seek) / ranges starting later (seek)
    for ln in range(0, (3 if tier == "quick" else 5) + 1):
        src = bytes(range(65, 65 + ln))
        for block in range(1, ln + 2):
            for pp in range(1, ln + 2):
                ranges = [None] + [(0, t) for t in range(-1, ln + 2)] + [(f, t) for f in range(1, ln + 2) for t in (-1, f - 1, f, ln)]
                for r in ranges:
                    turns = ln // block + 3
                    toks = ["src:" + hx(src), "block:%d" % block, "prepos:%d" % pp] + (["range:%d:%d" % r] if r else []) + ["start"] + ["turn"] * turns
                    n += 1
                    yield ("copier", " ".join(toks))
    for ln, block, pp in ((7, 2, 3), (7, 3, 6), (4, 1, 2), (9, 4, 9)):
        src = bytes(range(97, 97 + ln))
        total = ln // block + 3
        for at in range(0, total + 1):
            for r in (None, (0, 4), (2, 5)):
                toks = ["src:" + hx(src), "block:%d" % block, "prepos:%d" % pp] + (["range:%d:%d" % r] if r else []) + ["start"] + ["turn"] * at + ["stop"] + ["turn"] * 3
                n += 1
                yield ("copier", " ".join(toks))
        for flt in ("read:0", "read:1", "write:0", "write:1", "seek", "srcopen", "dstopen"):
            for r in (None, (0, 4), (2, 5)):
                toks = ["src:" + hx(src), "block:%d" % block, "prepos:%d" % pp, "fail:" + flt] + (["range:%d:%d" % r] if r else []) + ["start"] + ["turn"] * total
                n += 1
                yield ("copier", " ".join(toks))
    # start() again after stop(): the first run is stopped at every turn, the stale 0 ms timer fires (one turn at least
    # between the stop and the second start), then the second run is left to run
    for ln in (0, 1, 4, 7):
        src = bytes(range(97, 97 + ln))
        for block in (1, 2, 3, 8):
            total = ln // block + 3
            for at in range(0, total + 1):
                for r in (None, (1, 3), (0, 2), (2, -1), (0, -1), (3, 9)):
                    toks = ["src:" + hx(src), "block:%d" % block] + (["range:%d:%d" % r] if r else []) + ["start"] + ["turn"] * at + ["stop", "turn", "turn", "start"] + ["turn"] * total
                    n += 1
                    yield ("copier", " ".join(toks))
    for ln, block, pp in ((7, 2, 3), (5, 1, 1)):
        src = bytes(range(97, 97 + ln))
        total = ln // block + 3
        for at in range(0, total + 1):
            for r in (None, (0, 4), (2, 5)):
                toks = ["src:" + hx(src), "block:%d" % block, "prepos:%d" % pp] + (["range:%d:%d" % r] if r else []) + ["start"] + ["turn"] * at + ["stop", "turn", "start"] + ["turn"] * total
                n += 1
                yield ("copier", " ".join(toks))
    while n < count:
        n += 1
        ln = pick(rng, [0, 1, 2, 3, 9, 17, 40]) if rng.random() < 0.95 else 200000
        src = bytes((rng.randrange(256) if ln < 100 else j % 251) for j in range(ln))
        block = pick(rng, [1, 2, 3, 7, 16, 64, 65536]) if ln < 100 else 65536
        toks = ["src:" + hx(src), "block:%d" % block]
        k = rng.randrange(10)
        if k < 3:
            # sequential source: arrivals in pieces, then eof
            toks.append("seq")
            evs = ["start"]
            parts = cuts(rng, src)
            if rng.random() < 0.5:
                evs.append("turn")
            quiet = rng.random() < 0.5
            for pce in parts:
                evs.append(("arriveq:" if quiet and rng.random() < 0.4 else "arrive:") + hx(pce))
                if rng.random() < 0.3:
                    evs.append("turn")
            if rng.random() < 0.15:
                evs.insert(rng.randrange(1, len(evs) + 1), "stop")
            evs.append("eof")
            if rng.random() < 0.2:
                toks.append("fail:" + pick(rng, ["srcopen", "dstopen", "write:0", "write:1"]))
            yield ("copier", " ".join(toks + evs))
            continue
        if k < 7:
            f = rng.randrange(0, ln + 3)
            t = pick(rng, [-1, rng.randrange(0, ln + 3), f, f + 1, ln - 1, ln])
            toks.append("range:%d:%d" % (f, t))
        if k == 7 or rng.random() < 0.15:
            toks.append("fail:" + pick(rng, ["srcopen", "dstopen", "seek", "read:0", "read:1", "read:2", "write:0", "write:1", "write:3"]))
        if rng.random() < 0.3:
            toks.append("prepos:%d" % rng.randrange(0, ln + 2))
        turns = ln // block + 3
        evs = ["start"] + ["turn"] * turns
        if rng.random() < 0.2:
            at = rng.randrange(1, len(evs) + 1)
            evs.insert(at, "stop")
            if rng.random() < 0.4:
                # ... and the copy is started again, once the stale timer has fired
                evs = evs[:at + 1] + ["turn"] * rng.randrange(1, 3) + ["start"] + ["turn"] * turns
        yield ("copier", " ".join(toks + evs))


# ------------------------------------------------------------------------------------ C07 / C08

import os as _os
FSBASE = _os.path.join(_os.path.dirname(_os.path.dirname(_os.path.abspath(__file__))), ".work", "fstree")
FSROOT = FSBASE + "/parent/root"
PSEGS = ["in.txt", "sub", "deep.txt", ".", "..", "", "%2e", "%2E%2e", "%252e", "%252e%252e", "%2f", "%252f", "..%2f", "%2e%2e%2f", "rootx", "secret.txt",
         ":", "%3A", "%3a%2f", "%253A%252F", "res", "canary.txt",
         "s.txt", "root", "parent", "nonexistent", "caf%C3%A9%20%E4%B8%AD.txt", "caf%E9", "a&b<c>.txt", "a%26b%3Cc%3E.txt", ".hidden", "big.bin", "empty.txt", "..%00", "%00", "....", ". ."]


def fs_events(req, turns=5):
    return " ".join(["new", "feed:" + hx(req)] + ["turn"] * turns + ["ackall", "turn"])


def root_spelling(rng):
    return pick(rng, [FSROOT, FSROOT, FSROOT + "/", FSROOT + "/.", FSBASE + "/parent/./root", FSBASE + "/parent/rootx/../root",
                      FSROOT + "//", FSBASE + "/parent//root"])


def gen_C07(rng, count, tier):
    import itertools
    n = 0
    # the handler object served another document root before: what it found there is not served from the new one
    for pre, p1 in ((FSBASE + "/parent", "/secret.txt"), (FSBASE + "/parent", "/rootx/s.txt"), (FSBASE + "/parent", "/rootx"),
                    (FSBASE + "/parent/rootx", "/s.txt"), (FSROOT + "/sub", "/deep.txt"), (FSBASE + "/parent", "/root/in.txt")):
        n += 1
        yield ("fs", "root:%s preroot:%s warm:%s setroot %s" % (hx(FSROOT.encode()), hx(pre.encode()), hx(p1.encode()),
                                                                fs_events(("GET %s HTTP/1.1\r\n\r\n" % p1).encode())))
    # names that are absolute for Qt without starting with a slash (the resource system)
    for t in ("/:/", "/:/res", "/:/res/canary.txt", "/%3A/", "/%3a%2fres%2fcanary.txt", "/:", "/sub/:/", "/%253A%252F", "/%253A%252Fres"):
        n += 1
        yield ("fs", "root:%s %s" % (hx(FSROOT.encode()), fs_events(("GET %s HTTP/1.1\r\n\r\n" % t).encode())))
    # exhaustive: all paths of up to 3 segments over a reduced alphabet (quick) / 4 (thorough)
    alpha = ["in.txt", "sub", "..", ".", "", "%2e%2e", "%252e%252e", "rootx", "secret.txt", "%2f", "nonexistent"]
    L = 2 if tier == "quick" else 3
    for ln in range(0, L + 1):
        for tup in itertools.product(alpha, repeat=ln):
            for lead in ("/", "//"):
                if n >= count * 0.6:
                    break
                t = lead + "/".join(tup)
                n += 1
                yield ("fs", "root:%s %s" % (hx(FSROOT.encode()), fs_events(("GET %s HTTP/1.1\r\n\r\n" % t).encode())))
    while n < count:
        n += 1
        segs = [pick(rng, PSEGS) for _ in range(rng.randrange(0, 7))]
        t = pick(rng, ["/", "/", "/", "//", "/" + FSBASE + "/parent/", "//" + FSBASE.lstrip("/") + "/parent/"]) + "/".join(segs)
        if rng.random() < 0.1:
            t += "/"
        warm = ""
        if rng.random() < 0.3:
            # the same handler object has answered other requests before (inside the root, mostly)
            warm = " ".join("warm:" + hx(pick(rng, [b"/", b"/in.txt", b"/sub/deep.txt", b"/sub", b"/sub/", b"/nonexistent", b"/../rootx/s.txt", b"/big.bin"]))
                            for _ in range(rng.choice([1, 1, 2]))) + " "
        yield ("fs", "root:%s %s%s" % (hx(root_spelling(rng).encode()), warm, fs_events(("GET %s HTTP/1.1\r\n\r\n" % t).encode())))


def empty_range_requests():
    return [("GET /%s HTTP/1.1\r\nRange: %s\r\n\r\n" % (name, spec)).encode()
            for name in ("in.txt", "empty.txt") for spec in ("bytes=", "bytes=,", "bytes=,,,", "bytes= , ,", "bytes=,0-1", "bytes= ")]


def gen_C08(rng, count, tier):
    # over real sockets: a client that half-closes right behind its request (files that fit in one copy block)
    yield ("tls", "plain halfclose root:%s" % hx(FSROOT.encode()))
    files = [("in.txt", 40), ("sub/deep.txt", 31), ("big.bin", 70000), ("empty.txt", 0), ("edge.bin", 65536), ("a%26b%3Cc%3E.txt", 12), ("sub/caf%C3%A9%20%E4%B8%AD.txt", 5)]
    # range sets without any element, in every run
    for req in empty_range_requests():
        yield ("fs", "root:%s %s" % (hx(FSROOT.encode()), fs_events(req)))
    for i in range(count):
        if rng.random() < 0.04:
            # the same handler object served the same path before, when the file had another size (and the same
            # modification time): sizes, ranges and lengths are those of the file as it is now (50 bytes)
            own = _os.path.join(_os.path.dirname(FSBASE), "rw", "%d-%s-%d-%d" % (_os.getpid(), tier, i, rng.randrange(10**6)))
            hdr = pick(rng, ["", "\r\nRange: bytes=10-45", "\r\nRange: bytes=-5", "\r\nRange: bytes=49-", "\r\nRange: bytes=0-49", "\r\nRange: bytes=45-60"])
            req = ("GET /f.bin HTTP/1.1%s\r\n\r\n" % hdr).encode()
            if rng.random() < 0.4:
                # ... or listed the directory before, when it held an entry more / an entry less
                yield ("fs", "root:%s mkroot warmls:%d %s" % (hx(own.encode()), rng.randrange(2), fs_events(b"GET / HTTP/1.1\r\n\r\n")))
                continue
            yield ("fs", "root:%s mkroot warmrw:%d %s" % (hx(own.encode()), pick(rng, [0, 7, 30, 49, 51, 80, 70000]), fs_events(req)))
            continue
        name, size = pick(rng, files) if rng.random() < 0.9 else (pick(rng, ["", "sub", "sub/"]), 0)
        r = rng.random()
        hdr = None
        if r < 0.85:
            def num():
                return str(pick(rng, [0, 1, 2, size - 2, size - 1, size, size + 1, size + 2, size // 2, 65535, 65536, 65537, 2**31 - 1, 2**31, 5, 39, 40, 41]))
            k = rng.randrange(9)
            if k < 3:
                spec = num() + "-" + num()
            elif k == 3:
                spec = num() + "-"
            elif k == 4:
                spec = "-" + num()
            elif k == 5:
                spec = pick(rng, ["-", "a-b", "1-2-3", "--1", " 1-2", "1 - 2", "", "1-2 ", "-0", "0-", "0-0", "00-01"])
            elif k == 6:
                spec = num() + "-" + num() + "," + num() + "-" + num()
            elif k == 7:
                spec = "," + num() + "-" + num()
            else:
                spec = num() + "-" + num() + ", 3-4"
            unit = pick(rng, ["bytes=", "bytes=", "bytes=", "bytes=", "Bytes=", "bytes =", "items=", "bytes", "bytes= "])
            hdr = unit + spec
        lines = ""
        if hdr is not None:
            lines = "\r\n%s: %s" % (pick(rng, ["Range", "range", "RANGE"]), hdr)
        req = ("GET /%s HTTP/1.1%s\r\n\r\n" % (name, lines)).encode()
        evs = fs_events(req)
        if rng.random() < 0.12:
            # the handler object is destroyed while the response is under way (after the request was routed)
            toks = evs.split()
            pos = rng.randrange(2, len(toks) + 1)
            toks.insert(pos, "killhandler")
            evs = " ".join(toks)
        if rng.random() < 0.1:
            evs = "warm:" + hx(pick(rng, [b"/in.txt", b"/big.bin", b"/"])) + " " + evs
        yield ("fs", "root:%s %s" % (hx(FSROOT.encode()), evs))


# ------------------------------------------------------------------------------------ C15

SLOTNAMES = ["a", "ab", "abc", "", "api/x", "A", "a/", "x y", "é", "b"]


def rereg_scenarios():
    """a name registered again (and again) while a request for it waits for the rest of its body"""
    out = []
    for kind in ("functor", "pmf", "old"):
        for ra in (1, 0):
            head = b"POST /a HTTP/1.1\r\nContent-Length: 5\r\n\r\n"
            for tail in (["feed:" + hx(b"hel"), "rereg:" + hx16("a"), "feed:" + hx(b"lo"), "turn"],
                         ["rereg:" + hx16("a"), "rereg:" + hx16("a"), "feed:" + hx(b"hello"), "turn"],
                         ["feed:" + hx(b"he"), "rereg:" + hx16("a"), "turn", "peerclose", "turn"]):
                out.append(("slot", " ".join(["reg:%s:%s:%d" % (hx16("a"), kind, ra), "new", "feed:" + hx(head)] + tail)))
    return out


def gen_C15(rng, count, tier):
    for sc in rereg_scenarios():
        yield sc
    for i in range(count):
        regs = []
        two = rng.random() < 0.3          # registrations on receivers of two classes that declare the same slot signatures
        for _ in range(rng.randrange(0, 6)):
            kinds = ["old", "old2", "old", "old2", "pmf", "missing", "wrongsig"] if two else ["old", "pmf", "functor", "old", "missing", "wrongsig"]
            regs.append("reg:%s:%s:%d" % (hx16(pick(rng, SLOTNAMES)), pick(rng, kinds), rng.randrange(2)))
        name = pick(rng, SLOTNAMES) if rng.random() < 0.85 else pick(rng, ["zzz", "a/b", "AB"])
        target = "/" + name.replace(" ", "%20").replace("é", "%C3%A9")
        n = pick(rng, [None, 0, 1, 3, 8, 16390 if rng.random() < 0.1 else 5])
        body = bytes((j * 3 + i) % 251 for j in range(n or 0))
        head = ("POST %s HTTP/1.1" % target).encode() + (b"\r\nContent-Length: %d" % n if n is not None else b"")
        sent = body if rng.random() < 0.85 else body[:rng.randrange(0, len(body) + 1)]
        if rng.random() < 0.06:
            # a declared length around the 32-bit boundaries, of which only a few bytes ever arrive
            big = pick(rng, [2**31 - 1, 2**31, 2**31 + 5, 2**32 - 1, 2**32, 2**32 + 3, 2**32 + 12, 2**63 - 1])
            head = ("POST %s HTTP/1.1" % target).encode() + b"\r\nContent-Length: %d" % big
            sent = bytes((j * 5 + i) % 251 for j in range(pick(rng, [0, 3, 12, 40])))
            n = len(sent)
        stream = head + b"\r\n\r\n" + sent + pick(rng, [b"", b"", b"extra"])
        h = len(head)
        segs = cuts(rng, stream, marks=(h + 4, h + 4 + (n or 0), h + 2))
        evs = ["new"] + ["feed:" + hx(s) for s in segs]
        if rng.random() < 0.3:
            evs.insert(rng.randrange(1, len(evs) + 1), "turn")
        if rng.random() < 0.12 and len(evs) > 2:
            # the name is registered again while the request may be waiting for the rest of its body
            # (only once the head has been delivered and routed: before that it would be an ordinary registration)
            got, hpos = 0, None
            for j, x in enumerate(evs):
                if x.startswith("feed:"):
                    got += len(x[5:]) // 2
                    if got >= h + 4:
                        hpos = j
                        break
            if hpos is not None:
                evs.insert(rng.randrange(hpos + 1, len(evs) + 1), "rereg:" + hx16(name))
        if rng.random() < 0.15:
            evs.append("peerclose")
        evs.append("turn")
        if rng.random() < (0.7 if two else 0.15):
            # earlier complete requests for (mostly registered) names on the same handler
            warm = []
            for _ in range(rng.choice([1, 2, 3])):
                wn = pick(rng, SLOTNAMES).replace(" ", "%20").replace("é", "%C3%A9")
                warm.append("warm:" + hx(("POST /%s HTTP/1.1\r\nContent-Length: 2\r\n\r\nhi" % wn).encode()))
            evs = warm + evs
        yield ("slot", " ".join(regs + evs))


# ------------------------------------------------------------------------------------ C17

C17_NAMES = [b"X-Auth-Token", b"x-auth-token", b"X-My-Token", b"Authorization", b"X-Auth-Toke"]


def c17_data(rng):
    keys = [pick(rng, [b"port", b"name", b"token", b"a"]) for _ in range(rng.randrange(0, 3))]
    return "data:" + (",".join(hx(x) for x in dict.fromkeys(keys)) if keys else "-")


def c17_req(rng, cur):
    if rng.random() < 0.1:
        return "req:none"
    n = cur if rng.random() < 0.6 else pick(rng, C17_NAMES + [cur.upper()])
    v = pick(rng, ["exact", "exact", "exact", "upper", "droplast", "braceless", "nul", "bom", "previous", "o_" + hx(b"guess"), "o_-", "o_" + hx(b"{}")])
    return "req:%s:%s" % (hx(n), v)


def c17_fault(rng):
    """LocalFile::open() fails at construction: a directory occupies the advertised name (`block`)
    before `create`; `unblock` takes it away at a random later point; updates / requests /
    destruction / re-construction around it."""
    toks = []
    if rng.random() < 0.5:
        toks.append("umask:" + pick(rng, ["000", "022", "027", "077", "002"]))
    cur = b"X-Auth-Token"
    if rng.random() < 0.3:
        # an ordinary life first: the obstacle appears between destroy and create
        toks.append("create")
        for _ in range(rng.randrange(0, 3)):
            toks.append(c17_data(rng) if rng.random() < 0.5 else c17_req(rng, cur))
        toks.append("destroy")
    elif rng.random() < 0.15:
        toks += ["pre:" + pick(rng, ["666", "644", "600"]), "block"]      # occupied by a file: no-op
        toks += ["create", "destroy"]
    toks.append("block")
    if rng.random() < 0.15:
        toks.append("pre:" + pick(rng, ["666", "644"]))                   # no-op while blocked
    toks.append("create")
    shape = rng.randrange(10)
    if shape < 3:
        body = ["unblock", c17_data(rng), "destroy"]
    elif shape < 6:
        body = [c17_data(rng), "unblock", c17_data(rng), "destroy"]
    else:
        body = []
        alive = True
        for _ in range(rng.randrange(0, 7)):
            k = rng.randrange(10)
            if k < 4:
                body.append(c17_data(rng))
            elif k < 5:
                cur = pick(rng, C17_NAMES)
                body.append("hdrname:" + hx(cur))
            elif k < 8:
                body.append(c17_req(rng, cur))
            elif k < 9:
                body += ["destroy", "create"]
                cur = b"X-Auth-Token"
            else:
                body.append(pick(rng, ["block", "umask:077", "umask:000"]))
        body.insert(rng.randrange(len(body) + 1), "unblock")
        if rng.random() < 0.3:
            body.insert(rng.randrange(len(body) + 1), pick(rng, ["block", "unblock"]))
        if rng.random() < 0.7:
            body.append("destroy")
    if shape < 6 and rng.random() < 0.5:
        # requests anywhere before the destruction: admission does not depend on the obstacle
        for _ in range(rng.randrange(1, 3)):
            body.insert(rng.randrange(len(body)), c17_req(rng, cur))
    toks += body
    r = rng.random()
    if r < 0.25:
        toks += ["create", c17_req(rng, b"X-Auth-Token"), "destroy"]
    elif r < 0.4:
        toks += ["block", "create", c17_data(rng), "destroy", "unblock"]
    elif r < 0.5:
        toks.append("umask:022")
    return toks


def gen_C17(rng, count, tier):
    names = C17_NAMES
    for i in range(count):
        if rng.random() < 0.2:
            yield ("lauth", " ".join(c17_fault(rng)))
            continue
        toks = []
        if rng.random() < 0.6:
            toks.append("umask:" + pick(rng, ["000", "022", "027", "077", "002"]))
        if rng.random() < 0.3:
            toks.append("pre:" + pick(rng, ["666", "644", "777", "600", "400"]))
        toks.append("create")
        cur = b"X-Auth-Token"
        alive = True
        for _ in range(rng.randrange(0, 8)):
            k = rng.randrange(10)
            if k < 2:
                toks.append(c17_data(rng))
            elif k < 3:
                cur = pick(rng, names)
                toks.append("hdrname:" + hx(cur))
            elif k < 8:
                toks.append(c17_req(rng, cur))
            elif k < 9:
                toks.append("destroy")
                toks.append("create")
                cur = b"X-Auth-Token"
            else:
                toks.append("umask:" + pick(rng, ["000", "022", "077"]))
        if rng.random() < 0.7:
            toks.append("destroy")
        yield ("lauth", " ".join(toks))


# ------------------------------------------------------------------------------------ C12 / C13

PSEG = ["a", "api", "x%20y", "r%2520f", "a%252Fb", "100%25", "caf%C3%A9", "a%0d%0aInjected:%20x", "%3F", "%23", "a+b", "%25", "%2f", "v1", "", "b;c", "a=b", "%41"]
PHDR = [b"Host: example", b"Accept: */*", b"X-A: 1", b"x-a: 2", b"X-Forwarded-For: 9.9.9.9", b"X-Forwarded-For: 8.8.8.8, 7.7.7.7",
        b"X-Real-IP: 5.5.5.5", b"Cookie: a=b; c=d", b"X-Empty: x", b"Connection: close",
        b"X-CR: a\rb", b"X\rY: v", b"X-LF: a\nb"]       # a lone CR / LF is an ordinary byte for the parser


def proxy_request(rng, with_body=True):
    m = pick(rng, [b"GET", b"POST", b"PUT", b"DELETE", b"HEAD", b"OPTIONS"])
    t = "/" + "/".join(pick(rng, PSEG) for _ in range(rng.randrange(0, 4)))
    if rng.random() < 0.5:
        t += "?" + pick(rng, ["q=1", "a=b&c=d", "x=%20y", "", "k", "a=b%26c", "u=http://h/p?z=1"])
    hs = []
    for _ in range(rng.randrange(0, 5)):
        h = pick(rng, PHDR)
        hs.append(h)
    if rng.random() < 0.04:
        # a line with a blank name: the request must be refused (400), nothing goes upstream
        hs.insert(rng.randrange(len(hs) + 1), pick(rng, BLANK_NAME_LINES))
    n = pick(rng, [0, 0, 3, 10, 40]) if with_body else 0
    if with_body and rng.random() < 0.06:
        n = pick(rng, [65536, 65537, 70000, 150000])          # more than one 64 KiB read per event
    body = bytes((j * 5 + 1) % 251 for j in range(n))
    if n or rng.random() < 0.3:
        hs.append(b"Content-Length: %d" % n)
    tb = t.encode()
    if rng.random() < 0.08:
        # raw octets that are not UTF-8 (and some that are) in the query: passed on as the client sent them
        tb = tb.split(b"?")[0] + b"?" + pick(rng, [b"q=caf\xe9", b"q=\xff\xfe", b"n=\xc3\xa9", b"a=\x80&b=\xe9\xe9", b"q=%E9\xe9", b"\xe9"])
    head = m + b" " + tb + b" HTTP/1.1" + b"".join(b"\r\n" + h for h in hs)
    return head, body


# what the upstream server says while the client is still sending, as a list of writes
EARLY_ANSWERS = [
    [b"HTTP/1.1 100 Continue\r\n\r\n"], [b"HTTP/1.1 200 OK\r\nX-Up: v\r\n\r\npartial"], [b"HTTP/1.0 500 Oops\r\n\r\n"], [b"HTTP/1.1 200 OK\r\n"],
    [b"HTTP/1.1 100 Continue\r\n\r\n"], [b"HTTP/1.1 200 OK\r\nX-Up: v\r\n\r\npartial"],
    [b"HTTP/1.1 200 OK\r\n", b"X-Up: v\r\n\r\nrest"], [b"HTTP/1.1 100 Continue\r\n\r", b"\n"], [b"HTTP/1.1 204 No Content\r\n\r\n", b"more", b"and more"],
    [b"HTTP/1.1 100 Continue\r\n\r\n", b"HTTP/1.1 200 OK\r\n\r\n"],
    # refused by Parser::parseResponseHeaders: 502, the client's socket is closed
    [b"garbage\r\n\r\n"], [b"HTTP/1.1 abc Bad\r\n\r\n"], [b"HTTP/1.1 99 Low\r\n\r\nbody"], [b"HTTP/1.1 200 OK\r\nNoColonLine\r\n\r\n"],
    [b"HTTP/1.1 200\r\n\r\n"], [b"bad\r\n", b"\r\n", b"late"], [b"\r\n\r\nHTTP/1.1 200 OK\r\n\r\n"],
    # a refused head first, a good one later: the first blank line decides
    [b"junk\r\n\r\n", b"HTTP/1.1 200 OK\r\n\r\n"],
]


def gen_C12(rng, count, tier):
    for i in range(count):
        head, body = proxy_request(rng)
        stream = head + b"\r\n\r\n" + body
        h = len(head)
        segs = cuts(rng, stream, marks=(h + 4, h + 4 + len(body) // 2, h + 2)) if len(body) < 1000 else \
            pick(rng, [[stream], [stream[:h + 4], stream[h + 4:]], [stream[:h + 4 + 100], stream[h + 4 + 100:]]])
        evs = ["new"]
        # turns between segments decide whether body bytes arrive before or after `connected`
        # the upstream server may begin to answer (interim response, early error, streaming endpoint) before the
        # client has sent the whole body: what the client sends afterwards is still the request
        # The answer may come in pieces (a head cut across two writes, data after the head) and may begin before the
        # upstream connection exists (then the scripted server has nothing to write on).  A complete response head that
        # Parser::parseResponseHeaders refuses makes the proxy answer 502 and close the client's socket: from then on
        # nothing more of the request is owed (C12.settled / Proxy.upHeadOk).
        early = {}
        if rng.random() < 0.35:
            ans = pick(rng, EARLY_ANSWERS)
            j0 = rng.randrange(len(segs))
            for k, piece in enumerate(ans):
                early.setdefault(min(j0 + k * rng.randrange(1, 3), len(segs) - 1), []).append(piece)
        for j, s in enumerate(segs):
            evs.append("feed:" + hx(s))
            if rng.random() < 0.4 or j in early:
                evs.append("turn")
            for piece in early.get(j, []):
                evs += ["up:" + hx(piece), "turn"]
        evs += ["turn", "turn"]
        yield ("proxy", " ".join(evs))


UP_HDRS = [b"Content-Type: text/plain", b"Set-Cookie: a=1", b"Set-Cookie: b=2", b"X-Up: v", b"x-up: w", b"Content-Length: 5", b"Server: up", b"X-Pad:   padded  ",
           b"X\rZ: a\rb"]


def upstream_response(rng):
    k = rng.randrange(12)
    code = pick(rng, [b"200", b"404", b"301", b"100", b"599", b"204", b"500"])
    reason = pick(rng, [b"OK", b"Not Found", b"", b"Weird Reason Text", b"OK", b"O\rK", b"OK\r"])
    ver = pick(rng, [b"HTTP/1.1", b"HTTP/1.0", b"HTTP/1.1"])
    hs = [pick(rng, UP_HDRS) for _ in range(rng.randrange(0, 5))]
    first = ver + b" " + code + b" " + reason
    if k == 0:
        first = ver + b" " + pick(rng, [b"99", b"600", b"abc", b"", b"-200", b"1000"]) + b" " + reason
    elif k == 1:
        first = ver + b" " + code                      # two parts only
    elif k == 2:
        hs.insert(rng.randrange(len(hs) + 1), pick(rng, [b"NoColonLine"] + BLANK_NAME_LINES))
    body = bytes((j * 3 + 2) % 251 for j in range(pick(rng, [0, 1, 5, 30, 700])))
    if rng.random() < 0.2:
        body = b"\r\n\r\n" + body
    return first + b"".join(b"\r\n" + h for h in hs) + b"\r\n\r\n", body


def gen_C13(rng, count, tier):
    # a response that stays open for a long (virtual) time while the client is still sending: relayed to the end
    for wait in (21000, 61000, 3600000):
        head, body = b"POST /p HTTP/1.1\r\nContent-Length: 6", b"abcdef"
        yield ("proxy", " ".join(["new", "feed:" + hx(head + b"\r\n\r\n" + body[:3]), "turn", "up:" + hx(b"HTTP/1.1 200 OK\r\n\r\npart1-"), "turn",
                                  "feed:" + hx(body[3:]), "turn", "advance:%d" % wait, "turn", "up:" + hx(b"part2"), "turn", "upclose", "turn", "ackall", "turn"]))
        yield ("proxy", " ".join(["new", "feed:" + hx(b"GET /p HTTP/1.1\r\n\r\n"), "turn", "advance:%d" % wait, "turn",
                                  "up:" + hx(b"HTTP/1.1 200 OK\r\n\r\nlate"), "turn", "upclose", "turn", "ackall", "turn"]))
    for i in range(count):
        head, body = proxy_request(rng, with_body=False)
        evs = ["new", "feed:" + hx(head + b"\r\n\r\n" + body), "turn"]
        toks = []
        r = rng.random()
        if r < 0.1:
            toks.append("refuse")
            evs += ["turn"]
        else:
            uh, ub = upstream_response(rng)
            whole = uh + ub
            mode = rng.randrange(6)
            if mode == 0:
                parts = [whole]
            elif mode == 1:
                parts = cuts(rng, whole, marks=(len(uh), len(uh) - 2, len(uh) - 4, 9, 12))
            elif mode == 2:
                parts = [whole[:rng.randrange(0, len(uh))]]          # ends before a complete head
            else:
                parts = cuts(rng, whole, marks=(len(uh),))
            for pce in parts:
                if pce:
                    evs += ["up:" + hx(pce), "turn"]
            if mode == 2 or rng.random() < 0.6:
                evs += ["upclose", "turn"]
            if rng.random() < 0.2:
                evs += ["up:" + hx(b"late"), "turn"]
        evs += ["ackall", "turn"]
        yield ("proxy", " ".join(toks + evs))


# ------------------------------------------------------------------------------------ C10

def gen_C10(rng, count, tier):
    # connections that end during the TLS handshake are per-connection objects too
    hello = bytes.fromhex("16030100c8010000c40303") + bytes(range(32))
    for pay in [b"", b"\x16\x03\x01", hello, hello[:20], b"GET / HTTP/1.1\r\n\r\n"]:
        yield ("tls", "tls raw:%s" % hx(pay))
    yield ("tls", "tls ssl:%s" % hx(b"/x"))
    # several clients at once with a small accept backlog; one leaves while the others are still sending
    yield ("tls", "plain crowd")
    reqs = {
        "fs": [b"HEAD /big.bin HTTP/1.1\r\n\r\n", b"HEAD /in.txt HTTP/1.1\r\n\r\n", b"OPTIONS /in.txt HTTP/1.1\r\n\r\n",
               b"GET /big.bin HTTP/1.1\r\n\r\n", b"GET /in.txt HTTP/1.1\r\n\r\n", b"GET /sub HTTP/1.1\r\n\r\n", b"GET /big.bin HTTP/1.1\r\nRange: bytes=10-69000\r\n\r\n",
               b"GET /nonexistent HTTP/1.1\r\n\r\n", b"BAD\r\n\r\n", b"GET /edge.bin HTTP/1.1\r\n\r\n"],
        "slot": [b"POST /s HTTP/1.1\r\nContent-Length: 5\r\n\r\nhello", b"POST /s HTTP/1.1\r\nContent-Length: 50\r\n\r\nshort", b"GET /s HTTP/1.1\r\n\r\n", b"GET /x HTTP/1.1\r\n\r\n"],
        # proxied to an upstream that accepts and never answers: the request stays in flight
        "proxy": [b"GET /p HTTP/1.1\r\n\r\n", b"POST /p HTTP/1.1\r\nContent-Length: 5\r\n\r\nhello", b"POST /p HTTP/1.1\r\nContent-Length: 50\r\n\r\nshort", b"BAD\r\n\r\n"],
    }
    for i in range(count):
        kind = pick(rng, ["fs", "fs", "fs", "fs", "slot", "proxy"])
        req = pick(rng, reqs[kind])
        cut = rng.randrange(0, len(req) + 1) if rng.random() < 0.5 else len(req)
        sent = req[:cut]
        segs = cuts(rng, sent) if sent else []
        evs = ["new"] + ["feed:" + hx(s) for s in segs if s]
        # ending: client first / server first / server destroyed, at a random point
        tail = []
        for _ in range(rng.randrange(0, 6)):
            tail.append(pick(rng, ["turn", "turn", "ackall", "ack:100", "ack:70000", "peerclose", "killserver" if rng.random() < 0.3 else "turn",
                                   "killhandler" if rng.random() < 0.5 else "turn"]))
        pos = rng.randrange(1, len(evs) + 1)
        if rng.random() < 0.3:
            mid = pick(rng, ["peerclose", "killserver", "turn"])
            # no segment is delivered on a connection the client has already left
            evs = evs[:pos] + [mid] + ([] if mid != "turn" else evs[pos:])
        toks = ["kind:" + kind, "root:" + hx(FSROOT.encode())]
        if kind == "proxy" and rng.random() < 0.4:
            # the client is gone (and its objects deleted) before the upstream connection is established
            evs = ["new", "feed:" + hx(req), pick(rng, ["peerclose", "peerclose", "killserver"]), "reap", "turn", "turn"]
            tail = [pick(rng, ["turn", "reap", "ackall"]) for _ in range(rng.randrange(0, 3))]
        if kind == "proxy" and rng.random() < 0.35:
            # the upstream has begun to answer (and keeps its connection open) when the connection, the handler or the
            # server goes away
            up = pick(rng, [b"HTTP/1.1 200 OK\r\n\r\npartial", b"HTTP/1.1 200 OK\r\nContent-Length: 100\r\n\r\nabc", b"HTTP/1.1 100 Continue\r\n\r\n", b"HTTP/1.1 200 OK\r\n"])
            evs = ["new", "feed:" + hx(req), "turn", "upsend:" + hx(up), "turn"]
            tail = [pick(rng, ["killserver", "peerclose", "killhandler", "turn"])] + [pick(rng, ["turn", "reap", "ackall", "killserver", "peerclose"]) for _ in range(rng.randrange(0, 3))]
        yield ("life", " ".join(toks + evs + tail))


# ------------------------------------------------------------------------------------ C11

def rand_bytes(rng, n):
    return bytes(rng.randrange(256) for _ in range(n))


def fuzz_api(rng):
    k = rng.randrange(14)
    if k == 0: return "read:%d" % pick(rng, [0, 1, 2, 5, 16384, 20000])
    if k == 1: return "readall"
    if k == 2: return "avail"
    if k == 3: return "status:%d:%s" % (pick(rng, CODES), pick(rng, REASONS))
    if k == 4: return "hdr:%s:%s:%s" % (hx(pick(rng, HN)), hx(pick(rng, HV)), pick(rng, ["r", "a"]))
    if k == 5: return "wh"
    if k == 6: return "write:" + hx(rand_bytes(rng, pick(rng, [0, 1, 7, 100])))
    if k == 7: return "err:%d:~" % pick(rng, [400, 404, 500, 200])
    if k == 8: return "redir:%s:%d" % (hx(b"/x"), rng.randrange(2))
    if k == 9: return "close"
    if k == 10: return "snap"
    if k == 11: return "json:%s:200" % hx(b"{}")
    return "readall"


def gen_C11(rng, count, tier):
    # liveness over real sockets: a client that never reads a huge response must not stall the engine
    yield ("tls", "plain stall")
    yield ("tls", "plain slowread")
    # several clients at once with a small accept backlog; one leaves while the others are still sending
    yield ("tls", "plain crowd")
    # every other component the statement names: response parser and relay (proxy), range parser,
    # filesystem handler, slot handler, copier, connection teardown — their own scenario
    # languages, run under the sanitizers; the model comparison is the one of the owning property
    others = [gen_C12, gen_C13, gen_C07, gen_C08, gen_C15, gen_C14, gen_C16, gen_C10, gen_C17]
    per = max(4, count // (3 * len(others)))
    for g in others:
        pool = list(g(rng, per * 3, tier))
        for _ in range(min(per, len(pool))):
            lang, toks = pool.pop(rng.randrange(len(pool)))
            if lang == "proxy" and rng.random() < 0.4:
                toks += " peerclose turn"        # the client leaves once everything has settled
            yield (lang, toks)
    # inputs at the edge of the other components' domains, in every run
    for req in empty_range_requests():
        yield ("fs", "root:%s %s" % (hx(FSROOT.encode()), fs_events(req)))
    for sc in rereg_scenarios():
        yield sc
    for _ in range(per):
        # arbitrary bytes from the upstream server
        head, body = proxy_request(rng, with_body=False)
        evs = ["new", "feed:" + hx(head + b"\r\n\r\n"), "turn"]
        for _ in range(rng.randrange(1, 4)):
            junk = pick(rng, [rand_bytes(rng, rng.randrange(0, 60)), b"\r\n\r\n", b"HTTP/1.1 200 OK\r\n", b"\x00" * 5, b"HTTP/1.1 \r\n\r\n", b" 200 \r\n\r\n"])
            if junk:
                evs += ["up:" + hx(junk), "turn"]
        if rng.random() < 0.5:
            evs += ["upclose", "turn"]
        evs += ["ackall", "turn"]
        if rng.random() < 0.3:
            evs += ["peerclose", "turn"]
        yield ("proxy", " ".join(evs))
    count = max(1, count - per * (len(others) + 1))
    for i in range(count):
        react = []
        for sig in ("hp", "rr", "rcf", "bw", "dc"):
            if rng.random() < 0.45:
                react += ["@" + sig] + [fuzz_api(rng) for _ in range(rng.randrange(1, 4))] + ["@end"]
        evs = []
        if rng.random() < 0.2:
            evs.append("prebuf:" + hx(pick(rng, [b"GET / HTTP/1.1\r\n\r\n", b"BAD\r\n\r\n", b"GE"])))
        evs.append("new")
        base = pick(rng, [valid_head(rng, cl=pick(rng, [None, b"0", b"3", b"10", b"-1", b"abc"])) + b"\r\n\r\n" + rand_bytes(rng, rng.randrange(0, 12)),
                          bad_head(rng) + b"\r\n\r\n", rand_bytes(rng, rng.randrange(0, 40)), b"\r\n\r\n", b""])
        pieces = cuts(rng, base) if base else []
        for _ in range(rng.randrange(2, 14)):
            k = rng.randrange(12)
            if k < 4 and pieces:
                evs.append("feed:" + hx(pieces.pop(0)))
            elif k == 4:
                evs.append("feed:" + hx(rand_bytes(rng, rng.randrange(0, 9))))
            elif k == 5:
                evs.append(pick(rng, ["ack:1", "ack:19", "ack:100000", "ackall"]))
            elif k == 6:
                evs.append("peerclose")
            elif k == 7:
                evs.append("turn")
            else:
                evs.append(fuzz_api(rng))
        yield ("sock", " ".join(react + evs))


# ------------------------------------------------------------------------------------ C20

def gen_C20(rng, count, tier):
    hello = bytes.fromhex("16030100c8010000c40303") + bytes(range(32)) + b"\x00\x00\x02\x13\x01\x01\x00"
    # an established TLS connection that stays idle for a while before the request is sent (timers armed
    # during the handshake must not touch it); real time, so only a few
    for ms in ([6500] if tier == "quick" else [6500, 11000, 31000]):
        yield ("tls", "tls ssl:%s idle:%d" % (hx(b"/idle"), ms))
    for i in range(count):
        mode = "tls" if rng.random() < 0.75 else "plain"
        k = rng.randrange(10)
        if k < 5:
            # clear-text clients
            req = pick(rng, [b"GET / HTTP/1.1\r\n\r\n", b"GET /secret HTTP/1.1\r\nHost: x\r\n\r\n", b"POST /a HTTP/1.0\r\nContent-Length: 3\r\n\r\nabc",
                             b"", b"\r\n\r\n", b"GET", hello, hello[:rng.randrange(1, len(hello))], bytes(rng.randrange(256) for _ in range(rng.randrange(1, 60))),
                             b"\x16\x03\x01" + b"GET / HTTP/1.1\r\n\r\n", b"BAD\r\n\r\n"])
            if rng.random() < 0.2 and req:
                j = rng.randrange(len(req)); req = req[:j] + bytes([req[j] ^ (1 << rng.randrange(8))]) + req[j + 1:]
            if mode == "tls" and rng.random() < 0.25:
                mode = "tls nocert"          # a TLS configuration that lacks a certificate is still a TLS configuration
            yield ("tls", "%s raw:%s" % (mode, hx(req)))
        else:
            t = "/" + "/".join(pick(rng, ["a", "b%20c", "x", ""]) for _ in range(rng.randrange(0, 3)))
            if rng.random() < 0.3:
                t += "?q=1"
            yield ("tls", "%s ssl:%s" % (mode, hx(t.encode())))


# ------------------------------------------------------------------------------------ Qt sub-models

def gen_qt(rng, count):
    """differential validation of the Lean sub-models of Qt value classes (language `qt`)"""
    # exhaustive: toLower on every byte, isSpace/trimmed around every byte
    yield ("qt", " ".join("lower:%02x" % c for c in range(256)))
    yield ("qt", " ".join("trim:%02x61%02x" % (c, c) for c in range(256)))
    names = [b"A", b"a", b"B", b"b", b"\xc9", b"\xe9", b"Ab", b"aB", b"", b"Z", b"[", b"@", b"\xd7", b"\xf7", b"a\x00", b"\xde", b"\xfe"]
    nums = [b"0", b"12", b" 12 ", b"+5", b"-5", b"- 5", b"9223372036854775807", b"9223372036854775808", b"-9223372036854775808", b"-9223372036854775809",
            b"2147483647", b"2147483648", b"-2147483648", b"-2147483649", b"1 2", b"0x10", b"", b" ", b"12a", b"\t7\n", b"007", b"1e3", b"--1", b"+-1", b"\x0b3\x0c"]
    for i in range(count):
        toks = []
        for _ in range(30):
            k = rng.randrange(14)
            if k == 0: toks.append("toll:" + hx(pick(rng, nums)))
            elif k == 1: toks.append("toint:" + hx(pick(rng, nums)))
            elif k == 2: toks.append("num:%d" % (pick(rng, [0, 1, -1, 10, 255, 2**31, -2**31, 2**63 - 1, -2**63 + 1, 65536, 99, 100, 101])))
            elif k == 3: toks.append("lt:%s:%s" % (hx(pick(rng, names)), hx(pick(rng, names))))
            elif k == 4: toks.append("splitc:%s:%d" % (hx(pick(rng, [b"a,b", b",", b"", b"a", b",,a,", b"a b c", b" "])), pick(rng, [44, 32])))
            elif k < 8: toks.append("mins:%s:%s" % (hx(pick(rng, names)), hx(pick(rng, [b"1", b"2", b"", b"x"]))))
            elif k == 8: toks.append("mrep:%s:%s" % (hx(pick(rng, names)), hx(pick(rng, [b"r", b"s"]))))
            elif k == 9: toks.append(pick(rng, ["mval:", "mvals:", "mcnt:", "mhas:"]) + hx(pick(rng, names)))
            elif k == 10:
                import base64 as _b
                raw = bytes(rng.randrange(256) for _ in range(rng.randrange(0, 9)))
                enc = _b.b64encode(raw)
                if rng.random() < 0.5:
                    enc = bytes(rng.choice(b"ABCxyz019+/=*- \n") for _ in range(rng.randrange(0, 12)))
                toks.append("b64:" + hx(enc))
            elif k == 11:
                # fromPercentEncoding is modelled for well-formed escapes (and a '%' too close to the
                # end to be one); Qt decodes '%' + ANY two bytes, which no property relies on
                parts = [pick(rng, [b"%2e", b"%2E", b"%41", b"%7a", b"%00", b"%fF", b"a", b"/", b".", b"Z", b"4"]) for _ in range(rng.randrange(0, 6))]
                toks.append("pct:" + hx(b"".join(parts) + pick(rng, [b"", b"", b"%", b"%4"])))
            else:
                toks.append("clean:" + hx(bytes(rng.choice(b"//..aab") for _ in range(rng.randrange(0, 9)))))
        yield ("qt", " ".join(toks))
